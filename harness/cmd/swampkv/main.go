// Driver for the single-client key-value semantics of the Gateway (C06, C05, C30): binds
// spec/SwampKV.tla to app/server/gateway by recording histories for TLC trace validation.
//
//	swampkv run <in.json> <out.ndjson>
//
// in.json: {"tag": "b0", "histories": [{"id": 7, "mode": "mem"|"p0"|"pw"|"pi", "steps": [<abstract request>...]}]}
// Every history runs against a fresh swamp of the sanctuary that belongs to its mode:
//
//	mem  in-memory swamp                                  (close after idle: 1 day)
//	p0   persistent, write interval 0 (immediate write)   (close after idle: 1 day)
//	pw   persistent, write interval 1 day (write behind)  (close after idle: 1 day)
//	pi   persistent, write interval 0, close after idle 1 s (C05/C30: idle eviction)
//	pj   persistent, write interval 1 day, close after idle 1 s
//
// Requests reach the handlers in wire form (protobuf marshal/unmarshal round trip, rig.Wire) and the
// responses are read back through the same round trip (a nil response with a nil error is the empty
// message, as a gRPC client sees it).  Every call runs in its own goroutine: a Go panic that escapes
// the handler and a call that never returns are observations ("ret": false), not driver failures.
// A call is declared "never returns" when its goroutine is parked on a lock/condition for the whole
// confirmation window while no other request is in flight (single client); the stack signature is
// logged.  After such a call the history ends (its swamp is abandoned).
//
// All values are abstracted for TLC (32-bit ints, no floats, no byte payloads): timestamps are
// ranks in a fixed table (0 = unset, 10 = "the server's current time"), strings / byte arrays /
// user ids are interned ids (0 = empty), numbers are small integers.
package main

import (
	"context"
	"encoding/json"
	"fmt"
	"io"
	"log/slog"
	"os"
	"reflect"
	"regexp"
	"runtime"
	"sort"
	"strconv"
	"strings"
	"sync"
	"sync/atomic"
	"time"

	hydrapb "github.com/hydraide/hydraide/sdk/go/hydraidego/v3/hydraidepbgo"
	"google.golang.org/grpc/codes"
	"google.golang.org/grpc/status"
	"google.golang.org/protobuf/proto"
	"google.golang.org/protobuf/reflect/protoreflect"
	"google.golang.org/protobuf/reflect/protoregistry"
	"google.golang.org/protobuf/types/known/timestamppb"

	"verifharness/rig"
	"verifharness/sched"
	"verifharness/trace"
)

// ---------------------------------------------------------------------------------------------
// abstraction tables

const nowRank = 10

var processStart = time.Now()

// rank -> time. Negative ranks are before the Unix epoch, 1..9 are in the past (2001), 11..19 in
// the future (2100): every one of them is years away from the wall clock.
func tsOf(rank int64) time.Time {
	switch {
	case rank < 0:
		return time.Date(1960, 1, 1, 0, 0, 0, 0, time.UTC).AddDate(0, 0, int(10+rank))
	case rank < nowRank:
		return time.Date(2001, 1, 1, 0, 0, 0, 0, time.UTC).AddDate(0, 0, int(rank))
	default:
		return time.Date(2100, 1, 1, 0, 0, 0, 0, time.UTC).AddDate(0, 0, int(rank-nowRank))
	}
}

func rankOf(t time.Time) int64 {
	for r := int64(-9); r < 30; r++ {
		if r == 0 || r == nowRank {
			continue
		}
		if tsOf(r).Equal(t) {
			return r
		}
	}
	if d := t.Sub(processStart); d > -48*time.Hour && d < 48*time.Hour {
		return nowRank
	}
	return 99
}

func rankOfPB(ts *timestamppb.Timestamp) int64 {
	if ts == nil {
		return 0
	}
	return rankOf(ts.AsTime())
}

var strTab = []string{"", "x", "y", "z", "w"}
var userTab = []string{"", "alice", "bob", "carol"}
var bytesTab = [][]byte{{}, {1}, {2, 3}, {0}, {4, 5, 6}}

func strID(s string, tab []string) int64 {
	for i, x := range tab {
		if x == s {
			return int64(i)
		}
	}
	return 99
}
func bytesID(b []byte) int64 {
	for i, x := range bytesTab {
		if string(x) == string(b) {
			return int64(i)
		}
	}
	return 99
}

// ---------------------------------------------------------------------------------------------
// abstract requests

type Item struct {
	K  string  `json:"k"`
	T  string  `json:"t"`
	V  int64   `json:"v"`
	U  []int64 `json:"u"`
	Ca int64   `json:"ca"`
	Cb int64   `json:"cb"`
	Ua int64   `json:"ua"`
	Ub int64   `json:"ub"`
	Ea int64   `json:"ea"`
}
type Meta struct {
	On bool  `json:"on"`
	Ca bool  `json:"ca"`
	Cb int64 `json:"cb"`
	Ua bool  `json:"ua"`
	Ub int64 `json:"ub"`
	Ea int64 `json:"ea"`
}
type Cond struct {
	Op string `json:"op"` // none eq ne gt ge lt le
	V  int64  `json:"v"`
}
type Pair struct {
	K string  `json:"k"`
	U []int64 `json:"u"`
}
type Req struct {
	Op     string   `json:"op"`
	Create bool     `json:"create"`
	Over   bool     `json:"over"`
	Items  []Item   `json:"items"`
	Keys   []string `json:"keys"`
	K      string   `json:"k"`
	T      string   `json:"t"`
	By     int64    `json:"by"`
	Cond   *Cond    `json:"cond"`
	Mn     *Meta    `json:"mn"`
	Mx     *Meta    `json:"mx"`
	Pairs  []Pair   `json:"pairs"`
	X      int64    `json:"x"`
	N      int64    `json:"n"`
	How    string   `json:"how"`
	Idx    string   `json:"idx"`
	Ord    string   `json:"ord"`
	Ea     int64    `json:"ea"`
	Fop    string   `json:"fop"`
}
type History struct {
	ID    int    `json:"id"`
	Mode  string `json:"mode"`
	Steps []Req  `json:"steps"`
}
type Input struct {
	Tag       string    `json:"tag"`
	Histories []History `json:"histories"`
}

func i64s(a []int64) []int64 {
	if a == nil {
		return []int64{}
	}
	return a
}
func strs(a []string) []string {
	if a == nil {
		return []string{}
	}
	return a
}

// ---------------------------------------------------------------------------------------------
// concretisation

func kvOf(it Item) *hydrapb.KeyValuePair {
	kv := &hydrapb.KeyValuePair{Key: it.K}
	switch it.T {
	case "i8":
		v := int32(it.V)
		kv.Int8Val = &v
	case "i16":
		v := int32(it.V)
		kv.Int16Val = &v
	case "i32":
		v := int32(it.V)
		kv.Int32Val = &v
	case "i64":
		v := it.V
		kv.Int64Val = &v
	case "u8":
		v := uint32(it.V)
		kv.Uint8Val = &v
	case "u16":
		v := uint32(it.V)
		kv.Uint16Val = &v
	case "u32":
		v := uint32(it.V)
		kv.Uint32Val = &v
	case "u64":
		v := uint64(it.V)
		kv.Uint64Val = &v
	case "f32":
		v := float32(it.V)
		kv.Float32Val = &v
	case "f64":
		v := float64(it.V)
		kv.Float64Val = &v
	case "str":
		v := strTab[it.V]
		kv.StringVal = &v
	case "bool":
		if it.V != 0 {
			kv.BoolVal = hydrapb.Boolean_TRUE.Enum()
		} else {
			kv.BoolVal = hydrapb.Boolean_FALSE.Enum()
		}
	case "bytes":
		kv.BytesVal = append([]byte{}, bytesTab[it.V]...)
	case "u32s":
		kv.Uint32Slice = []uint32{}
		for _, x := range it.U {
			kv.Uint32Slice = append(kv.Uint32Slice, uint32(x))
		}
	case "void":
		t := true
		kv.VoidVal = &t
	case "none": // no value field at all
	}
	if it.Ca != 0 {
		kv.CreatedAt = timestamppb.New(tsOf(it.Ca))
	}
	if it.Cb != 0 {
		s := userTab[it.Cb]
		kv.CreatedBy = &s
	}
	if it.Ua != 0 {
		kv.UpdatedAt = timestamppb.New(tsOf(it.Ua))
	}
	if it.Ub != 0 {
		s := userTab[it.Ub]
		kv.UpdatedBy = &s
	}
	if it.Ea != 0 {
		kv.ExpiredAt = timestamppb.New(tsOf(it.Ea))
	}
	return kv
}

// the abstract view of a wire Treasure
func absTreasure(t *hydrapb.Treasure) map[string]any {
	m := map[string]any{"k": t.GetKey(), "x": t.GetIsExist(), "t": "void", "v": int64(0), "u": []int64{},
		"ca": rankOfPB(t.CreatedAt), "cb": strID(t.GetCreatedBy(), userTab), "ua": rankOfPB(t.UpdatedAt),
		"ub": strID(t.GetUpdatedBy(), userTab), "ea": rankOfPB(t.ExpiredAt)}
	n := 0
	set := func(ty string, v int64) { m["t"] = ty; m["v"] = v; n++ }
	fl := func(f float64) int64 {
		if f != float64(int64(f)) {
			return 99
		}
		return int64(f)
	}
	if t.Int8Val != nil {
		set("i8", int64(*t.Int8Val))
	}
	if t.Int16Val != nil {
		set("i16", int64(*t.Int16Val))
	}
	if t.Int32Val != nil {
		set("i32", int64(*t.Int32Val))
	}
	if t.Int64Val != nil {
		set("i64", *t.Int64Val)
	}
	if t.Uint8Val != nil {
		set("u8", int64(*t.Uint8Val))
	}
	if t.Uint16Val != nil {
		set("u16", int64(*t.Uint16Val))
	}
	if t.Uint32Val != nil {
		set("u32", int64(*t.Uint32Val))
	}
	if t.Uint64Val != nil {
		set("u64", int64(*t.Uint64Val))
	}
	if t.Float32Val != nil {
		set("f32", fl(float64(*t.Float32Val)))
	}
	if t.Float64Val != nil {
		set("f64", fl(*t.Float64Val))
	}
	if t.StringVal != nil {
		set("str", strID(*t.StringVal, strTab))
	}
	if t.BoolVal != nil {
		if *t.BoolVal == hydrapb.Boolean_TRUE {
			set("bool", 1)
		} else {
			set("bool", 0)
		}
	}
	if t.BytesVal != nil {
		set("bytes", bytesID(t.BytesVal))
	}
	if len(t.Uint32Slice) > 0 {
		// an empty uint32 slice is not distinguishable from "no value" on the wire (repeated field)
		u := []int64{}
		for _, x := range t.Uint32Slice {
			u = append(u, int64(x))
		}
		m["t"] = "u32s"
		m["u"] = u
		n++
	}
	if n > 1 {
		m["t"] = "mixed"
	}
	return m
}

func absTreasures(ts []*hydrapb.Treasure, sortByKey bool) []map[string]any {
	out := []map[string]any{}
	for _, t := range ts {
		out = append(out, absTreasure(t))
	}
	if sortByKey {
		sort.SliceStable(out, func(i, j int) bool { return out[i]["k"].(string) < out[j]["k"].(string) })
	}
	return out
}

func grpcCode(err error) string {
	if err == nil {
		return ""
	}
	if s, ok := status.FromError(err); ok {
		return s.Code().String()
	}
	if err == context.DeadlineExceeded {
		return codes.DeadlineExceeded.String()
	}
	return "Unknown"
}

// ---------------------------------------------------------------------------------------------
// one call, in its own goroutine, with the "never returns" observation

type callResult struct {
	resp  proto.Message
	err   error
	panic string
}

var stackHdr = regexp.MustCompile(`(?m)^goroutine (\d+) \[([^\],]+)(?:, [^\]]*)?\]:$`)

// stackOf returns the wait state and the stack text of one goroutine.
func stackOf(goid int64) (string, string) {
	buf := make([]byte, 1<<20)
	for {
		n := runtime.Stack(buf, true)
		if n < len(buf) {
			buf = buf[:n]
			break
		}
		buf = make([]byte, 2*len(buf))
	}
	s := string(buf)
	for _, blk := range strings.Split(s, "\n\n") {
		m := stackHdr.FindStringSubmatch(blk)
		if m == nil {
			continue
		}
		id, _ := strconv.ParseInt(m[1], 10, 64)
		if id == goid {
			return m[2], blk
		}
	}
	return "", ""
}

var funcRe = regexp.MustCompile(`(?m)^([^\s].*)\(.*\)$`)

// signature: the function names of the blocked stack that belong to hydraide or sync, innermost first
func signature(stack string) []string {
	out := []string{}
	for _, m := range funcRe.FindAllStringSubmatch(stack, -1) {
		f := m[1]
		if strings.HasPrefix(f, "goroutine ") || strings.HasPrefix(f, "created by") {
			continue
		}
		if i := strings.LastIndex(f, "/"); i >= 0 {
			f = f[i+1:]
		}
		if strings.HasPrefix(f, "main.") || strings.HasPrefix(f, "reflect.") || strings.HasPrefix(f, "runtime.") {
			continue
		}
		out = append(out, f)
		if len(out) >= 8 {
			break
		}
	}
	return out
}

var hardTimeout = 120 * time.Second

// once a call has been confirmed (twice) to neither return nor park, later ones are given less time
var confirmedRunaway atomic.Int64

func currentHardTimeout() time.Duration {
	if confirmedRunaway.Load() > 0 && hardTimeout > 30*time.Second {
		return 30 * time.Second
	}
	return hardTimeout
}

func init() {
	if v, err := strconv.Atoi(os.Getenv("SWAMPKV_HARD")); err == nil && v > 0 {
		hardTimeout = time.Duration(v) * time.Second
	}
}

const (
	confirmWindow = 30 * time.Second // a goroutine parked this long on the same lock, at the same place, is declared blocked for good
)

// window: how long a parked goroutine is watched before it is declared blocked for good.  Waiting for a
// record guard with no other request in flight is a self-deadlock by construction (nothing in the
// background ever takes record guards in the swamp modes used here), so a few consistent dumps suffice.
func window(sig []string) time.Duration {
	if len(sig) >= 3 && sig[1] == "sync.(*Cond).Wait" && sig[2] == "guard.(*guard).StartTreasureGuard" {
		return 60 * time.Millisecond
	}
	return confirmWindow
}

// invoke runs fn in a goroutine. returned=false: the goroutine is parked for good (sig says where),
// or (infra=true) it neither returned nor parked within the hard timeout.
func invoke(fn func() (proto.Message, error)) (res callResult, returned bool, sig []string, state string, infra bool) {
	var done atomic.Bool
	var goid atomic.Int64
	ch := make(chan callResult, 1)
	go func() {
		goid.Store(sched.GoID())
		var r callResult
		defer func() {
			if p := recover(); p != nil {
				r.panic = fmt.Sprint(p)
			}
			done.Store(true)
			ch <- r
		}()
		r.resp, r.err = fn()
	}()
	start := time.Now()
	var parkedSince time.Time
	lastSig := ""
	for {
		wait := 200 * time.Microsecond
		if time.Since(start) > 20*time.Millisecond {
			wait = 20 * time.Millisecond
		}
		select {
		case r := <-ch:
			return r, true, nil, "", false
		case <-time.After(wait):
		}
		if time.Since(start) < 20*time.Millisecond {
			continue // give ordinary calls time to finish before taking goroutine dumps
		}
		st, stack := stackOf(goid.Load())
		blocked := false
		for _, r := range sched.DefaultBlocked {
			if st == r {
				blocked = true
			}
		}
		s := strings.Join(signature(stack), " < ")
		if blocked && !done.Load() {
			if parkedSince.IsZero() || s != lastSig {
				parkedSince = time.Now()
				lastSig = s
			} else if time.Since(parkedSince) > window(signature(stack)) {
				return callResult{}, false, signature(stack), st, false
			}
		} else {
			parkedSince = time.Time{}
		}
		if time.Since(start) > currentHardTimeout() {
			return callResult{}, false, signature(stack), st, true
		}
	}
}

// wireResp: what a gRPC client would decode (nil message + nil error = empty message)
func wireResp[T proto.Message](m T, err error) (proto.Message, error) {
	if err != nil {
		return nil, err
	}
	if reflect.ValueOf(m).IsNil() {
		return m.ProtoReflect().New().Interface(), nil
	}
	return rig.Wire(m), nil
}

// ---------------------------------------------------------------------------------------------
// execution of one abstract request

type runner struct {
	r         *rig.Rig
	ctx       context.Context
	par       int
	abandoned atomic.Int64
}

var incNames = map[string]string{"i8": "Int8", "i16": "Int16", "i32": "Int32", "i64": "Int64", "u8": "Uint8",
	"u16": "Uint16", "u32": "Uint32", "u64": "Uint64", "f32": "Float32", "f64": "Float64"}

var relOps = map[string]hydrapb.Relational_Operator{"eq": hydrapb.Relational_EQUAL, "ne": hydrapb.Relational_NOT_EQUAL,
	"gt": hydrapb.Relational_GREATER_THAN, "ge": hydrapb.Relational_GREATER_THAN_OR_EQUAL,
	"lt": hydrapb.Relational_LESS_THAN, "le": hydrapb.Relational_LESS_THAN_OR_EQUAL}

func setNum(m protoreflect.Message, name string, v int64) {
	fd := m.Descriptor().Fields().ByName(protoreflect.Name(name))
	switch fd.Kind() {
	case protoreflect.Int32Kind:
		m.Set(fd, protoreflect.ValueOfInt32(int32(v)))
	case protoreflect.Int64Kind:
		m.Set(fd, protoreflect.ValueOfInt64(v))
	case protoreflect.Uint32Kind:
		m.Set(fd, protoreflect.ValueOfUint32(uint32(v)))
	case protoreflect.Uint64Kind:
		m.Set(fd, protoreflect.ValueOfUint64(uint64(v)))
	case protoreflect.FloatKind:
		m.Set(fd, protoreflect.ValueOfFloat32(float32(v)))
	case protoreflect.DoubleKind:
		m.Set(fd, protoreflect.ValueOfFloat64(float64(v)))
	default:
		panic("setNum: kind " + fd.Kind().String())
	}
}

func getNum(m protoreflect.Message, name string) int64 {
	fd := m.Descriptor().Fields().ByName(protoreflect.Name(name))
	v := m.Get(fd)
	switch fd.Kind() {
	case protoreflect.Int32Kind, protoreflect.Int64Kind:
		return v.Int()
	case protoreflect.Uint32Kind, protoreflect.Uint64Kind:
		return int64(v.Uint())
	case protoreflect.FloatKind, protoreflect.DoubleKind:
		f := v.Float()
		if f != float64(int64(f)) {
			return 99
		}
		return int64(f)
	}
	panic("getNum: kind " + fd.Kind().String())
}

func metaPB(m *Meta) *hydrapb.IncrementRequestMetadata {
	if m == nil || !m.On {
		return nil
	}
	out := &hydrapb.IncrementRequestMetadata{}
	if m.Ca {
		t := true
		out.CreatedAt = &t
	}
	if m.Cb != 0 {
		s := userTab[m.Cb]
		out.CreatedBy = &s
	}
	if m.Ua {
		t := true
		out.UpdatedAt = &t
	}
	if m.Ub != 0 {
		s := userTab[m.Ub]
		out.UpdatedBy = &s
	}
	if m.Ea != 0 {
		out.ExpiredAt = timestamppb.New(tsOf(m.Ea))
	}
	return out
}

func (x *runner) increment(sw string, q Req) (proto.Message, error) {
	nm := incNames[q.T]
	mt, err := protoregistry.GlobalTypes.FindMessageByName(protoreflect.FullName("hydraidepbgo.Increment" + nm + "Request"))
	if err != nil {
		panic(err)
	}
	msg := mt.New()
	fs := msg.Descriptor().Fields()
	msg.Set(fs.ByName("IslandID"), protoreflect.ValueOfUint64(1))
	msg.Set(fs.ByName("SwampName"), protoreflect.ValueOfString(sw))
	msg.Set(fs.ByName("Key"), protoreflect.ValueOfString(q.K))
	setNum(msg, "IncrementBy", q.By)
	if q.Cond != nil && q.Cond.Op != "none" {
		cf := fs.ByName("Condition")
		cm := msg.Mutable(cf).Message()
		cm.Set(cm.Descriptor().Fields().ByName("RelationalOperator"), protoreflect.ValueOfEnum(protoreflect.EnumNumber(relOps[q.Cond.Op])))
		setNum(cm, "Value", q.Cond.V)
	}
	if mn := metaPB(q.Mn); mn != nil {
		msg.Set(fs.ByName("SetIfNotExist"), protoreflect.ValueOfMessage(mn.ProtoReflect()))
	}
	if mx := metaPB(q.Mx); mx != nil {
		msg.Set(fs.ByName("SetIfExist"), protoreflect.ValueOfMessage(mx.ProtoReflect()))
	}
	// wire form
	b, err := proto.Marshal(msg.Interface())
	if err != nil {
		panic(err)
	}
	in := mt.New().Interface()
	if err := proto.Unmarshal(b, in); err != nil {
		panic(err)
	}
	meth := reflect.ValueOf(*x.r.GW).MethodByName("Increment" + nm)
	outs := meth.Call([]reflect.Value{reflect.ValueOf(x.ctx), reflect.ValueOf(in)})
	if e := outs[1].Interface(); e != nil {
		return nil, e.(error)
	}
	if outs[0].IsNil() {
		rt, _ := protoregistry.GlobalTypes.FindMessageByName(protoreflect.FullName("hydraidepbgo.Increment" + nm + "Response"))
		return rt.New().Interface(), nil
	}
	om := outs[0].Interface().(proto.Message)
	ob, err := proto.Marshal(om)
	if err != nil {
		panic(err)
	}
	res := om.ProtoReflect().New().Interface()
	if err := proto.Unmarshal(ob, res); err != nil {
		panic(err)
	}
	return res, nil
}

func idxType(s string) hydrapb.IndexType_Type {
	switch s {
	case "exp":
		return hydrapb.IndexType_EXPIRATION_TIME
	case "cre":
		return hydrapb.IndexType_CREATION_TIME
	case "upd":
		return hydrapb.IndexType_UPDATE_TIME
	}
	return hydrapb.IndexType_KEY
}

// exec performs the call and returns the abstract line (request echo + response)
func (x *runner) exec(sw string, q Req) (line map[string]any, returned bool, infra bool) {
	gw := x.r.GW
	ctx := x.ctx
	line = map[string]any{"op": q.Op}
	var fn func() (proto.Message, error)
	switch q.Op {
	case "Set":
		items := []Item{}
		kvs := []*hydrapb.KeyValuePair{}
		for _, it := range q.Items {
			it.U = i64s(it.U)
			items = append(items, it)
			kvs = append(kvs, kvOf(it))
		}
		line["create"], line["over"], line["items"] = q.Create, q.Over, items
		req := &hydrapb.SetRequest{Swamps: []*hydrapb.SwampRequest{{IslandID: 1, SwampName: sw, CreateIfNotExist: q.Create,
			Overwrite: q.Over, KeyValues: kvs}}}
		fn = func() (proto.Message, error) { return wireResp(gw.Set(ctx, rig.Wire(req))) }
	case "Get":
		line["keys"] = strs(q.Keys)
		req := &hydrapb.GetRequest{Swamps: []*hydrapb.GetSwamp{{IslandID: 1, SwampName: sw, Keys: q.Keys}}}
		fn = func() (proto.Message, error) { return wireResp(gw.Get(ctx, rig.Wire(req))) }
	case "GetAll":
		req := &hydrapb.GetAllRequest{IslandID: 1, SwampName: sw}
		fn = func() (proto.Message, error) { return wireResp(gw.GetAll(ctx, rig.Wire(req))) }
	case "GetByKeys":
		line["keys"] = strs(q.Keys)
		req := &hydrapb.GetByKeysRequest{IslandID: 1, SwampName: sw, Keys: q.Keys}
		fn = func() (proto.Message, error) { return wireResp(gw.GetByKeys(ctx, rig.Wire(req))) }
	case "ShiftByKeys":
		line["keys"] = strs(q.Keys)
		req := &hydrapb.ShiftByKeysRequest{IslandID: 1, SwampName: sw, Keys: q.Keys}
		fn = func() (proto.Message, error) { return wireResp(gw.ShiftByKeys(ctx, rig.Wire(req))) }
	case "Delete":
		line["keys"] = strs(q.Keys)
		req := &hydrapb.DeleteRequest{Swamps: []*hydrapb.DeleteRequest_SwampKeys{{IslandID: 1, SwampName: sw, Keys: q.Keys}}}
		fn = func() (proto.Message, error) { return wireResp(gw.Delete(ctx, rig.Wire(req))) }
	case "Count":
		req := &hydrapb.CountRequest{Swamps: []*hydrapb.CountRequest_SwampIdentifier{{IslandID: 1, SwampName: sw}}}
		fn = func() (proto.Message, error) { return wireResp(gw.Count(ctx, rig.Wire(req))) }
	case "IsSwampExist":
		req := &hydrapb.IsSwampExistRequest{IslandID: 1, SwampName: sw}
		fn = func() (proto.Message, error) { return wireResp(gw.IsSwampExist(ctx, rig.Wire(req))) }
	case "IsKeyExist":
		line["k"] = q.K
		req := &hydrapb.IsKeyExistRequest{IslandID: 1, SwampName: sw, Key: q.K}
		fn = func() (proto.Message, error) { return wireResp(gw.IsKeyExist(ctx, rig.Wire(req))) }
	case "AreKeysExist":
		line["keys"] = strs(q.Keys)
		req := &hydrapb.AreKeysExistRequest{IslandID: 1, SwampName: sw, Keys: q.Keys}
		fn = func() (proto.Message, error) { return wireResp(gw.AreKeysExist(ctx, rig.Wire(req))) }
	case "Destroy":
		req := &hydrapb.DestroyRequest{IslandID: 1, SwampName: sw}
		fn = func() (proto.Message, error) { return wireResp(gw.Destroy(ctx, rig.Wire(req))) }
	case "Inc":
		c := Cond{Op: "none"}
		if q.Cond != nil {
			c = *q.Cond
		}
		mn, mx := Meta{}, Meta{}
		if q.Mn != nil {
			mn = *q.Mn
		}
		if q.Mx != nil {
			mx = *q.Mx
		}
		line["t"], line["k"], line["by"], line["cond"], line["mn"], line["mx"] = q.T, q.K, q.By, c, mn, mx
		qq := q
		qq.Cond, qq.Mn, qq.Mx = &c, &mn, &mx
		fn = func() (proto.Message, error) { return x.increment(sw, qq) }
	case "U32Push", "U32Delete":
		pairs := []Pair{}
		ps := []*hydrapb.KeySlicePair{}
		for _, p := range q.Pairs {
			p.U = i64s(p.U)
			pairs = append(pairs, p)
			vs := []uint32{}
			for _, v := range p.U {
				vs = append(vs, uint32(v))
			}
			ps = append(ps, &hydrapb.KeySlicePair{Key: p.K, Values: vs})
		}
		line["pairs"] = pairs
		if q.Op == "U32Push" {
			req := &hydrapb.AddToUint32SlicePushRequest{IslandID: 1, SwampName: sw, KeySlicePairs: ps}
			fn = func() (proto.Message, error) { return wireResp(gw.Uint32SlicePush(ctx, rig.Wire(req))) }
		} else {
			req := &hydrapb.Uint32SliceDeleteRequest{IslandID: 1, SwampName: sw, KeySlicePairs: ps}
			fn = func() (proto.Message, error) { return wireResp(gw.Uint32SliceDelete(ctx, rig.Wire(req))) }
		}
	case "U32Size":
		line["k"] = q.K
		req := &hydrapb.Uint32SliceSizeRequest{IslandID: 1, SwampName: sw, Key: q.K}
		fn = func() (proto.Message, error) { return wireResp(gw.Uint32SliceSize(ctx, rig.Wire(req))) }
	case "U32Has":
		line["k"], line["x"] = q.K, q.X
		req := &hydrapb.Uint32SliceIsValueExistRequest{IslandID: 1, SwampName: sw, Key: q.K, Value: uint32(q.X)}
		fn = func() (proto.Message, error) { return wireResp(gw.Uint32SliceIsValueExist(ctx, rig.Wire(req))) }
	case "ShiftExpired":
		line["n"] = q.N
		req := &hydrapb.ShiftExpiredTreasuresRequest{IslandID: 1, SwampName: sw, HowMany: int32(q.N)}
		fn = func() (proto.Message, error) { return wireResp(gw.ShiftExpiredTreasures(ctx, rig.Wire(req))) }
	case "GetByIndex":
		line["idx"], line["ord"] = q.Idx, q.Ord
		req := &hydrapb.GetByIndexRequest{IslandID: 1, SwampName: sw, IndexType: idxType(q.Idx), OrderType: hydrapb.OrderType_ASC}
		if q.Ord == "desc" {
			req.OrderType = hydrapb.OrderType_DESC
		}
		fn = func() (proto.Message, error) { return wireResp(gw.GetByIndex(ctx, rig.Wire(req))) }
	default:
		if f, ok := extraOps[q.Op]; ok {
			fn = f(x, sw, q, line)
		} else {
			panic("unknown op " + q.Op)
		}
	}
	res, returned, sig, st, infra := invoke(fn)
	line["ret"] = returned
	line["err"] = ""
	if !returned {
		line["sig"] = sig
		line["wait"] = st
		return line, false, infra
	}
	if res.panic != "" {
		line["ret"] = false
		line["sig"] = []string{"panic: " + res.panic}
		line["wait"] = "panic"
		return line, false, false
	}
	line["err"] = grpcCode(res.err)
	if res.err != nil {
		return line, true, false
	}
	switch m := res.resp.(type) {
	case *hydrapb.SetResponse:
		absStatuses(line, q, m.GetSwamps())
	case *hydrapb.GetResponse:
		line["sx"] = false
		line["tr"] = []map[string]any{}
		if len(m.GetSwamps()) == 1 {
			line["sx"] = m.Swamps[0].GetIsExist()
			line["tr"] = absTreasures(m.Swamps[0].GetTreasures(), false)
		} else {
			line["err"] = fmt.Sprintf("BadShape:%d swamps", len(m.GetSwamps()))
		}
	case *hydrapb.GetAllResponse:
		line["tr"] = absTreasures(m.GetTreasures(), true)
	case *hydrapb.GetByKeysResponse:
		line["tr"] = absTreasures(m.GetTreasures(), true)
	case *hydrapb.ShiftByKeysResponse:
		line["tr"] = absTreasures(m.GetTreasures(), true)
	case *hydrapb.ShiftExpiredTreasuresResponse:
		line["tr"] = absTreasures(m.GetTreasures(), false)
	case *hydrapb.GetByIndexResponse:
		line["tr"] = absTreasures(m.GetTreasures(), false)
	case *hydrapb.DeleteResponse:
		line["sw"] = ""
		line["st"] = []string{}
		if len(m.GetResponses()) == 1 {
			rr := m.Responses[0]
			if rr.ErrorCode != nil {
				line["sw"] = rr.ErrorCode.String()
			}
			st := []string{}
			for i, ks := range rr.GetKeyStatuses() {
				if i >= len(q.Keys) || ks.GetKey() != q.Keys[i] {
					line["err"] = "BadShape:keys"
				}
				st = append(st, ks.GetStatus().String())
			}
			line["st"] = st
		} else {
			line["err"] = fmt.Sprintf("BadShape:%d responses", len(m.GetResponses()))
		}
	case *hydrapb.CountResponse:
		line["sx"], line["n"] = false, int64(0)
		if len(m.GetSwamps()) == 1 {
			line["sx"], line["n"] = m.Swamps[0].GetIsExist(), int64(m.Swamps[0].GetCount())
		} else {
			line["err"] = fmt.Sprintf("BadShape:%d swamps", len(m.GetSwamps()))
		}
	case *hydrapb.IsSwampExistResponse:
		line["b"] = m.GetIsExist()
	case *hydrapb.IsKeyExistResponse:
		line["b"] = m.GetIsExist()
	case *hydrapb.AreKeysExistResponse:
		bs := []bool{}
		uniq := map[string]bool{}
		for _, k := range q.Keys {
			uniq[k] = true
			v, ok := m.GetResults()[k]
			if !ok {
				line["err"] = "BadShape:missing " + k
			}
			bs = append(bs, v)
		}
		if len(m.GetResults()) != len(uniq) {
			line["err"] = "BadShape:extra keys"
		}
		line["bs"] = bs
	case *hydrapb.DestroyResponse, *hydrapb.AddToUint32SlicePushResponse, *hydrapb.Uint32SliceDeleteResponse:
	case *hydrapb.Uint32SliceSizeResponse:
		line["n"] = m.GetSize()
	case *hydrapb.Uint32SliceIsValueExistResponse:
		line["b"] = m.GetIsExist()
	default:
		if q.Op == "Inc" {
			pm := res.resp.ProtoReflect()
			line["val"] = getNum(pm, "Value")
			line["inc"] = pm.Get(pm.Descriptor().Fields().ByName("IsIncremented")).Bool()
			mm := map[string]any{"on": false, "ca": int64(0), "cb": int64(0), "ua": int64(0), "ub": int64(0), "ea": int64(0)}
			mf := pm.Descriptor().Fields().ByName("Metadata")
			if pm.Has(mf) {
				md := pm.Get(mf).Message().Interface().(*hydrapb.IncrementResponseMetadata)
				mm = map[string]any{"on": true, "ca": rankOfPB(md.CreatedAt), "cb": strID(md.GetCreatedBy(), userTab),
					"ua": rankOfPB(md.UpdatedAt), "ub": strID(md.GetUpdatedBy(), userTab), "ea": rankOfPB(md.ExpiredAt)}
			}
			line["m"] = mm
		} else if f, ok := extraResp[q.Op]; ok {
			f(line, res.resp, q)
		} else {
			line["err"] = "BadShape:" + string(res.resp.ProtoReflect().Descriptor().Name())
		}
	}
	return line, true, false
}

func absStatuses(line map[string]any, q Req, sws []*hydrapb.SwampResponse) {
	line["sw"] = ""
	line["st"] = []string{}
	line["nsw"] = len(sws)
	if len(sws) < 1 || len(sws) > 2 {
		line["err"] = fmt.Sprintf("BadShape:%d swamps", len(sws))
		return
	}
	if len(sws) == 2 && (sws[1].ErrorCode != nil || len(sws[1].GetKeysAndStatuses()) != 0 || sws[0].ErrorCode == nil) {
		line["err"] = "BadShape:second swamp response is not empty"
		return
	}
	if sws[0].ErrorCode != nil {
		line["sw"] = sws[0].ErrorCode.String()
	}
	st := []string{}
	for _, ks := range sws[0].GetKeysAndStatuses() {
		st = append(st, ks.GetStatus().String())
	}
	if len(st) > 0 {
		if len(st) != len(q.Items) {
			line["err"] = "BadShape:statuses"
		} else {
			for i, ks := range sws[0].GetKeysAndStatuses() {
				if ks.GetKey() != q.Items[i].K {
					line["err"] = "BadShape:keys"
				}
			}
		}
	}
	line["st"] = st
}

// hooks for the operations added by the C05 / C30 parts of the driver (extra.go)
var extraOps = map[string]func(x *runner, sw string, q Req, line map[string]any) func() (proto.Message, error){}
var extraResp = map[string]func(line map[string]any, resp proto.Message, q Req){}

// ---------------------------------------------------------------------------------------------

var sanctuaries = map[string]struct {
	inMem    bool
	idleSec  int64
	writeSec int64
}{
	"mem": {true, 86400, 0},
	"p0":  {false, 86400, 0},
	"pw":  {false, 86400, 86400},
	"pi":  {false, 1, 0},
	"pj":  {false, 1, 86400},
}

func run(inPath, outPath string) error {
	b, err := os.ReadFile(inPath)
	if err != nil {
		return err
	}
	var in Input
	if err := json.Unmarshal(b, &in); err != nil {
		return err
	}
	w, err := trace.Create(outPath)
	if err != nil {
		return err
	}
	if os.Getenv("SWAMPKV_LOG") == "" {
		slog.SetDefault(slog.New(slog.NewTextHandler(io.Discard, nil)))
	}
	r := rig.New(rig.Options{})
	defer os.RemoveAll(r.Root)
	for m, s := range sanctuaries {
		r.Register("kv"+m, "*", "*", s.inMem, s.idleSec, s.writeSec)
	}
	x := &runner{r: r, ctx: context.Background()}
	par := 1
	if v, err := strconv.Atoi(os.Getenv("SWAMPKV_PAR")); err == nil && v > 1 {
		par = v
	}
	x.par = par
	var abandoned, retried, skipped atomic.Int64
	var infraErr atomic.Value
	var emitMu sync.Mutex
	jobs := make(chan History)
	var wg sync.WaitGroup
	for i := 0; i < par; i++ {
		wg.Add(1)
		go func() {
			defer wg.Done()
			for h := range jobs {
				if infraErr.Load() != nil {
					continue
				}
				if confirmedRunaway.Load() >= 3 {
					// the code under test keeps running away: enough observations, do not burn the time budget
					skipped.Add(1)
					continue
				}
				var lines []map[string]any
				var sw string
				ended := false
				// A call that neither returns nor parks within the hard timeout is first treated as a hiccup of the
				// (possibly overloaded) machine: the history is run once more on a fresh swamp.  If it happens again at
				// the same step it is an observation ("ret": false, wait "running") that the specification judges.
				for attempt := 0; attempt < 2; attempt++ {
					sw = rig.SwampName("kv"+h.Mode, "t"+in.Tag, "h"+strconv.Itoa(h.ID)+strings.Repeat("r", attempt))
					lines = []map[string]any{{"ev": "reset", "h": h.ID, "mode": h.Mode, "attempt": attempt}}
					ended = false
					runaway := false
					for i, q := range h.Steps {
						var line map[string]any
						returned, infra := true, false
						if f, ok := lifecycleOps[q.Op]; ok {
							line, infra = f(x, sw, h, q)
						} else {
							line, returned, infra = x.exec(sw, q)
						}
						line["ev"], line["h"], line["i"] = "call", h.ID, i
						lines = append(lines, line)
						if infra {
							runaway = true
							line["ret"] = false
							if _, ok := line["wait"]; !ok {
								line["wait"] = "running"
							}
							ended = true
							x.abandoned.Add(1)
							abandoned.Add(1)
							break
						}
						if !returned {
							abandoned.Add(1)
							x.abandoned.Add(1)
							ended = true
							break
						}
					}
					if !runaway {
						break
					}
					retried.Add(1)
					if attempt == 1 {
						confirmedRunaway.Add(1)
					}
				}
				if !ended && os.Getenv("SWAMPKV_KEEP") == "" {
					// free the swamp (memory, file handle, file); not part of the history
					req := &hydrapb.DestroyRequest{IslandID: 1, SwampName: sw}
					invoke(func() (proto.Message, error) { return wireResp(x.r.GW.Destroy(x.ctx, rig.Wire(req))) })
				}
				emitMu.Lock()
				for _, l := range lines {
					w.Emit(l)
				}
				emitMu.Unlock()
			}
		}()
	}
	for _, h := range in.Histories {
		jobs <- h
	}
	close(jobs)
	wg.Wait()
	if e := infraErr.Load(); e != nil {
		w.Close()
		return e.(error)
	}
	w.Emit(map[string]any{"ev": "end", "h": 0, "retried": retried.Load(), "skipped": skipped.Load()})
	if err := w.Close(); err != nil {
		return err
	}
	if abandoned.Load() == 0 {
		stopped := make(chan struct{})
		go func() { r.Stop(); close(stopped) }()
		select {
		case <-stopped:
		case <-time.After(60 * time.Second):
		}
	}
	return nil
}

// lifecycle steps (CloseReload ...) are not gateway calls; filled by extra.go
var lifecycleOps = map[string]func(x *runner, sw string, h History, q Req) (map[string]any, bool){}

func main() {
	if len(os.Args) < 4 || os.Args[1] != "run" {
		fmt.Fprintln(os.Stderr, "usage: swampkv run <in.json> <out.ndjson>")
		os.Exit(2)
	}
	if err := run(os.Args[2], os.Args[3]); err != nil {
		fmt.Fprintln(os.Stderr, "error:", err)
		os.Exit(3)
	}
	os.Exit(0)
}
