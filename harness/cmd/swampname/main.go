// Driver for C29 (fast swamp-name discovery agrees with the stored name): binds spec/SwampName.tla to
//
//	app/core/hydra/swamp/chronicler/v2/reader.go  ReadSwampName
//	app/server/explorer                           Explorer.Scan / ListSwamps
//
//	swampname run <scenarios.json> <trace.ndjson> <results.ndjson>
//
// A scenario is a list of steps over a table of swamp names. Every step is performed on real storage
// files under a fresh data directory (<data>/<island>/<xx>/<yy>/<hash>.hyd) with the real engine code
// (chronicler, writer, every compaction path, the format migration of hydraidectl, Destroy); legacy
// files are hand-built (version-2 header, name in an OpMetadata entry of the first block). After every
// step the driver records what v2.ReadSwampName returns for every file and what a fresh explorer scan
// lists. Names are interned to integers for TLC.
package main

import (
	"context"
	"crypto/sha1"
	"encoding/binary"
	"encoding/hex"
	"encoding/json"
	"fmt"
	"io"
	"log/slog"
	"math/rand"
	"os"
	"path/filepath"
	"sort"
	"strconv"

	"github.com/hydraide/hydraide/app/core/hydra/swamp/beacon"
	"github.com/hydraide/hydraide/app/core/hydra/swamp/chronicler"
	v2 "github.com/hydraide/hydraide/app/core/hydra/swamp/chronicler/v2"
	"github.com/hydraide/hydraide/app/core/hydra/swamp/treasure"
	"github.com/hydraide/hydraide/app/core/hydra/swamp/treasure/guard"
	hcmd "github.com/hydraide/hydraide/app/hydraidectl/cmd"
	"github.com/hydraide/hydraide/app/server/explorer"

	"verifharness/trace"
)

type Step struct {
	Op  string `json:"op"`  // create | legacy | append | compact | migrate | destroy
	N   int    `json:"n"`   // name id
	Via string `json:"via"` // create: chron|writer ; append: chron|writer ; compact: force|cli|load|fromindex|compact
}

type Scenario struct {
	ID    int               `json:"id"`
	Names map[string]string `json:"names"` // id -> name
	Steps []Step            `json:"steps"`
	Seed  int64             `json:"seed"`
	Noise bool              `json:"noise"` // leftover temp files and foreign files lie around in the data directory
}

type ev = map[string]any

var tw *trace.Writer

type run struct {
	sc     Scenario
	rng    *rand.Rand
	data   string
	ids    map[string]int // name -> id
	nextID int
	paths  map[int]string // name id -> base path (without .hyd)
	notes  []string
	wrong  []string
	ex     *explorer.Explorer // one long-lived explorer per scenario, rescanned after every step (like the server's)
}

func (r *run) intern(s string) int {
	if s == "" {
		return 0
	}
	if id, ok := r.ids[s]; ok {
		return id
	}
	r.nextID++
	r.ids[s] = r.nextID
	return r.nextID
}

func (r *run) base(n int) string {
	if p, ok := r.paths[n]; ok {
		return p
	}
	h := sha1.Sum([]byte(r.sc.Names[strconv.Itoa(n)]))
	hx := hex.EncodeToString(h[:])
	p := filepath.Join(r.data, strconv.Itoa(600+n%3), hx[0:2], hx[2:4], hx[4:20])
	r.paths[n] = p
	return p
}

func mkTreasure(key, content string) treasure.Treasure {
	tr := treasure.New(nil)
	gid := tr.StartTreasureGuard(true, guard.BodyAuthID)
	tr.BodySetKey(gid, key)
	tr.SetContentString(gid, content)
	tr.ReleaseTreasureGuard(gid)
	return tr
}

func tbytes(key, content string) []byte {
	tr := mkTreasure(key, content)
	gid := tr.StartTreasureGuard(true, guard.BodyAuthID)
	defer tr.ReleaseTreasureGuard(gid)
	b, err := tr.ConvertToByte(gid)
	if err != nil {
		panic(err)
	}
	return b
}

func (r *run) entries(n int) []v2.Entry {
	out := []v2.Entry{}
	for i := 0; i < n; i++ {
		k := "k" + strconv.Itoa(r.rng.Intn(4))
		out = append(out, v2.Entry{Operation: v2.OpInsert, Key: k, Data: tbytes(k, "v"+strconv.Itoa(r.rng.Intn(1000)))})
	}
	return out
}

func (r *run) treasures(n int) []treasure.Treasure {
	out := []treasure.Treasure{}
	for i := 0; i < n; i++ {
		out = append(out, mkTreasure("k"+strconv.Itoa(r.rng.Intn(4)), "v"+strconv.Itoa(r.rng.Intn(1000))))
	}
	return out
}

func must(err error) {
	if err != nil {
		panic(err)
	}
}

func (r *run) do(st Step) {
	name := r.sc.Names[strconv.Itoa(st.N)]
	base := r.base(st.N)
	hyd := base + ".hyd"
	must(os.MkdirAll(filepath.Dir(hyd), 0o755))
	block := []int{64, 1024, v2.DefaultMaxBlockSize}[r.rng.Intn(3)]
	switch st.Op {
	case "create":
		if st.Via == "writer" {
			w, err := v2.NewFileWriterWithName(hyd, block, name)
			must(err)
			must(w.WriteEntries(r.entries(5 + r.rng.Intn(20))))
			must(w.Close())
		} else {
			c := chronicler.NewV2WithName(base, 10, name)
			c.CreateDirectoryIfNotExists()
			c.DontSendFilePointer()
			c.Write(r.treasures(5 + r.rng.Intn(20)))
			must(c.Close())
		}
		tw.Emit(ev{"ev": "create", "n": st.N, "legacy": false})
	case "legacy":
		// version-2 header, then the writer appends: metadata entry first, data entries after it
		h := v2.NewFileHeader()
		h.Version = v2.Version2
		h.NameLength = 0
		hb := h.Serialize()
		binary.LittleEndian.PutUint16(hb[4:6], v2.Version2)
		must(os.WriteFile(hyd, hb, 0o644))
		w, err := v2.NewFileWriter(hyd, block)
		must(err)
		must(w.WriteEntry(v2.Entry{Operation: v2.OpMetadata, Key: v2.MetadataEntryKey, Data: []byte(name)}))
		must(w.WriteEntries(r.entries(5 + r.rng.Intn(20))))
		must(w.Close())
		tw.Emit(ev{"ev": "create", "n": st.N, "legacy": true})
	case "append":
		if st.Via == "writer" {
			w, err := v2.NewFileWriter(hyd, block)
			must(err)
			must(w.WriteEntries(r.entries(1 + r.rng.Intn(10))))
			must(w.Close())
		} else {
			c := chronicler.NewV2WithName(base, 10, name)
			c.CreateDirectoryIfNotExists()
			c.DontSendFilePointer()
			c.Load(beacon.New())
			c.Write(r.treasures(1 + r.rng.Intn(10)))
			must(c.Close())
		}
		tw.Emit(ev{"ev": "append", "n": st.N})
	case "compact":
		switch st.Via {
		case "cli":
			res := hcmd.VerifCompactSwamp(hyd, 0.0001, false)
			must(res.Error)
		case "compact":
			_, err := v2.NewCompactor(hyd, block, 0.0001).Compact()
			must(err)
		case "fromindex":
			fr, err := v2.NewFileReader(hyd)
			must(err)
			idx, nm, err := fr.LoadIndex()
			total := int(fr.GetHeader().EntryCount)
			fr.Close()
			must(err)
			_, err = v2.CompactFromIndex(hyd, block, nm, idx, total)
			must(err)
		case "load":
			// cross the self-heal thresholds first (>= 100 entries, mostly dead), then start a "server"
			w, err := v2.NewFileWriter(hyd, block)
			must(err)
			must(w.WriteEntries(r.entries(130)))
			must(w.Close())
			c := chronicler.NewV2WithName(base, 10, name)
			c.CreateDirectoryIfNotExists()
			c.Load(beacon.New())
			must(c.Close())
		default:
			_, err := v2.NewCompactor(hyd, block, 0.5).ForceCompact()
			must(err)
		}
		tw.Emit(ev{"ev": "compact", "n": st.N})
	case "migrate":
		_, _, _, err := hcmd.VerifMigrateFileV2Format(hyd)
		must(err)
		tw.Emit(ev{"ev": "migrate", "n": st.N})
	case "destroy":
		c := chronicler.NewV2WithName(base, 3, name)
		c.Destroy()
		tw.Emit(ev{"ev": "destroy", "n": st.N})
	default:
		panic("unknown op " + st.Op)
	}
}

func (r *run) observe() {
	reads := [][2]int{}
	nfiles := 0
	ids := []int{}
	for k := range r.sc.Names {
		n, _ := strconv.Atoi(k)
		ids = append(ids, n)
	}
	sort.Ints(ids)
	for _, n := range ids {
		hyd := r.base(n) + ".hyd"
		if _, err := os.Stat(hyd); err != nil {
			continue
		}
		nfiles++
		got, err := v2.ReadSwampName(hyd)
		id := -1
		if err == nil {
			id = r.intern(got)
		}
		reads = append(reads, [2]int{n, id})
		if id != n {
			r.wrong = append(r.wrong, fmt.Sprintf("ReadSwampName of the file of name #%d (%d bytes) returned %d bytes, err=%v", n, len(r.sc.Names[strconv.Itoa(n)]), len(got), err))
		}
	}
	list := func(ex *explorer.Explorer) ([]int, int64, int) {
		if err := ex.Scan(context.Background()); err != nil {
			r.notes = append(r.notes, "explorer scan failed: "+err.Error())
		}
		listing := []int{}
		var total int64
		for off := int64(0); ; off += 3 { // (small pages: pagination is part of the listing)
			res := ex.ListSwamps(&explorer.SwampFilter{Offset: off, Limit: 3})
			total = res.Total
			for _, d := range res.Swamps {
				listing = append(listing, r.intern(d.Sanctuary+"/"+d.Realm+"/"+d.Swamp))
			}
			if len(res.Swamps) == 0 || off > 1000 {
				break
			}
		}
		sort.Ints(listing)
		// the hierarchy views must agree with the flat listing
		var viaTree int64
		for _, sn := range ex.ListSanctuaries() {
			for _, rn := range ex.ListRealms(sn.Name) {
				viaTree += int64(len(ex.ListAllSwamps(sn.Name, rn.Name)))
			}
		}
		if viaTree != total {
			total = -viaTree - 1 // (cannot equal the listing length: the spec rejects the line)
		}
		return listing, total, int(ex.GetScanStatus().TotalFiles)
	}
	// a fresh explorer (first scan) and the scenario's long-lived one (rescan over its previous index)
	listing, total, hydfiles := list(explorer.New(r.data))
	if r.ex == nil {
		r.ex = explorer.New(r.data)
	}
	listing2, total2, hydfiles2 := list(r.ex)
	tw.Emit(ev{"ev": "observe", "reads": reads, "listing": listing, "total": total, "hydfiles": hydfiles,
		"listing2": listing2, "total2": total2, "hydfiles2": hydfiles2})
	if len(listing2) != nfiles {
		r.wrong = append(r.wrong, fmt.Sprintf("rescanning explorer lists %d swamps, %d files on disk", len(listing2), nfiles))
	}
	if len(listing) != nfiles {
		r.wrong = append(r.wrong, fmt.Sprintf("explorer lists %d swamps, %d files on disk", len(listing), nfiles))
	}
}

func (r *run) noise() {
	// things that must not be listed: compaction / migration leftovers, foreign files, empty directories
	d := filepath.Join(r.data, "600", "zz", "yy")
	must(os.MkdirAll(d, 0o755))
	w, err := v2.NewFileWriterWithName(filepath.Join(d, "left.hyd.compact"), 1024, "ghost/from/compaction")
	must(err)
	must(w.WriteEntries(r.entries(3)))
	must(w.Close())
	w, err = v2.NewFileWriterWithName(filepath.Join(d, "left.hyd.fmtmigrate"), 1024, "ghost/from/migration")
	must(err)
	must(w.Close())
	must(os.WriteFile(filepath.Join(d, "notes.txt"), []byte("HYDR not a swamp"), 0o644))
	must(os.MkdirAll(filepath.Join(r.data, "601", "empty.hyd.d"), 0o755))
}

func main() {
	if len(os.Args) < 5 || os.Args[1] != "run" {
		fmt.Fprintln(os.Stderr, "usage: swampname run <scenarios.json> <trace.ndjson> <results.ndjson>")
		os.Exit(3)
	}
	slog.SetDefault(slog.New(slog.NewTextHandler(io.Discard, nil)))
	var scs []Scenario
	raw, err := os.ReadFile(os.Args[2])
	must(err)
	must(json.Unmarshal(raw, &scs))
	work := os.Getenv("VERIF_WORK")
	if work == "" {
		panic("VERIF_WORK not set")
	}
	tw, err = trace.Create(os.Args[3])
	must(err)
	rf, err := os.Create(os.Args[4])
	must(err)
	for _, sc := range scs {
		r := &run{sc: sc, rng: rand.New(rand.NewSource(sc.Seed)), ids: map[string]int{}, nextID: 100, paths: map[int]string{},
			data: filepath.Join(work, "swampname-data", strconv.Itoa(sc.ID))}
		for k, v := range sc.Names {
			n, _ := strconv.Atoi(k)
			r.ids[v] = n
		}
		os.RemoveAll(r.data)
		must(os.MkdirAll(r.data, 0o755))
		tw.Emit(ev{"ev": "reset"})
		func() {
			defer func() {
				if p := recover(); p != nil {
					r.notes = append(r.notes, fmt.Sprintf("step failed: %v", p))
					tw.Emit(ev{"ev": "unknown"})
				}
			}()
			if sc.Noise {
				r.noise()
			}
			observe := func() {
				defer func() {
					if p := recover(); p != nil {
						// the lookup or the explorer panicked: an observation no spec step explains
						r.wrong = append(r.wrong, fmt.Sprintf("name lookup / explorer panicked: %v", p))
						tw.Emit(ev{"ev": "panic"})
					}
				}()
				r.observe()
			}
			observe()
			for _, st := range sc.Steps {
				func() {
					defer func() {
						if p := recover(); p != nil {
							// the engine refused or failed the step: an observation, judged by the spec
							r.wrong = append(r.wrong, fmt.Sprintf("step %s(#%d, %s) failed: %v", st.Op, st.N, st.Via, p))
							tw.Emit(ev{"ev": "failed", "n": st.N, "op": st.Op})
						}
					}()
					r.do(st)
				}()
				observe()
			}
		}()
		tw.Emit(ev{"ev": "done", "id": sc.ID})
		b, _ := json.Marshal(map[string]any{"id": sc.ID, "notes": r.notes, "wrong": r.wrong})
		rf.Write(append(b, '\n'))
		os.RemoveAll(r.data)
	}
	rf.Close()
	must(tw.Close())
	os.RemoveAll(filepath.Join(work, "swampname-data"))
}
