package main

import (
	"context"
	"encoding/json"
	"fmt"
	"os"

	"github.com/hydraide/hydraide/app/name"
	hydrapb "github.com/hydraide/hydraide/sdk/go/hydraidego/v3/hydraidepbgo"

	"verifharness/rig"
	"verifharness/trace"
)

// destroyScenario runs schedules one level up: on real swamps created through the gateway. The operation
// process brackets its work with BeginVigil / CeaseVigil exactly as every gateway handler does, and the
// "waiter" calls swamp.Destroy() (what the gateway's Destroy handler calls), which waits for the vigils
// inside. Same gates, same observations, same log format as the plain vigil runs; one fresh swamp per
// schedule; only w1 is used (a second Destroy of the same swamp returns at once by design).
func destroyScenario(tracePath, out string) error {
	r := rig.New(rig.Options{})
	defer os.RemoveAll(r.Root)
	r.Register("c17", "*", "*", true, 3600, 0)
	tw, err := trace.Create(tracePath)
	if err != nil {
		return err
	}
	f, err := os.Create(out)
	if err != nil {
		return err
	}
	defer f.Close()
	enc := json.NewEncoder(f)
	installGate()
	h := r.Zeus.GetHydra()
	schedules := [][]command{
		{{"Begin", "o1"}, {"WStart", "w1"}, {"CStart", "o1"}, {"CFinish", "o1"}, {"WRelease", "w1"}}, // the lost wake-up schedule
		{{"Begin", "o1"}, {"WStart", "w1"}, {"WRelease", "w1"}, {"CStart", "o1"}, {"CFinish", "o1"}}, // the last operation ends after the park
		{{"Begin", "o1"}, {"Begin", "o2"}, {"WStart", "w1"}, {"CStart", "o1"}, {"CFinish", "o1"}, {"WRelease", "w1"}, {"CStart", "o2"}, {"CFinish", "o2"}},
	}
	for i, t := range schedules {
		swName := rig.SwampName("c17", "destroy", fmt.Sprintf("s%d", i))
		v := "x"
		req := &hydrapb.SetRequest{Swamps: []*hydrapb.SwampRequest{{IslandID: 1, SwampName: swName, CreateIfNotExist: true, Overwrite: true,
			KeyValues: []*hydrapb.KeyValuePair{{Key: "k", StringVal: &v}}}}}
		if _, err := r.GRPC().Set(context.Background(), req); err != nil {
			return fmt.Errorf("set: %v", err)
		}
		sw, err := h.SummonSwamp(context.Background(), 1, name.Load(swName))
		if err != nil {
			return fmt.Errorf("summon: %v", err)
		}
		t := t
		res := executeOn(newRunOn(sw, sw.Destroy), i, tw, func(obs map[string]string, k int) (command, bool) {
			if k >= len(t) {
				return command{}, false
			}
			return t[k], true
		}, len(t))
		if err := enc.Encode(res); err != nil {
			return err
		}
		if res.Infra != "" {
			break
		}
	}
	return tw.Close()
}
