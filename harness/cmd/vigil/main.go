// Driver for the vigil (C17): binds spec/Vigil.tla to app/core/hydra/swamp/vigil.
//
// Every operation (BeginVigil/CeaseVigil caller) and every waiter (WaitForActiveVigilsClosed caller) is a
// goroutine. The verifhook.Yield gates inside vigil.go ("vigil.cease.dec" between the decrement and the
// Broadcast, "vigil.wait.checked" between the emptiness check and cond.Wait) block the goroutine until the
// driver releases it, so exactly one process moves at a time. After every command the driver waits for a
// point of rest (every goroutine at a gate, parked in sync.Cond.Wait, blocked on the mutex, idle or
// returned - read from goroutine wait states, no sleeps as synchronisation) and logs the observation.
// The log is validated by TLC against spec/Trace_Vigil.tla.
//
//	vigil run <tests.json> <trace.ndjson> <results.ndjson>      command lists (projected TLC paths)
//	vigil random <trace.ndjson> <results.ndjson> <runs> <ops> <waiters> <steps>   seeded random schedules
//	vigil destroy <trace.ndjson> <results.ndjson>     the lost wake-up schedule on a real swamp's Destroy (own process: one rig)
package main

import (
	"encoding/json"
	"fmt"
	"math/rand"
	"os"
	"regexp"
	"runtime"
	"sort"
	"strconv"
	"sync"
	"sync/atomic"
	"time"

	"github.com/hydraide/hydraide/app/core/hydra/swamp/vigil"
	"github.com/hydraide/hydraide/app/verifhook"

	"verifharness/sched"
	"verifharness/trace"
)

var allOps = []string{"o1", "o2", "o3"}
var allWaiters = []string{"w1", "w2", "w3"}

const restTimeout = 180 * time.Second

type command struct {
	A string `json:"a"`
	P string `json:"p"`
}

type proc struct {
	name    string
	isOp    bool
	goid    int64
	cmds    chan string
	gate    chan struct{}
	atGate  atomic.Bool
	inCall  atomic.Bool // a CeaseVigil / WaitForActiveVigilsClosed call is outstanding
	begun   atomic.Bool // op: BeginVigil done, CeaseVigil not yet called
	done    atomic.Bool // waiter: the wait returned
	started bool
	panicv  atomic.Value
}

var (
	regMu  sync.RWMutex
	byGoid = map[int64]*proc{}
)

func installGate() {
	verifhook.SetYield(func(point string, args ...any) {
		if point != "vigil.cease.dec" && point != "vigil.wait.checked" {
			return // gates of other packages (swamp, hydra, ...) are not ours
		}
		gid := sched.GoID()
		regMu.RLock()
		p := byGoid[gid]
		regMu.RUnlock()
		if p == nil {
			return
		}
		p.atGate.Store(true)
		<-p.gate
	})
}

func (p *proc) loop(v vigil.Vigil, waitFn func(), ready chan struct{}) {
	p.goid = sched.GoID()
	regMu.Lock()
	byGoid[p.goid] = p
	regMu.Unlock()
	close(ready)
	defer func() {
		regMu.Lock()
		delete(byGoid, p.goid)
		regMu.Unlock()
	}()
	for c := range p.cmds {
		func() {
			defer func() {
				if r := recover(); r != nil {
					p.panicv.Store(fmt.Sprint(r))
				}
			}()
			switch c {
			case "begin":
				v.BeginVigil()
				p.begun.Store(true)
				p.inCall.Store(false)
			case "cease":
				v.CeaseVigil()
				p.inCall.Store(false)
			case "wait":
				waitFn()
				p.done.Store(true)
				p.inCall.Store(false)
			}
		}()
	}
}

func (p *proc) obs(states map[int64]string) string {
	if p.panicv.Load() != nil {
		return "panic"
	}
	if !p.inCall.Load() {
		if p.isOp {
			if p.begun.Load() {
				return "active"
			}
			return "idle"
		}
		if p.done.Load() {
			return "done"
		}
		return "idle"
	}
	if p.atGate.Load() {
		return "gate"
	}
	switch states[p.goid] {
	case "sync.Cond.Wait":
		return "parked"
	case "sync.Mutex.Lock", "sync.RWMutex.Lock":
		// (not "semacquire": that is a goroutine about to start a GC cycle waiting for the world
		// semaphore, which the goroutine dump itself holds - it is runnable as far as the vigil goes)
		return "mutexwait"
	}
	return "running"
}

type run struct {
	v      vigil.Vigil
	waitFn func() // what a waiter calls (default: v.WaitForActiveVigilsClosed)
	procs  map[string]*proc
	names  []string
}

func newRun() *run { return newRunOn(vigil.New(), nil) }

func newRunOn(v vigil.Vigil, waitFn func()) *run {
	r := &run{v: v, waitFn: waitFn, procs: map[string]*proc{}}
	if r.waitFn == nil {
		r.waitFn = v.WaitForActiveVigilsClosed
	}
	for _, n := range allOps {
		r.add(n, true)
	}
	for _, n := range allWaiters {
		r.add(n, false)
	}
	sort.Strings(r.names)
	return r
}

func (r *run) add(n string, isOp bool) {
	p := &proc{name: n, isOp: isOp, cmds: make(chan string, 1), gate: make(chan struct{})}
	ready := make(chan struct{})
	go p.loop(r.v, r.waitFn, ready)
	<-ready
	r.procs[n] = p
	r.names = append(r.names, n)
}

// rest waits until no process is running and two consecutive goroutine dumps give the same picture.
func (r *run) rest() (map[string]string, bool) {
	deadline := time.Now().Add(restTimeout)
	var prev map[string]string
	pause := 20 * time.Microsecond
	for {
		st := states()
		cur := map[string]string{}
		stable := true
		for _, n := range r.names {
			o := r.procs[n].obs(st)
			cur[n] = o
			if o == "running" {
				stable = false
			}
		}
		if stable && prev != nil && same(prev, cur) {
			return cur, true
		}
		if stable {
			prev = cur
		} else {
			prev = nil
		}
		if time.Now().After(deadline) {
			return cur, false
		}
		time.Sleep(pause)
		if !stable && pause < 2*time.Millisecond {
			pause += pause / 2 // back off: the dump stops the world, do not starve the goroutines we wait for
		}
	}
}

var (
	dumpBuf = make([]byte, 1<<18)
	hdr     = regexp.MustCompile(`(?m)^goroutine (\d+) \[([^\],]+)(?:, [^\]]*)?\]:$`)
)

// states is sched.States with a reused buffer (the driver takes tens of thousands of dumps).
func states() map[int64]string {
	for {
		n := runtime.Stack(dumpBuf, true)
		if n < len(dumpBuf) {
			out := map[int64]string{}
			for _, m := range hdr.FindAllSubmatch(dumpBuf[:n], -1) {
				id, _ := strconv.ParseInt(string(m[1]), 10, 64)
				out[id] = string(m[2])
			}
			return out
		}
		dumpBuf = make([]byte, 2*len(dumpBuf))
	}
}

func same(a, b map[string]string) bool {
	for k, v := range a {
		if b[k] != v {
			return false
		}
	}
	return true
}

// applicable reports whether the command can be given in the observed real state.
func applicable(c command, obs map[string]string) bool {
	o, ok := obs[c.P]
	if !ok {
		return false
	}
	switch c.A {
	case "Begin":
		return o == "idle" && c.P[0] == 'o'
	case "CStart":
		return o == "active"
	case "CFinish":
		return o == "gate" && c.P[0] == 'o'
	case "WStart":
		return o == "idle" && c.P[0] == 'w'
	case "WRelease":
		return o == "gate" && c.P[0] == 'w'
	}
	return false
}

func (r *run) do(c command) {
	p := r.procs[c.P]
	switch c.A {
	case "Begin":
		p.inCall.Store(true)
		p.cmds <- "begin"
	case "CStart":
		p.begun.Store(false)
		p.inCall.Store(true)
		p.cmds <- "cease"
	case "WStart":
		p.inCall.Store(true)
		p.started = true
		p.cmds <- "wait"
	case "CFinish", "WRelease":
		p.atGate.Store(false)
		p.gate <- struct{}{}
	}
}

func (r *run) has() int {
	if r.v.HasActiveVigils() {
		return 1
	}
	return 0
}

type result struct {
	Test       int               `json:"test"`
	Executed   int               `json:"executed"`           // scripted commands executed
	Scripted   int               `json:"scripted"`           // scripted commands given
	DivergedAt int               `json:"diverged_at"`        // index of the first scripted command that was not applicable (-1: none)
	Stuck      bool              `json:"stuck"`              // at rest, all operations finished, a waiter still parked
	StuckObs   map[string]string `json:"stuck_obs,omitempty"`
	Leaked     int               `json:"leaked"`             // waiters still blocked after the final begin/cease round
	Infra      string            `json:"infra,omitempty"`    // harness problem (no point of rest reached): not a verdict
	FirstLine  int               `json:"first_line"`         // line number (1-based) of this run's reset line in the trace
	Cmds       []command         `json:"cmds"`               // everything executed, including the drain
}

type chooser func(obs map[string]string, k int) (command, bool)

func emit(w *trace.Writer, ev string, c command, obs map[string]string, has int) int {
	return w.Emit(map[string]any{"ev": ev, "a": c.A, "p": c.P, "obs": obs, "has": has})
}

func idleObs() map[string]string {
	m := map[string]string{}
	for _, n := range allOps {
		m[n] = "idle"
	}
	for _, n := range allWaiters {
		m[n] = "idle"
	}
	return m
}

func execute(ti int, w *trace.Writer, next chooser, scripted int) result {
	return executeOn(newRun(), ti, w, next, scripted)
}

func executeOn(r *run, ti int, w *trace.Writer, next chooser, scripted int) result {
	res := result{Test: ti, DivergedAt: -1, Scripted: scripted}
	res.FirstLine = emit(w, "reset", command{}, idleObs(), 0)
	obs, ok := r.rest()
	if !ok {
		res.Infra = "no point of rest at start"
		return res
	}
	step := func(c command) bool {
		r.do(c)
		var ok bool
		obs, ok = r.rest()
		emit(w, "cmd", c, obs, r.has())
		res.Cmds = append(res.Cmds, c)
		if !ok {
			res.Infra = fmt.Sprintf("no point of rest after %s(%s): %v", c.A, c.P, obs)
		}
		return ok
	}
	for k := 0; ; k++ {
		c, more := next(obs, k)
		if !more {
			break
		}
		if !applicable(c, obs) {
			res.DivergedAt = k
			break
		}
		if !step(c) {
			return res
		}
		res.Executed++
	}
	// drain: let everything in flight finish (gates first, then outstanding CeaseVigil calls)
	for i := 0; i < 400; i++ {
		var c command
		found := false
		for _, n := range r.names {
			if obs[n] == "gate" {
				if r.procs[n].isOp {
					c = command{"CFinish", n}
				} else {
					c = command{"WRelease", n}
				}
				found = true
				break
			}
		}
		if !found {
			for _, n := range r.names {
				if obs[n] == "active" {
					c, found = command{"CStart", n}, true
					break
				}
			}
		}
		if !found {
			break
		}
		if !step(c) {
			return res
		}
	}
	for _, n := range r.names {
		if obs[n] == "parked" {
			res.Stuck = true
		}
	}
	if res.Stuck {
		res.StuckObs = obs
		// one more begin/cease round: its Broadcast must wake everybody who is parked
		for _, c := range []command{{"Begin", "o1"}, {"CStart", "o1"}, {"CFinish", "o1"}} {
			if !applicable(c, obs) {
				break
			}
			if !step(c) {
				return res
			}
		}
	}
	for _, n := range r.names {
		p := r.procs[n]
		if !p.isOp && p.started && !p.done.Load() {
			res.Leaked++
		}
		if !p.inCall.Load() {
			close(p.cmds)
		}
	}
	return res
}

func runTests(in, tracePath, out string) error {
	b, err := os.ReadFile(in)
	if err != nil {
		return err
	}
	var tests [][]command
	if err := json.Unmarshal(b, &tests); err != nil {
		return err
	}
	w, err := trace.Create(tracePath)
	if err != nil {
		return err
	}
	f, err := os.Create(out)
	if err != nil {
		return err
	}
	defer f.Close()
	enc := json.NewEncoder(f)
	installGate()
	for i, t := range tests {
		t := t
		res := execute(i, w, func(obs map[string]string, k int) (command, bool) {
			if k >= len(t) {
				return command{}, false
			}
			return t[k], true
		}, len(t))
		if err := enc.Encode(res); err != nil {
			return err
		}
		if res.Infra != "" {
			break
		}
	}
	return w.Close()
}

func runRandom(tracePath, out string, runs, nops, nwait, steps int, seed int64) error {
	w, err := trace.Create(tracePath)
	if err != nil {
		return err
	}
	f, err := os.Create(out)
	if err != nil {
		return err
	}
	defer f.Close()
	enc := json.NewEncoder(f)
	installGate()
	for i := 0; i < runs; i++ {
		rng := rand.New(rand.NewSource(seed*1000003 + int64(i)))
		res := execute(i, w, func(obs map[string]string, k int) (command, bool) {
			if k >= steps {
				return command{}, false
			}
			var cand []command
			for _, n := range allOps[:nops] {
				switch obs[n] {
				case "idle":
					cand = append(cand, command{"Begin", n})
				case "active":
					cand = append(cand, command{"CStart", n}, command{"CStart", n})
				case "gate":
					cand = append(cand, command{"CFinish", n}, command{"CFinish", n})
				}
			}
			for _, n := range allWaiters[:nwait] {
				switch obs[n] {
				case "idle":
					cand = append(cand, command{"WStart", n})
				case "gate":
					cand = append(cand, command{"WRelease", n}, command{"WRelease", n})
				}
			}
			if len(cand) == 0 {
				return command{}, false
			}
			return cand[rng.Intn(len(cand))], true
		}, steps)
		if err := enc.Encode(res); err != nil {
			return err
		}
		if res.Infra != "" {
			break
		}
	}
	return w.Close()
}

func main() {
	if len(os.Args) < 2 {
		fmt.Fprintln(os.Stderr, "usage: vigil run|random ...")
		os.Exit(2)
	}
	var err error
	switch os.Args[1] {
	case "run":
		err = runTests(os.Args[2], os.Args[3], os.Args[4])
	case "random":
		runs, _ := strconv.Atoi(os.Args[4])
		nops, _ := strconv.Atoi(os.Args[5])
		nw, _ := strconv.Atoi(os.Args[6])
		steps, _ := strconv.Atoi(os.Args[7])
		seed, _ := strconv.ParseInt(os.Getenv("VERIF_SEED"), 10, 64)
		err = runRandom(os.Args[2], os.Args[3], runs, nops, nw, steps, seed)
	case "destroy":
		err = destroyScenario(os.Args[2], os.Args[3])
	default:
		err = fmt.Errorf("unknown mode %q", os.Args[1])
	}
	if err != nil {
		fmt.Fprintln(os.Stderr, "error:", err)
		os.Exit(3)
	}
}
