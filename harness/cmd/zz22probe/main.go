// temporary probe (not part of the framework)
package main

import (
	"context"
	"fmt"
	"io"
	"log/slog"
	"os"
	"reflect"
	"time"

	"github.com/hydraide/hydraide/sdk/go/hydraidego/v3"
	"github.com/hydraide/hydraide/sdk/go/hydraidego/v3/name"

	"verifharness/rig"
)

func mk(fields []reflect.StructField) reflect.Type { return reflect.StructOf(fields) }

func main() {
	slog.SetDefault(slog.New(slog.NewTextHandler(io.Discard, nil)))
	r := rig.New(rig.Options{})
	defer os.RemoveAll(r.Root)
	sdk := hydraidego.New(r.SDKClient())
	ctx := context.Background()
	errs := sdk.RegisterSwamp(ctx, &hydraidego.RegisterSwampRequest{SwampPattern: name.New().Sanctuary("c22").Realm("*").Swamp("*"), CloseAfterIdle: time.Second * 5, IsInMemorySwamp: true})
	fmt.Println("register:", errs)
	S := reflect.TypeOf("")
	T := reflect.TypeOf(time.Time{})
	L := reflect.TypeOf([]string{})
	t1 := mk([]reflect.StructField{{Name: "F0", Type: S, Tag: `hydraide:"key"`}, {Name: "F1", Type: S, Tag: `hydraide:"name"`}})
	t2 := mk([]reflect.StructField{{Name: "F0", Type: S, Tag: `hydraide:"key"`}, {Name: "F1", Type: S, Tag: `hydraide:"name"`}, {Name: "F2", Type: T, Tag: `hydraide:"createdAt"`}, {Name: "F3", Type: T, Tag: `hydraide:"updatedAt"`}, {Name: "F4", Type: S, Tag: `hydraide:"createdBy"`}, {Name: "F5", Type: T, Tag: `hydraide:"expireAt"`}})
	sw := name.New().Sanctuary("c22").Realm("p").Swamp("one")
	m := reflect.New(t1)
	m.Elem().Field(0).SetString("k1")
	m.Elem().Field(1).SetString("n1")
	st, err := sdk.CatalogSave(ctx, sw, m.Interface())
	fmt.Println("save:", st, err)
	rd := reflect.New(t2)
	err = sdk.CatalogRead(ctx, sw, "k1", rd.Interface())
	fmt.Printf("read: %v %+v\n", err, rd.Elem().Interface())
	// keywords
	t3 := mk([]reflect.StructField{{Name: "F0", Type: S, Tag: `hydraide:"key"`}, {Name: "F1", Type: S, Tag: `hydraide:"keywords"`}, {Name: "F2", Type: L, Tag: `hydraide:"tags"`}})
	m = reflect.New(t3)
	m.Elem().Field(0).SetString("k2")
	m.Elem().Field(1).SetString("kw")
	m.Elem().Field(2).Set(reflect.ValueOf([]string{"a", "b"}))
	st, err = sdk.CatalogSave(ctx, sw, m.Interface())
	fmt.Println("save:", st, err)
	rd = reflect.New(t3)
	err = sdk.CatalogRead(ctx, sw, "k2", rd.Interface())
	fmt.Printf("read: %v %+v\n", err, rd.Elem().Interface())
	r.Stop()
}
