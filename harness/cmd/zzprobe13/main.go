package main

import (
	"fmt"
	"math"
	"encoding/binary"

	mp "github.com/hydraide/hydraide/app/core/hydra/swamp/treasure/msgpackpatch"
)

func f64(v float64) []byte { b := make([]byte, 9); b[0] = 0xcb; binary.BigEndian.PutUint64(b[1:], math.Float64bits(v)); return b }

func show(name string, body []byte, ops []mp.Op, c *mp.Condition) {
	out, err := mp.ApplyWithCondition(body, ops, c)
	fmt.Printf("%-40s out=%x err=%v\n", name, out, err)
}

func main() {
	// {x: NaN}
	body := append([]byte{0x81, 0xa1, 'x'}, f64(math.NaN())...)
	show("NaN EQUAL 1.5", body, nil, &mp.Condition{Path: "x", Op: mp.CondEqual, Threshold: f64(1.5)})
	show("NaN NOT_EQUAL 1.5", body, nil, &mp.Condition{Path: "x", Op: mp.CondNotEqual, Threshold: f64(1.5)})
	show("NaN GTE 1.5", body, nil, &mp.Condition{Path: "x", Op: mp.CondGreaterThanOrEqual, Threshold: f64(1.5)})
	// malformed set
	b2 := []byte{0x82, 0xa1, 'a', 0x01, 0xa1, 'b', 0x02}
	show("SET a=d1 00 (truncated int16)", b2, []mp.Op{{Kind: mp.OpSet, Path: "a", Value: []byte{0xd1, 0x00}}}, nil)
	show("SET a=01 02 (two values)", b2, []mp.Op{{Kind: mp.OpSet, Path: "a", Value: []byte{0x01, 0x02}}}, nil)
	show("SET a=c1", b2, []mp.Op{{Kind: mp.OpSet, Path: "a", Value: []byte{0xc1}}}, nil)
	show("SET a=92 01 (short array)", b2, []mp.Op{{Kind: mp.OpSet, Path: "a", Value: []byte{0x92, 0x01}}}, nil)
	show("APPEND t[]=d1 00", b2, []mp.Op{{Kind: mp.OpAppend, Path: "t[]", Value: []byte{0xd1, 0x00}}}, nil)
	show("INC n (missing) delta 01 ff", b2, []mp.Op{{Kind: mp.OpInc, Path: "n", Value: []byte{0x01, 0xff}}}, nil)
	show("MERGE m {x:1} + trailing", b2, []mp.Op{{Kind: mp.OpMerge, Path: "m", Value: []byte{0x81, 0xa1, 'x', 0x01, 0xff}}}, nil)
	// INC wrap
	b3 := []byte{0x81, 0xa1, 'n', 0xd0, 0x7f}
	show("INC int8 127 + int8 1", b3, []mp.Op{{Kind: mp.OpInc, Path: "n", Value: []byte{0xd0, 0x01}}}, nil)
	b4 := []byte{0x81, 0xa1, 'n', 0xcc, 0xff}
	show("INC uint8 255 + fix 1", b4, []mp.Op{{Kind: mp.OpInc, Path: "n", Value: []byte{0x01}}}, nil)
	b5 := []byte{0x81, 0xa1, 'n', 0x05}
	show("INC fix 5 + fix 1", b5, []mp.Op{{Kind: mp.OpInc, Path: "n", Value: []byte{0x01}}}, nil)
	show("INC fix 5 + int8 1", b5, []mp.Op{{Kind: mp.OpInc, Path: "n", Value: []byte{0xd0, 0x01}}}, nil)
	// set container then navigate
	show("SET a={x:1}; SET a.y=2", b2, []mp.Op{{Kind: mp.OpSet, Path: "a", Value: []byte{0x81, 0xa1, 'x', 0x01}}, {Kind: mp.OpSet, Path: "a.y", Value: []byte{0x02}}}, nil)
	b6 := []byte{0x81, 0xa1, 't', 0x92, 0x91, 0x01, 0x02}
	show("REMOVE_VAL t [1] from [[1],2]", b6, []mp.Op{{Kind: mp.OpRemoveVal, Path: "t", Value: []byte{0x91, 0x01}}}, nil)
	show("DELETE t[]", b6, []mp.Op{{Kind: mp.OpDelete, Path: "t[]"}}, nil)
	show("DELETE t[5]", b6, []mp.Op{{Kind: mp.OpDelete, Path: "t[5]"}}, nil)
	show("REMOVE_VAL t[]", b6, []mp.Op{{Kind: mp.OpRemoveVal, Path: "t[]", Value: []byte{0x02}}}, nil)
	show("SET t[1]=7", b6, []mp.Op{{Kind: mp.OpSet, Path: "t[1]", Value: []byte{0x07}}}, nil)
	show("SET t[-1]=7", b6, []mp.Op{{Kind: mp.OpSet, Path: "t[-1]", Value: []byte{0x07}}}, nil)
	show("no ops", b6, nil, nil)
	// non-canonical header map16
	b7 := []byte{0x81, 0xa1, 'm', 0xde, 0x00, 0x01, 0xd9, 0x01, 'k', 0xd1, 0x00, 0x05}
	show("no ops noncanonical", b7, nil, nil)
}
