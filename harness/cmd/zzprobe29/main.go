package main

import (
	"fmt"
	"io"
	"os"
	"time"
)

func main() {
	f, _ := os.Open("/verif/BUILDING.md")
	defer f.Close()
	for _, n := range []uint32{1 << 28, 1 << 30, 0x7FFFFFFF, 0xFFFFFFFF} {
		t0 := time.Now()
		b := make([]byte, n)
		t1 := time.Now()
		f.Seek(0, 0)
		_, err := io.ReadFull(f, b)
		t2 := time.Now()
		fmt.Println(n, "make", t1.Sub(t0), "readfull", t2.Sub(t1), err)
		b = nil
	}
}
