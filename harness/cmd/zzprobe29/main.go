package main

import (
	"bytes"
	"fmt"

	"github.com/hydraide/hydraide/app/core/compressor"
)

func main() {
	for _, in := range [][]byte{{7, 9}, []byte("hello hydraide"), bytes.Repeat([]byte("abcdefgh"), 500)} {
		c := compressor.New(compressor.LZ4)
		comp, _ := c.Compress(in)
		fmt.Printf("input %d bytes, compressed %d: % x\n", len(in), len(comp), comp[:min(len(comp), 32)])
		for p := 0; p < len(comp); p++ {
			for b := 0; b < 8; b++ {
				d := append([]byte{}, comp...)
				d[p] ^= 1 << b
				out, err := c.Decompress(d)
				if err == nil && !bytes.Equal(out, in) {
					fmt.Printf("  flip byte %d bit %d -> %d bytes, prefix=%v % x\n", p, b, len(out), len(out) <= len(in) && bytes.Equal(out, in[:len(out)]), out[:min(len(out), 8)])
				}
			}
		}
		for p := 0; p < len(comp); p++ {
			out, err := c.Decompress(comp[:p])
			if err == nil {
				fmt.Printf("  truncate to %d -> %d bytes same=%v\n", p, len(out), bytes.Equal(out, in))
			}
		}
	}
}
