package main

import (
	"fmt"
	"os"
	"path/filepath"
	"strings"

	v2 "github.com/hydraide/hydraide/app/core/hydra/swamp/chronicler/v2"
)

func main() {
	dir, _ := os.MkdirTemp(os.Getenv("VERIF_WORK"), "p29")
	defer os.RemoveAll(dir)
	for _, n := range []int{100, 65535, 65536, 65600, 70000, 131072 + 5} {
		name := "s/r/" + strings.Repeat("n", n-4)
		p := filepath.Join(dir, fmt.Sprintf("f%d.hyd", n))
		w, err := v2.NewFileWriterWithName(p, 4096, name)
		if err != nil {
			fmt.Println(n, "create err", err)
			continue
		}
		w.WriteEntry(v2.Entry{Operation: v2.OpInsert, Key: "k", Data: []byte("v")})
		err = w.Close()
		got, rerr := v2.ReadSwampName(p)
		fr, e2 := v2.NewFileReader(p)
		var lerr error
		var idxn int
		if e2 == nil {
			idx, _, e3 := fr.LoadIndex()
			lerr = e3
			idxn = len(idx)
			fr.Close()
		}
		fmt.Println(n, "close", err, "readname len", len(got), got == name, rerr, "open", e2, "load", lerr, idxn)
	}
}
