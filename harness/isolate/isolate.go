// Package isolate runs a list of cases in child processes so that a fatal runtime error, an
// out-of-memory kill, or a hang of the code under test is an observation ("died" / "hung" for the
// case that was being evaluated) instead of the end of the driver.
//
// The driver binary calls Parent in its normal mode and Worker when started with the worker
// arguments Parent passes on. Cases are identified by their index in a list both sides compute
// identically; they are distributed over `stripes` concurrent children (index % stripes).
package isolate

import (
	"bufio"
	"encoding/json"
	"fmt"
	"os"
	"os/exec"
	"strconv"
	"sync"
	"time"
)

// ExitAfterCase may be set by eval: the worker then ends (cleanly) once the current case has been recorded and
// the parent starts a fresh child for the rest (used after an allocation that would poison the heap for later cases).
var ExitAfterCase bool

// Worker evaluates cases from..n-1 of its stripe and appends one JSON line per case to progress.
func Worker(from, stripe, stripes, n int, progress string, eval func(i int) any) {
	f, err := os.OpenFile(progress, os.O_APPEND|os.O_CREATE|os.O_WRONLY, 0o644)
	if err != nil {
		panic(err)
	}
	w := bufio.NewWriter(f)
	for i := from; i < n; i++ {
		if i%stripes != stripe {
			continue
		}
		fmt.Fprintf(w, "{\"begin\":%d}\n", i)
		w.Flush() // the parent must know which case killed us
		if os.Getenv("VERIF_ISOLATE_DIE_AT") == strconv.Itoa(i) {
			os.Exit(7) // self-test of the death handling
		}
		b, err := json.Marshal(map[string]any{"i": i, "r": eval(i)})
		if err != nil {
			panic(err)
		}
		w.Write(b)
		w.WriteByte('\n')
		if ExitAfterCase {
			break
		}
	}
	w.Flush()
	f.Close()
}

// Result of one case: the worker's JSON value, or Died/Hung set.
type Result struct {
	Raw  json.RawMessage
	Died bool
	Hung bool
}

// Parent runs n cases in `stripes` children started as `self worker <from> <progress> <stripe> <stripes> extra...`.
func Parent(self string, n, stripes int, progressBase string, extra []string, idle time.Duration) ([]Result, int) {
	res := make([]Result, n)
	var mu sync.Mutex
	deaths := 0
	var wg sync.WaitGroup
	for st := 0; st < stripes; st++ {
		wg.Add(1)
		go func(st int) {
			defer wg.Done()
			progress := fmt.Sprintf("%s-%d", progressBase, st)
			os.Remove(progress)
			done := st
			for done < n {
				args := append([]string{"worker", strconv.Itoa(done), progress, strconv.Itoa(st), strconv.Itoa(stripes)}, extra...)
				cmd := exec.Command(self, args...)
				cmd.Env = os.Environ()
				cmd.Stderr = nil
				if err := cmd.Start(); err != nil {
					panic(err)
				}
				waitCh := make(chan error, 1)
				go func() { waitCh <- cmd.Wait() }()
				hung := false
				last := int64(-1)
				var quiet time.Duration
			wait:
				for {
					select {
					case <-waitCh:
						break wait
					case <-time.After(2 * time.Second):
						sz := int64(0)
						if fi, err := os.Stat(progress); err == nil {
							sz = fi.Size()
						}
						if sz == last {
							quiet += 2 * time.Second
						} else {
							quiet = 0
						}
						last = sz
						if quiet >= idle {
							hung = true
							cmd.Process.Kill()
							<-waitCh
							break wait
						}
					}
				}
				begun := -1
				if f, err := os.Open(progress); err == nil {
					sc := bufio.NewScanner(f)
					sc.Buffer(make([]byte, 1<<22), 1<<22)
					for sc.Scan() {
						var m struct {
							Begin *int            `json:"begin"`
							I     *int            `json:"i"`
							R     json.RawMessage `json:"r"`
						}
						if json.Unmarshal(sc.Bytes(), &m) != nil {
							continue
						}
						if m.Begin != nil {
							begun = *m.Begin
							continue
						}
						if m.I != nil {
							mu.Lock()
							res[*m.I] = Result{Raw: append(json.RawMessage{}, m.R...)}
							mu.Unlock()
							if *m.I+stripes > done {
								done = *m.I + stripes
							}
						}
					}
					f.Close()
				}
				os.Remove(progress)
				if done < n && begun >= 0 && begun < done && !hung {
					continue // the child ended on its own after a completed case: just start the next one
				}
				if done < n {
					mu.Lock()
					deaths++
					tooMany := deaths > 500
					mu.Unlock()
					if tooMany {
						fmt.Fprintln(os.Stderr, "isolate: too many worker deaths")
						os.Exit(4)
					}
					if begun == done || begun == -1 {
						mu.Lock()
						res[done] = Result{Died: !hung, Hung: hung}
						mu.Unlock()
						done += stripes
					}
				}
			}
		}(st)
	}
	wg.Wait()
	return res, deaths
}
