// Package rig wires a real Settings + Zeus + Hydra + Gateway in-process, the way app/server does,
// and optionally serves it over a real gRPC server (bufconn) so that requests reach the handlers
// in wire form and the Go SDK can be driven against it.
//
// One rig per process: the settings package keeps its data/settings paths in package-level
// variables initialised from HYDRAIDE_ROOT_PATH, so New must be called before anything else
// touches settings, and only once.
package rig

import (
	"context"
	"fmt"
	"net"
	"os"
	"path/filepath"
	"sync"

	"github.com/hydraide/hydraide/app/core/filesystem"
	"github.com/hydraide/hydraide/app/core/settings"
	"github.com/hydraide/hydraide/app/core/zeus"
	"github.com/hydraide/hydraide/app/name"
	"github.com/hydraide/hydraide/app/server/gateway"
	sdkclient "github.com/hydraide/hydraide/sdk/go/hydraidego/v3/client"
	hydrapb "github.com/hydraide/hydraide/sdk/go/hydraidego/v3/hydraidepbgo"
	sdkname "github.com/hydraide/hydraide/sdk/go/hydraidego/v3/name"
	"google.golang.org/grpc"
	"google.golang.org/grpc/credentials/insecure"
	"google.golang.org/grpc/test/bufconn"
	"google.golang.org/protobuf/proto"
)

type Options struct {
	Root             string // directory that becomes HYDRAIDE_ROOT_PATH (created); default: $VERIF_WORK/root-<pid>
	MaxDepth         int    // folder depth (default 2)
	MaxFoldersPerLvl int    // folders per level (default 100)
	CloseAfterIdle   int64  // gateway default, seconds (default 1)
	WriteInterval    int64  // gateway default, seconds (default 1)
	FileSize         int64  // gateway default (default 8192)
}

type Rig struct {
	Root     string
	Settings settings.Settings
	Zeus     zeus.Zeus
	GW       *gateway.Gateway
	IslandID uint64

	mu      sync.Mutex
	srv     *grpc.Server
	lis     *bufconn.Listener
	conn    *grpc.ClientConn
	stopped bool
}

var once sync.Once
var made bool

// New builds the rig. It panics if called twice in one process.
func New(o Options) *Rig {
	if made {
		panic("rig.New called twice in one process (settings paths are process-global)")
	}
	made = true
	if o.Root == "" {
		base := os.Getenv("VERIF_WORK")
		if base == "" {
			base = os.TempDir()
		}
		o.Root = filepath.Join(base, fmt.Sprintf("root-%d", os.Getpid()))
	}
	if o.MaxDepth == 0 {
		o.MaxDepth = 2
	}
	if o.MaxFoldersPerLvl == 0 {
		o.MaxFoldersPerLvl = 100
	}
	if o.CloseAfterIdle == 0 {
		o.CloseAfterIdle = 1
	}
	if o.WriteInterval == 0 {
		o.WriteInterval = 1
	}
	if o.FileSize == 0 {
		o.FileSize = 8192
	}
	if err := os.MkdirAll(o.Root, 0o755); err != nil {
		panic(err)
	}
	os.Setenv("HYDRAIDE_ROOT_PATH", o.Root)
	st := settings.New(o.MaxDepth, o.MaxFoldersPerLvl)
	fs := filesystem.New()
	z := zeus.New(st, fs)
	z.StartHydra()
	gw := &gateway.Gateway{
		SettingsInterface:     st,
		ZeusInterface:         z,
		DefaultCloseAfterIdle: o.CloseAfterIdle,
		DefaultWriteInterval:  o.WriteInterval,
		DefaultFileSize:       o.FileSize,
	}
	return &Rig{Root: o.Root, Settings: st, Zeus: z, GW: gw, IslandID: 1}
}

// Register registers a swamp pattern. writeIntervalSec 0 = immediate write mode; inMemory swamps
// ignore the filesystem settings.
func (r *Rig) Register(sanctuary, realm, swamp string, inMemory bool, closeAfterIdleSec int64, writeIntervalSec int64) {
	var fss *settings.FileSystemSettings
	if !inMemory {
		fss = &settings.FileSystemSettings{WriteIntervalSec: writeIntervalSec, MaxFileSizeByte: 8192}
	}
	r.Settings.RegisterPattern(name.New().Sanctuary(sanctuary).Realm(realm).Swamp(swamp), inMemory, closeAfterIdleSec, fss)
}

// SwampName returns the canonical swamp name string used in requests.
func SwampName(sanctuary, realm, swamp string) string {
	return name.New().Sanctuary(sanctuary).Realm(realm).Swamp(swamp).Get()
}

// Stop stops Hydra gracefully (all swamps are closed and written).
func (r *Rig) Stop() {
	r.mu.Lock()
	defer r.mu.Unlock()
	if r.stopped {
		return
	}
	r.stopped = true
	if r.conn != nil {
		r.conn.Close()
	}
	if r.srv != nil {
		r.srv.Stop()
	}
	r.Zeus.StopHydra()
}

// GRPC starts (once) a real gRPC server for the gateway on an in-memory listener and returns a
// client connected to it. Requests sent through this client reach the handlers in wire form.
func (r *Rig) GRPC() hydrapb.HydraideServiceClient {
	r.mu.Lock()
	defer r.mu.Unlock()
	if r.conn == nil {
		r.lis = bufconn.Listen(4 << 20)
		r.srv = grpc.NewServer(grpc.MaxRecvMsgSize(1<<30), grpc.MaxSendMsgSize(1<<30))
		hydrapb.RegisterHydraideServiceServer(r.srv, r.GW)
		go r.srv.Serve(r.lis)
		conn, err := grpc.NewClient("passthrough:///bufnet",
			grpc.WithContextDialer(func(ctx context.Context, _ string) (net.Conn, error) { return r.lis.DialContext(ctx) }),
			grpc.WithTransportCredentials(insecure.NewCredentials()),
			grpc.WithDefaultCallOptions(grpc.MaxCallRecvMsgSize(1<<30), grpc.MaxCallSendMsgSize(1<<30)))
		if err != nil {
			panic(err)
		}
		r.conn = conn
	}
	return hydrapb.NewHydraideServiceClient(r.conn)
}

// Conn returns the client connection of GRPC() (started on first use), for drivers that invoke
// methods generically (conn.Invoke / conn.NewStream with messages built by reflection).
func (r *Rig) Conn() *grpc.ClientConn {
	r.GRPC()
	r.mu.Lock()
	defer r.mu.Unlock()
	return r.conn
}

// Wire returns m after a protobuf marshal/unmarshal round trip: the form in which a handler would
// receive it from the network (empty repeated fields become nil, etc.).
func Wire[T proto.Message](m T) T {
	b, err := proto.Marshal(m)
	if err != nil {
		panic(err)
	}
	out := m.ProtoReflect().New().Interface().(T)
	if err := proto.Unmarshal(b, out); err != nil {
		panic(err)
	}
	return out
}

// SDKClient returns an implementation of the SDK's client.Client that routes every swamp to this
// rig's in-process gRPC server (one island).
func (r *Rig) SDKClient() sdkclient.Client { return &sdkClient{c: r.GRPC()} }

type sdkClient struct{ c hydrapb.HydraideServiceClient }

func (s *sdkClient) Connect(bool) error { return nil }
func (s *sdkClient) CloseConnection()   {}
func (s *sdkClient) GetServiceClient(sdkname.Name) hydrapb.HydraideServiceClient {
	return s.c
}
func (s *sdkClient) GetServiceClientAndHost(sdkname.Name) *sdkclient.ServiceClient {
	return &sdkclient.ServiceClient{GrpcClient: s.c, Host: "bufnet"}
}
func (s *sdkClient) GetUniqueServiceClients() []hydrapb.HydraideServiceClient {
	return []hydrapb.HydraideServiceClient{s.c}
}
func (s *sdkClient) GetAllIslands() uint64 { return 1 }
