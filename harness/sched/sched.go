// Package sched gives the replay drivers what they need to step a TLC behaviour through real
// goroutines without sleeping: goroutine ids, and the wait state of a goroutine read from a
// goroutine dump (so "this process is parked in cond.Wait / chan receive" is an observation).
package sched

import (
	"bytes"
	"regexp"
	"runtime"
	"strconv"
	"sync/atomic"
	"time"
)

// GoID returns the id of the calling goroutine.
func GoID() int64 {
	var buf [64]byte
	n := runtime.Stack(buf[:], false)
	// "goroutine 123 [running]:"
	b := buf[:n]
	b = b[len("goroutine "):]
	i := bytes.IndexByte(b, ' ')
	id, _ := strconv.ParseInt(string(b[:i]), 10, 64)
	return id
}

var hdr = regexp.MustCompile(`(?m)^goroutine (\d+) \[([^\],]+)(?:, [^\]]*)?\]:$`)

// States returns the wait state ("running", "runnable", "sync.Cond.Wait", "chan receive", "select",
// "sync.Mutex.Lock", "semacquire", "sleep", ...) of every goroutine.
func States() map[int64]string {
	buf := make([]byte, 1<<20)
	for {
		n := runtime.Stack(buf, true)
		if n < len(buf) {
			buf = buf[:n]
			break
		}
		buf = make([]byte, 2*len(buf))
	}
	out := map[int64]string{}
	for _, m := range hdr.FindAllSubmatch(buf, -1) {
		id, _ := strconv.ParseInt(string(m[1]), 10, 64)
		out[id] = string(m[2])
	}
	return out
}

// State returns the wait state of one goroutine ("" if it no longer exists).
func State(goid int64) string { return States()[goid] }

// Blocked reports whether the wait state s is one of the given reasons.
func isOneOf(s string, reasons []string) bool {
	for _, r := range reasons {
		if s == r {
			return true
		}
	}
	return false
}

// DefaultBlocked are the wait reasons that mean "parked until someone else acts". "semacquire" is
// deliberately NOT listed: a goroutine about to start a GC cycle shows it while the goroutine dump
// itself holds the world semaphore, so it can be observed twice without the goroutine being blocked.
var DefaultBlocked = []string{"sync.Cond.Wait", "chan receive", "chan send", "select", "sync.Mutex.Lock",
	"sync.RWMutex.Lock", "sync.RWMutex.RLock", "sync.WaitGroup.Wait", "select (no cases)",
	"chan receive (nil chan)"}

// WaitDoneOrParked polls until done is set (returns "done"), the goroutine is parked for one of the
// reasons (returns the reason), or the timeout passes (returns "timeout"). A goroutine must be seen
// parked in two consecutive dumps, with done still unset, to count as parked.
func WaitDoneOrParked(goid int64, done *atomic.Bool, reasons []string, timeout time.Duration) string {
	if reasons == nil {
		reasons = DefaultBlocked
	}
	deadline := time.Now().Add(timeout)
	seen := 0
	for {
		if done.Load() {
			return "done"
		}
		s := State(goid)
		if isOneOf(s, reasons) {
			seen++
			if seen >= 2 && !done.Load() {
				return s
			}
		} else {
			seen = 0
		}
		if time.Now().After(deadline) {
			return "timeout"
		}
		runtime.Gosched()
		time.Sleep(20 * time.Microsecond)
	}
}
