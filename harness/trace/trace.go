// Package trace writes ndjson traces for TLC trace validation. One line per spec action; the
// caller is responsible for calling Emit at the linearization point (under the lock that protects
// the state change), so the order of lines is the order of the state changes.
package trace

import (
	"bufio"
	"encoding/json"
	"os"
	"sync"
)

type Writer struct {
	mu  sync.Mutex
	f   *os.File
	w   *bufio.Writer
	n   int
	err error
}

func Create(path string) (*Writer, error) {
	f, err := os.Create(path)
	if err != nil {
		return nil, err
	}
	return &Writer{f: f, w: bufio.NewWriterSize(f, 1<<20)}, nil
}

// Emit writes one event. Safe for concurrent use; returns the sequence number of the line.
func (t *Writer) Emit(ev map[string]any) int {
	t.mu.Lock()
	defer t.mu.Unlock()
	t.n++
	b, err := json.Marshal(ev)
	if err != nil {
		t.err = err
		return t.n
	}
	t.w.Write(b)
	t.w.WriteByte('\n')
	return t.n
}

// Flush writes the buffered lines to the file (so that they survive the death of the process).
func (t *Writer) Flush() error {
	t.mu.Lock()
	defer t.mu.Unlock()
	return t.w.Flush()
}

func (t *Writer) Len() int { t.mu.Lock(); defer t.mu.Unlock(); return t.n }

func (t *Writer) Close() error {
	t.mu.Lock()
	defer t.mu.Unlock()
	if err := t.w.Flush(); err != nil {
		return err
	}
	if t.err != nil {
		return t.err
	}
	return t.f.Close()
}

// KV turns the variadic key/value list of a verifhook.Trace call into a map.
func KV(kv []any) map[string]any {
	m := make(map[string]any, len(kv)/2)
	for i := 0; i+1 < len(kv); i += 2 {
		if k, ok := kv[i].(string); ok {
			m[k] = kv[i+1]
		}
	}
	return m
}
