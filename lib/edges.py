"""Turn the transition list exported by a TLC run (one JSON object {from, act, to} per line, printed by an
ACTION_CONSTRAINT) into replayable tests: one shortest path from the initial state per edge of the
reachable state graph, so every transition of the specification is exercised on the real code at
least once ("one implementation test per model transition")."""
import json
from collections import deque


def key(state):
    return json.dumps(state, sort_keys=True)


def build_tests(lines, init=None, max_tests=None, rng=None):
    edges = []
    seen = set()
    for ln in lines:
        e = json.loads(ln) if isinstance(ln, str) else ln
        k = (key(e["from"]), key(e["act"]), key(e["to"]))
        if k in seen:
            continue
        seen.add(k)
        edges.append((k[0], e["act"], k[2], e["to"]))
    if not edges:
        return [], 0, 0
    out = {}
    for f, a, t, to in edges:
        out.setdefault(f, []).append((a, t, to))
    targets = set(t for _, _, t, _ in edges)
    if init is None:
        roots = [f for f in out if f not in targets]
        init_k = roots[0] if roots else edges[0][0]
    else:
        init_k = key(init)
    # BFS tree
    parent = {init_k: None}
    dq = deque([init_k])
    while dq:
        s = dq.popleft()
        for a, t, to in out.get(s, []):
            if t not in parent:
                parent[t] = (s, a, to)
                dq.append(t)

    def path_to(s):
        p = []
        while parent.get(s) is not None:
            ps, a, to = parent[s]
            p.append(dict(act=a, to=to))
            s = ps
        p.reverse()
        return p
    tests = []
    for f, a, t, to in edges:
        if f not in parent:
            continue
        tests.append(path_to(f) + [dict(act=a, to=to)])
    nstates = len(parent)
    if max_tests is not None and len(tests) > max_tests and rng is not None:
        tests = rng.sample(tests, max_tests)
    return tests, len(edges), nstates
