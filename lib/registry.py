"""Single source of truth for MANIFEST.json: one entry per claimed property. `bin/mkmanifest` writes the
manifest from this table; properties without an entry are listed under not_applicable with NOT_YET/NA."""

CHECKS = {
 "C15": dict(
   engine="guard",
   category="model_checking",
   text="TLC checks spec/Guard.tla exhaustively (3 callers, all interleavings of acquire/try/release/duplicate/stale release) for exclusivity, holder-is-head and FIFO; the real guard is bound to it by replaying one path per transition of the spec's state graph with the projected state compared after every step, and by validating recorded traces of concurrent use (hooks under the guard mutex) against the spec with every invariant evaluated at every line.",
   design_ref="DESIGN.md section 8 C15",
   note="Trusted: TLC, the goroutine wait-state reading used to observe a parked waiter, the hook placement under the guard mutex. The live holder's own id passed by a third party is not modelled (the id is the API's only capability).",
   technique="TLA+ spec + TLC exhaustive + state-graph edge replay on real code + TLC trace validation"),
}

# property -> reason, for properties that are genuinely outside the technique
NA = {}

ENGINES = [
 dict(name="guard", path="harness/cmd/guard", serves_properties=["C15"], kind_free_text="gate/wait-state replay driver + trace recorder for spec/Guard.tla"),
]

HOOK_COMMITS = []
