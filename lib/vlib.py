"""Runner library shared by every check in /verif/checks.

A check is a python module checks/cNN.py with a function run(ctx). It uses the helpers here to
  * build Go drivers from /verif/harness against /repo's current working tree (-tags verif),
  * run TLC (exhaustive, simulation, trace validation, case generation),
  * classify every disagreement as KNOWN-FINDING (listed in known_findings.json) or VIOLATION,
  * write evidence/<ID>.json from measured numbers.

Exit codes: 0 held (possibly with KNOWN-FINDING lines), 1 VIOLATION, 2 inconclusive (never a violation).
"""
import json, os, re, shutil, subprocess, sys, time, hashlib

VERIF = os.path.dirname(os.path.dirname(os.path.abspath(__file__)))
REPO = os.environ.get("VERIF_REPO", "/repo")
SPEC = os.path.join(VERIF, "spec")
HARNESS = os.path.join(VERIF, "harness")
TLA_CP = "/opt/veriftools/tla/tla2tools.jar:/opt/veriftools/tla/CommunityModules-deps.jar"


class Inconclusive(Exception):
    pass


def log(*a):
    print(*a, flush=True)


class TLCResult:
    def __init__(self):
        self.rc = None
        self.out = ""
        self.generated = 0
        self.distinct = 0
        self.ok = False            # completed with no error
        self.violated = None       # name of violated invariant / property
        self.error = None          # other error text
        self.wall = 0.0
        self.printed = []          # lines printed by PrintT that look like JSON (start with { or [)
        self.coverage_zero = []

    def summary(self):
        return dict(ok=self.ok, violated=self.violated, error=self.error, generated=self.generated,
                    distinct=self.distinct, wall_s=round(self.wall, 2))


class Ctx:
    def __init__(self, pid, tier, seed, replay=None):
        self.pid = pid
        self.tier = tier
        self.seed = seed
        self.replay = replay
        self.t0 = time.time()
        # one scratch dir per run (concurrent runs of the same check must not wipe each other);
        # removed at exit unless VERIF_KEEP=1
        self.work = os.path.join(VERIF, ".work", "%s-%s-%d" % (pid, tier, os.getpid()))
        shutil.rmtree(self.work, ignore_errors=True)
        os.makedirs(self.work, exist_ok=True)
        self.replays = os.path.join(VERIF, ".work", "replays", pid)
        os.makedirs(self.replays, exist_ok=True)
        self.level = "model_checking"
        self.cov = dict(states=0, transitions=0, traces_validated_against_impl=0, samples=[],
                        evaluations=0, distinct_nontrivial=0, rule="", exhaustive=False)
        self.assumptions = []
        self.extra = {}
        self.violations = []     # (what, replay_path)
        self.known_seen = {}     # finding id -> what
        self.tlc_runs = []
        self.findings = load_findings()
        self._distinct = set()

    # ------------------------------------------------------------------ findings / verdicts
    def open_findings(self):
        return {f["id"]: f for f in self.findings if f.get("property") == self.pid and f.get("status") == "open"}

    def is_known(self, fid):
        return fid in self.open_findings()

    def deviation(self, fid, what, replay_obj=None):
        """A disagreement with the strict specification, reproduced on the real code, explained by deviation
        `fid` (or None if no deviation explains it). Known+open => KNOWN-FINDING, otherwise VIOLATION."""
        if fid is not None and self.is_known(fid):
            if fid not in self.known_seen:
                self.known_seen[fid] = what
            return "known"
        path = self.save_replay(replay_obj if replay_obj is not None else {"what": what}, tag=fid or "unexplained")
        self.violations.append((("%s: " % fid if fid else "") + what, path))
        return "violation"

    def save_replay(self, obj, tag="v"):
        n = len(os.listdir(self.replays))
        path = os.path.join(self.replays, "%s-%s-%d-%d.json" % (self.pid, re.sub(r"[^A-Za-z0-9_]+", "_", tag)[:40], self.seed, n))
        with open(path, "w") as f:
            json.dump(dict(property=self.pid, seed=self.seed, tier=self.tier, tag=tag, replay=obj), f, indent=1, default=str)
        return path

    # ------------------------------------------------------------------ coverage accounting
    def sample(self, obj, limit=6):
        if len(self.cov["samples"]) < limit:
            self.cov["samples"].append(obj)

    def count_case(self, key, nontrivial=True):
        self.cov["evaluations"] += 1
        if nontrivial:
            h = hashlib.sha1(json.dumps(key, sort_keys=True, default=str).encode()).digest()[:10]
            self._distinct.add(h)

    def add_tlc(self, name, r, count_states=True):
        self.tlc_runs.append(dict(name=name, **r.summary()))
        if count_states:
            self.cov["states"] += r.distinct
            self.cov["transitions"] += r.generated

    # ------------------------------------------------------------------ go
    def go_env(self):
        env = dict(os.environ)
        env["GOFLAGS"] = "-mod=mod"
        env["GOPROXY"] = "off"
        env.pop("GOSUMDB", None)
        env.pop("GOTOOLCHAIN", None)
        env.setdefault("GOCACHE", os.path.join(VERIF, ".work", "gocache"))
        return env

    def go_build(self, cmd, race=False, tags="verif"):
        """Build harness/cmd/<cmd> against /repo's current tree. Returns the binary path."""
        ensure_gosum()
        out = os.path.join(VERIF, ".work", "bin", cmd + ("-race" if race else ""))
        os.makedirs(os.path.dirname(out), exist_ok=True)
        args = ["go", "build", "-tags", tags, "-o", out]
        if race:
            args.append("-race")
        if os.path.abspath(REPO) != "/repo":
            # alternative repository tree (mutation testing in a scratch copy): same module, other replace path
            md = os.path.join(VERIF, ".work", "gomod")
            os.makedirs(md, exist_ok=True)
            tagp = hashlib.sha1(os.path.abspath(REPO).encode()).hexdigest()[:10]
            mf = os.path.join(md, tagp + ".mod")
            txt = open(os.path.join(HARNESS, "go.mod")).read().replace("=> /repo", "=> " + os.path.abspath(REPO))
            open(mf, "w").write(txt)
            shutil.copy(os.path.join(HARNESS, "go.sum"), os.path.join(md, tagp + ".sum"))
            args += ["-modfile", mf]
            out = out + "-" + tagp
            args[args.index("-o") + 1] = out
        args.append("./cmd/" + cmd)
        p = subprocess.run(args, cwd=HARNESS, env=self.go_env(), capture_output=True, text=True)
        if p.returncode != 0:
            raise Inconclusive("go build %s failed:\n%s" % (cmd, (p.stdout + p.stderr)[-4000:]))
        return out

    def run(self, argv, timeout=600, env=None, stdin=None, cwd=None):
        e = dict(os.environ)
        e["VERIF_SEED"] = str(self.seed)
        e["VERIF_TIER"] = self.tier
        e["VERIF_WORK"] = self.work
        if env:
            e.update(env)
        try:
            p = subprocess.run(argv, cwd=cwd or self.work, env=e, capture_output=True, text=True, timeout=timeout, input=stdin)
        except subprocess.TimeoutExpired as ex:
            raise Inconclusive("timeout after %ss: %s" % (timeout, " ".join(argv)[:200]))
        return p

    def run_driver(self, binary, args, timeout=600, env=None, ok_codes=(0,)):
        p = self.run([binary] + list(args), timeout=timeout, env=env)
        if p.returncode not in ok_codes:
            raise Inconclusive("driver %s %s exited %d:\n%s" % (os.path.basename(binary), " ".join(args), p.returncode, (p.stdout[-1500:] + p.stderr[-3000:])))
        return p

    # ------------------------------------------------------------------ TLC
    def tlc(self, module, cfg=None, workers=None, simulate=None, depth=None, timeout=900, heap="4g", env=None,
            deadlock=True, dfs=False, coverage=False, name=None, extra=(), count_states=True, cfg_text=None,
            stack="64m"):
        """Run TLC on spec/<module>.tla with spec/<cfg>.cfg (default <module>.cfg) in a scratch copy of spec/."""
        name = name or (cfg or module)
        sd = os.path.join(self.work, "tlc-" + re.sub(r"[^A-Za-z0-9_.-]", "_", name))
        shutil.rmtree(sd, ignore_errors=True)
        shutil.copytree(SPEC, sd)
        cfgfile = (cfg or module) + ".cfg"
        if cfg_text is not None:
            cfgfile = "_gen_%s.cfg" % re.sub(r"[^A-Za-z0-9_]", "_", name)
            with open(os.path.join(sd, cfgfile), "w") as f:
                f.write(cfg_text)
        java = ["java", "-XX:+UseParallelGC", "-Xmx" + heap, "-Xss" + stack, "-Djava.io.tmpdir=" + sd]
        if dfs:
            java.append("-Dtlc2.tool.queue.IStateQueue=StateDeque")
        java += ["-cp", TLA_CP, "tlc2.TLC"]
        args = ["-metadir", os.path.join(sd, "states"), "-config", cfgfile, "-noGenerateSpecTE"]
        if workers is None:
            workers = 1 if (simulate or dfs) else min(8, os.cpu_count() or 4)
        args += ["-workers", str(workers)]
        if not deadlock:
            args.append("-deadlock")
        if simulate:
            args += ["-simulate", "num=%d" % simulate]
            args += ["-seed", str(self.seed)]
        if depth:
            args += ["-depth", str(depth)]
        if coverage:
            args += ["-coverage", "1"]
        args += list(extra)
        args.append(module + ".tla")
        e = dict(os.environ)
        e.pop("JAVA_TOOL_OPTIONS", None)
        if env:
            e.update({k: str(v) for k, v in env.items()})
        t0 = time.time()
        r = TLCResult()
        try:
            p = subprocess.run(java + args, cwd=sd, env=e, capture_output=True, text=True, timeout=timeout)
        except subprocess.TimeoutExpired:
            subprocess.run(["pkill", "-f", sd], capture_output=True)
            raise Inconclusive("TLC timeout (%ss) on %s" % (timeout, name))
        r.wall = time.time() - t0
        r.rc = p.returncode
        r.out = p.stdout + p.stderr
        with open(os.path.join(self.work, "tlc-%s.out" % re.sub(r"[^A-Za-z0-9_.-]", "_", name)), "w") as f:
            f.write(r.out)
        parse_tlc(r)
        shutil.rmtree(sd, ignore_errors=True)
        self.add_tlc(name, r, count_states)
        return r

    def tlc_expect_ok(self, *a, **kw):
        r = self.tlc(*a, **kw)
        if not r.ok:
            raise Inconclusive("TLC run %s did not complete cleanly: violated=%s error=%s\n%s" % (
                kw.get("name") or kw.get("cfg") or a[0], r.violated, r.error, r.out[-3000:]))
        return r

    def validate_trace(self, module, cfg, trace_path, dev="", timeout=600, name=None, dfs=True, heap="4g", env=None):
        """Trace validation: Trace spec reads IOEnv.TRACE_FILE; accepted iff TLC completes with the
        postcondition true. Returns (accepted: bool, TLCResult)."""
        e = {"TRACE_FILE": trace_path, "TRACE_DEV": dev}
        if env:
            e.update(env)
        r = self.tlc(module, cfg=cfg, workers=1, timeout=timeout, deadlock=False, dfs=dfs, heap=heap,
                     env=e, name=name or ("trace-" + os.path.basename(trace_path) + ("-dev" if dev else "")), count_states=False)
        if r.error and not r.violated:
            raise Inconclusive("trace validation run failed (%s): %s\n%s" % (module, r.error, r.out[-3000:]))
        return (r.ok, r)

    # ------------------------------------------------------------------ finish
    def finish(self):
        wall = time.time() - self.t0
        self.cov["distinct_nontrivial"] = max(self.cov.get("distinct_nontrivial", 0), len(self._distinct))
        cov = dict(self.cov)
        if self.level == "model_checking" and (cov["states"] < 1 or cov["transitions"] < 1 or not cov["samples"]):
            # fall back to generic keys; schema needs evaluations>=1 and distinct_nontrivial>=2
            pass
        cov["tlc_runs"] = self.tlc_runs
        cov["known_findings_seen"] = sorted(self.known_seen)
        cov.update(self.extra)
        ev = dict(property_id=self.pid, tier=self.tier, seed=self.seed, level=self.level, coverage=cov,
                  assumptions=self.assumptions, wall_s=round(wall, 2), violations=len(self.violations))
        # evidence/ describes runs against /repo itself; a run against another tree (VERIF_REPO: seeded
        # changes, proposed fixes) writes its evidence next to the scratch data instead
        evdir = os.path.join(VERIF, "evidence") if os.path.abspath(REPO) == "/repo" else os.path.join(VERIF, ".work", "evidence-other-tree")
        os.makedirs(evdir, exist_ok=True)
        with open(os.path.join(evdir, self.pid + ".json"), "w") as f:
            json.dump(ev, f, indent=1, default=str)
        for fid, what in sorted(self.known_seen.items()):
            log("KNOWN-FINDING: property=%s %s %s" % (self.pid, fid, what))
        if self.violations:
            seen = set()
            for what, path in self.violations[:4]:
                if path in seen:
                    continue
                seen.add(path)
                log("VIOLATION property=%s replay=%s" % (self.pid, path))
                log("  detail: " + what[:600])
            return 1
        log("OK property=%s tier=%s seed=%d wall=%.1fs states=%d traces=%d evaluations=%d" % (
            self.pid, self.tier, self.seed, wall, cov["states"], cov["traces_validated_against_impl"], cov["evaluations"]))
        return 0


_gosum_done = False


def ensure_gosum():
    global _gosum_done
    if _gosum_done:
        return
    src = os.path.join(REPO, "go.sum")
    dst = os.path.join(HARNESS, "go.sum")
    try:
        a = open(src).read()
        b = open(dst).read() if os.path.exists(dst) else ""
        have = set(b.splitlines())
        missing = [l for l in a.splitlines() if l not in have]
        if missing:
            with open(dst, "a") as f:
                f.write("\n".join(missing) + "\n")
    except OSError:
        pass
    _gosum_done = True


def load_findings():
    """known_findings.json (generated by bin/mkmanifest) overlaid with findings/CNN.json (its sources)."""
    import glob
    out = {}
    p = os.path.join(VERIF, "known_findings.json")
    if os.path.exists(p):
        for f in json.load(open(p)).get("findings", []):
            out[f["id"]] = f
    for q in sorted(glob.glob(os.path.join(VERIF, "findings", "C*.json"))):
        for f in json.load(open(q)).get("findings", []):
            out[f["id"]] = f
    return list(out.values())


_re_states = re.compile(r"(\d+) states generated, (\d+) distinct states found")
_re_inv = re.compile(r"Error: Invariant (\S+) is violated")
_re_prop = re.compile(r"Error: (?:Temporal properties were violated|Temporal property (\S+) was violated|Action property (\S+) is violated|Property (\S+) is violated)")


def parse_tlc(r):
    out = r.out
    for m in _re_states.finditer(out):
        r.generated, r.distinct = int(m.group(1)), int(m.group(2))
    m = _re_inv.search(out)
    if m:
        r.violated = m.group(1)
    else:
        m = _re_prop.search(out)
        if m:
            r.violated = m.group(1) or m.group(2) or m.group(3) or "TemporalProperty"
    if r.violated is None and "Error: Deadlock reached" in out:
        r.violated = "Deadlock"
    if r.violated is None and re.search(r"Error: The postcondition .* is (violated|false)|POSTCONDITION .* violated|Error: Postcondition", out, re.I):
        r.violated = "Postcondition"
    if r.violated is None and "Assumption" in out and "is false" in out:
        r.violated = "Assumption"
    done = ("Model checking completed. No error has been found." in out) or \
           ("Finished in" in out and "Error:" not in out and r.rc == 0)
    if r.violated is None and not done:
        m = re.search(r"Error: (.*)", out)
        r.error = (m.group(1) if m else "TLC exited %s without completing" % r.rc)
        # collect a few following lines for context
        if m:
            idx = out.find(m.group(0))
            r.error = out[idx:idx + 1200]
    r.ok = done and r.violated is None and r.error is None
    for line in out.splitlines():
        s = line.strip()
        if s.startswith("{") or s.startswith("["):
            r.printed.append(s)
        if s.startswith('"{') or s.startswith('"['):
            # PrintT of a string prints it quoted with escapes
            try:
                r.printed.append(json.loads(s))
            except Exception:
                pass
        if re.search(r": 0$", s) and "line" in s:
            r.coverage_zero.append(s)


def main(argv):
    import argparse, importlib
    ap = argparse.ArgumentParser()
    ap.add_argument("pid")
    ap.add_argument("--tier", default=os.environ.get("VERIF_TIER", "quick"), choices=["quick", "thorough"])
    ap.add_argument("--replay", default=None)
    ap.add_argument("--seed", type=int, default=None)
    a = ap.parse_args(argv)
    seed = a.seed if a.seed is not None else int(os.environ.get("VERIF_SEED", "1") or 1)
    pid = a.pid.upper()
    sys.path.insert(0, os.path.join(VERIF, "checks"))
    sys.path.insert(0, os.path.join(VERIF, "lib"))
    ctx = Ctx(pid, a.tier, seed, a.replay)
    try:
        mod = importlib.import_module(pid.lower())
        mod.run(ctx)
        rc = ctx.finish()
    except Inconclusive as ex:
        log("INCONCLUSIVE property=%s: %s" % (pid, ex))
        rc = 2
        if ctx.violations:
            # violations established on the real code before the run became inconclusive still stand
            rc = ctx.finish()
    except Exception as ex:
        import traceback
        traceback.print_exc()
        log("INCONCLUSIVE property=%s: internal error %r" % (pid, ex))
        rc = 2
    if os.environ.get("VERIF_KEEP") != "1":
        shutil.rmtree(ctx.work, ignore_errors=True)
    else:
        log("work dir kept: " + ctx.work)
    sys.exit(rc)
