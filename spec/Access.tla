------------------------------- MODULE Access -------------------------------
(***************************************************************************)
(* C10 - the lock discipline of a swamp: which shared locations each API   *)
(* path touches, in which steps, with which locks held.                    *)
(*                                                                         *)
(* Shared locations                                                        *)
(*   keymap   beaconKey.treasuresByKeys (the swamp's key -> treasure map)  *)
(*   idx      one ordered index beacon (its map + treasuresByOrder slice)  *)
(*   wbuf     treasuresWaitingForWriter (a beacon used as write buffer)    *)
(*   bktreg   the swamp's registry of auto-built field buckets             *)
(*   bkt      one field bucket (value -> treasures), built lazily by the   *)
(*            first filtered read on its field path                        *)
(*   the fields of ONE treasure: content, createdAt, createdBy,            *)
(*   modifiedAt, modifiedBy, expiration, deleted, key, fileName, flags,    *)
(*   alloc = the freshly allocated object itself (written by               *)
(*   treasure.New, read by whoever dereferences the pointer), and          *)
(*   body = the bytes a ByteArray content points to (written by whoever    *)
(*   built them, e.g. swamp.wrapMsgpackBody, before the setter stores the  *)
(*   slice; read by whoever looks into the slice a getter returned)        *)
(* Locks                                                                   *)
(*   bk / ib / wb   the RWMutex of the three beacons                       *)
(*   bsm / bm       swamp.bucketsMu / the bucket's RWMutex                 *)
(*   t              the treasure's RWMutex (readers: getters)              *)
(*   g              the treasure's guard (exclusive, held across steps)    *)
(*   cm             swamp.createMu                                         *)
(*   pub            not a lock: the happens-before edge of publication.    *)
(*                  treasure.New "holds it exclusively"; a path that got   *)
(*                  the treasure pointer from a LOCKED look-up holds it    *)
(*                  shared for its field accesses; a path that got the     *)
(*                  pointer from an unlocked walk over the map does not    *)
(*   cpub           like pub, for the memory a content pointer leads to:   *)
(*                  ordered with its readers only if setter and getter     *)
(*                  synchronise (i.e. not under SetterNoLock)              *)
(*   rv             strict design only: the lock that makes a record       *)
(*                  update / a record snapshot one unit (CommittedRead)    *)
(*                                                                         *)
(* A step is [fn, locs, acc, locks]: the function (code site) performing   *)
(* the access, the locations touched, "R"/"W", and the locks held while    *)
(* it runs, each <<name, mode, span>>; span = TRUE means the lock stays    *)
(* held into the next step if that step lists it too.                      *)
(* The step tables are transcribed from beacon.go, swamp.go, treasure.go,  *)
(* gateway.go.  A process is `in` a step between Enter (all the step's     *)
(* locks it does not hold yet are granted atomically, with RWMutex /       *)
(* guard semantics) and Exit.                                              *)
(*                                                                         *)
(* Dev = {} is the strict discipline (every access to a location holds     *)
(* that location's lock; updates and snapshots of a record are units).     *)
(* Named deviations = the code:                                            *)
(*   "MapEscape"     beacon.GetAll returns the internal map; Gateway.GetAll*)
(*                   walks it with no lock                                 *)
(*   "ColdBuild"     the cold index build walks / copies the same map      *)
(*                   without beaconKey's lock (treasuresForBeacon,         *)
(*                   PushManyFromMap)                                      *)
(*   "SetterNoLock"  treasure setters (SetContentXxx, SetModifiedAt, ...,  *)
(*                   BodySetForDeletion, BodySetFileName) write fields     *)
(*                   under the guard only; getters read under t.mu.RLock   *)
(*   "Fieldwise"     a record update is a series of separate field writes  *)
(*                   and a read a series of separately locked getters      *)
(*   "CloneOrder"    beacon.CloneUnorderedTreasures waits for every        *)
(*                   treasure's guard while holding the beacon's WRITE     *)
(*                   lock; a writer holds the guard and then takes the     *)
(*                   beacon lock inside Save: lock-order inversion         *)
(***************************************************************************)
EXTENDS Integers, Sequences, FiniteSets, TLC

CONSTANTS Procs,      \* model processes
          Dev,        \* subset of DevNames
          PathNames,  \* the API paths to combine (subset of AllPathNames)
          Persistent  \* TRUE: records have been flushed (BodySetForDeletion / file writer steps exist)

DevNames == {"MapEscape", "ColdBuild", "SetterNoLock", "Fieldwise", "CloneOrder"}

Fields == {"content", "createdAt", "createdBy", "modifiedAt", "modifiedBy", "expiration", "deleted", "key", "fileName", "flags"}

L(n, m) == <<n, m, FALSE>>
Sp(n, m) == <<n, m, TRUE>>
A(fn, locs, acc, locks) == [fn |-> fn, locs |-> locs, acc |-> acc, locks |-> locks]

-----------------------------------------------------------------------------
(* step tables *)

Pub(p) == IF p THEN {L("pub", "R")} ELSE {}
RvR == IF "Fieldwise" \in Dev THEN {} ELSE {Sp("rv", "R")}
RvW == IF "Fieldwise" \in Dev THEN {} ELSE {Sp("rv", "W")}
TW == IF "SetterNoLock" \in Dev THEN {} ELSE {L("t", "W")}
\* a reader that is not under the record's guard sees the bytes behind the content pointer ordered after their
\* initialisation only through the setter's / getter's lock
CPubR == IF "SetterNoLock" \in Dev THEN {} ELSE {L("cpub", "R")}

\* a getter call: t.mu.RLock around one field
G(fn, f, extra) == A(fn, {f}, "R", {L("t", "R")} \cup extra)

\* gateway.treasureToKeyValuePair: the getters called to build a response
Snapshot(pub) ==
  LET x == Pub(pub) \cup RvR IN
  << A("gateway.treasureToKeyValuePair", {"alloc"}, "R", Pub(pub)), G("treasure.GetKey", "key", x), G("treasure.GetContentType", "content", x), G("treasure.GetContentInt64", "content", x),
     G("treasure.GetContentByteArray", "content", x), G("treasure.GetContentUint32", "content", x), G("treasure.GetContentFloat64", "content", x),
     G("treasure.Uint32SliceGetAll", "content", x), G("treasure.GetCreatedAt", "createdAt", x), G("treasure.GetCreatedBy", "createdBy", x),
     G("treasure.GetModifiedAt", "modifiedAt", x), G("treasure.GetModifiedBy", "modifiedBy", x), G("treasure.GetExpirationTime", "expiration", x) >>

\* a setter call under the guard
S(fn, fs) == A(fn, fs \cup {"flags"}, "W", {Sp("g", "W"), L("pub", "R")} \cup TW \cup RvW)
\* a getter called by the guard holder itself
GG(fn, f) == A(fn, {f}, "R", {L("t", "R"), Sp("g", "W"), L("pub", "R")})
\* a getter called from a sort comparator / index scan: it runs over EVERY record of the index, under the index lock,
\* not under the guards of those records
\* (an index beacon that was cold-built from the escaped key map holds pointers that were never obtained under
\* beaconKey's lock: whoever dereferences an element of such an index has no happens-before edge to its allocation)
GC(fn, f, lk) == A(fn, {f}, "R", {L("t", "R"), Sp("ib", lk)} \cup Pub("ColdBuild" \notin Dev))
\* the same inside a writer's Save: the writer still holds the guard of ITS record while the comparators run.  (With a
\* single modelled record this makes writer x writer comparator reads look protected; the unprotected comparator reads
\* are those of the read paths, which give the same code-site pairs.)
GCW(fn, f) == A(fn, {f}, "R", {L("t", "R"), Sp("ib", "W"), Sp("g", "W")} \cup Pub("ColdBuild" \notin Dev))
\* beacon.Delete / the sort closures touch every element of the ordered slice (treasureObj.GetKey(), comparator calls)
Elem(fn) == A(fn, {"alloc"}, "R", {Sp("ib", "W"), Sp("g", "W")} \cup Pub("ColdBuild" \notin Dev))

Lookup == A("beacon.Get", {"keymap"}, "R", {L("bk", "R")})
LookupG == A("beacon.Get", {"keymap"}, "R", {L("bk", "R"), Sp("g", "W")})

\* keyValuesToTreasure for an int64 / bytes value with all metadata
SetFields == << S("treasure.SetContentInt64", {"content"}), S("treasure.SetContentByteArray", {"content"}), S("treasure.SetCreatedAt", {"createdAt"}),
                S("treasure.SetCreatedBy", {"createdBy"}), S("treasure.SetModifiedAt", {"modifiedAt"}), S("treasure.SetModifiedBy", {"modifiedBy"}),
                S("treasure.SetExpirationTime", {"expiration"}) >>

\* the index maintenance a Save does when the index is built: delete + add + re-sort (comparators read other records)
IndexUpdate ==
  << A("beacon.Delete", {"idx"}, "W", {Sp("ib", "W"), Sp("g", "W")}), Elem("beacon.Delete"), GCW("treasure.GetKey", "key"),
     A("beacon.Add", {"idx"}, "W", {Sp("ib", "W"), Sp("g", "W")}), Elem("beacon.SortBy"),
     GCW("treasure.GetKey", "key"), GCW("treasure.GetContentInt64", "content"), GCW("treasure.GetCreatedAt", "createdAt"),
     GCW("treasure.GetModifiedAt", "modifiedAt"), GCW("treasure.GetExpirationTime", "expiration"),
     A("beacon.SortBy", {"idx"}, "W", {Sp("ib", "W"), Sp("g", "W")}) >>

\* notifyBucketsInsert / notifyBucketsUpdate: every initialised field bucket re-reads the body of the saved treasure
BucketNotify(fn) ==
  << A("swamp." \o fn, {"bktreg"}, "R", {L("bsm", "R"), Sp("g", "W")}),
     A("bucket.OnUpdate", {"bkt"}, "W", {Sp("bm", "W"), Sp("g", "W")}),
     A("treasure.GetContentByteArray", {"content"}, "R", {L("t", "R"), Sp("bm", "W"), Sp("g", "W"), L("pub", "R")}),
     A("bucket.extractKey", {"body"}, "R", {Sp("bm", "W"), Sp("g", "W"), L("cpub", "R")}) >>

\* SaveFunction on a treasure that is already indexed
SaveExisting ==
  << LookupG, GG("treasure.IsContentChanged", "flags"), GG("treasure.GetContentType", "content"), GG("treasure.GetExpirationTime", "expiration") >>
  \o IndexUpdate \o << A("beacon.Add", {"wbuf"}, "W", {L("wb", "W"), Sp("g", "W")}) >> \o BucketNotify("notifyBucketsUpdate")

\* SaveFunction on a new treasure: write buffer, key map insert, every built index
SaveNew ==
  << LookupG, GG("treasure.GetKey", "key"), A("beacon.Delete", {"wbuf"}, "W", {L("wb", "W"), Sp("g", "W")}),
     A("beacon.Add", {"wbuf"}, "W", {L("wb", "W"), Sp("g", "W")}), A("beacon.Add", {"keymap"}, "W", {L("bk", "W"), Sp("g", "W")}),
     GG("treasure.GetCreatedAt", "createdAt"), GG("treasure.GetModifiedAt", "modifiedAt"), GG("treasure.GetExpirationTime", "expiration") >>
  \o IndexUpdate \o BucketNotify("notifyBucketsInsert")

\* deleteHandler
DeleteSteps ==
  << Lookup, A("treasure.Clone", Fields \ {"flags"}, "R", {Sp("g", "W"), L("pub", "R")}), GG("treasure.GetFileName", "fileName") >>
  \o (IF Persistent THEN << S("treasure.BodySetForDeletion", {"content", "deleted", "expiration"}), A("beacon.Add", {"wbuf"}, "W", {L("wb", "W"), Sp("g", "W")}) >>
                    ELSE << A("beacon.Delete", {"wbuf"}, "W", {L("wb", "W"), Sp("g", "W")}) >>)
  \o << A("beacon.Delete", {"keymap"}, "W", {L("bk", "W"), Sp("g", "W")}),
        A("beacon.Delete", {"idx"}, "W", {Sp("ib", "W"), Sp("g", "W")}), Elem("beacon.Delete"), GCW("treasure.GetKey", "key"),
        A("swamp.notifyBucketsDelete", {"bktreg"}, "R", {L("bsm", "R"), Sp("g", "W")}),
        A("bucket.OnDelete", {"bkt"}, "W", {L("bm", "W"), Sp("g", "W")}),
        A("beacon.Count", {"keymap"}, "R", {L("bk", "R")}) >>

\* reading from a built index
IndexRead(pub) ==
  << A("beacon.GetManyFromOrderPosition", {"idx"}, "R", {Sp("ib", "R")}), GC("treasure.GetCreatedAt", "createdAt", "R"),
     GC("treasure.GetModifiedAt", "modifiedAt", "R"), GC("treasure.GetExpirationTime", "expiration", "R"),
     A("gateway.GetByIndex", {"alloc"}, "R", Pub(pub)), A("gateway.GetByIndexStream", {"alloc"}, "R", Pub(pub)),
     A("gateway.GetByIndexStream", {"body"}, "R", CPubR) >> \o Snapshot(pub)

MapEsc == "MapEscape" \in Dev
Cold == "ColdBuild" \in Dev

Path(n) ==
  CASE n = "get"       -> << Lookup >> \o Snapshot(TRUE)
    [] n = "getbykeys" -> << Lookup >> \o Snapshot(TRUE)
    [] n = "count"     -> << A("beacon.Count", {"keymap"}, "R", {L("bk", "R")}) >>
    [] n = "exists"    -> << A("beacon.IsExists", {"keymap"}, "R", {L("bk", "R")}) >>
    [] n = "getall"    -> << A("beacon.Count", {"keymap"}, "R", {L("bk", "R")}), A("beacon.GetAll", {"keymap"}, "R", {L("bk", "R")}),
                             A("gateway.GetAll", {"keymap"}, "R", IF MapEsc THEN {} ELSE {Sp("bk", "R")}) >> \o Snapshot(~MapEsc)
    \* cold build of the key / value index: PushManyFromMap copies the live map of beaconKey under the INDEX beacon's lock
    [] n = "idx_cold_key" ->
           << A("beacon.GetAll", {"keymap"}, "R", {L("bk", "R")}),
              A("beacon.PushManyFromMap", {"keymap"}, "R", {Sp("ib", "W")} \cup (IF Cold THEN {} ELSE {L("bk", "R")})),
              A("beacon.PushManyFromMap", {"idx"}, "W", {Sp("ib", "W")}),
              A("beacon.SortBy", {"alloc"}, "R", {Sp("ib", "W")} \cup Pub(~Cold)),
              A("treasure.GetKey", {"key"}, "R", {L("t", "R"), Sp("ib", "W")} \cup Pub(~Cold)),
              A("treasure.GetContentInt64", {"content"}, "R", {L("t", "R"), Sp("ib", "W")} \cup Pub(~Cold)),
              A("beacon.SortBy", {"idx"}, "W", {Sp("ib", "W")}) >> \o IndexRead(~Cold)
    \* cold build of a time index: treasuresForBeacon walks the live map and filters by a getter
    [] n = "idx_cold_time" ->
           << A("beacon.GetAll", {"keymap"}, "R", {L("bk", "R")}),
              A("swamp.treasuresForBeacon", {"keymap"}, "R", IF Cold THEN {} ELSE {Sp("bk", "R")}),
              A("swamp.treasuresForBeacon", {"alloc"}, "R", Pub(~Cold)),
              A("treasure.GetCreatedAt", {"createdAt"}, "R", {L("t", "R")} \cup Pub(~Cold)),
              A("treasure.GetModifiedAt", {"modifiedAt"}, "R", {L("t", "R")} \cup Pub(~Cold)),
              A("treasure.GetExpirationTime", {"expiration"}, "R", {L("t", "R")} \cup Pub(~Cold)),
              A("beacon.PushManyFromMap", {"idx"}, "W", {Sp("ib", "W")}),
              A("beacon.SortBy", {"alloc"}, "R", {Sp("ib", "W")} \cup Pub(~Cold)),
              A("treasure.GetCreatedAt", {"createdAt"}, "R", {L("t", "R"), Sp("ib", "W")} \cup Pub(~Cold)),
              A("beacon.SortBy", {"idx"}, "W", {Sp("ib", "W")}) >> \o IndexRead(~Cold)
    [] n = "idx_warm"  -> IndexRead(~Cold)
    \* first filtered read on a body field: GetOrBuildBucket snapshots the key map with CloneUnorderedTreasures
    \* (a copy made under beaconKey's WRITE lock and every treasure's guard) and builds the bucket from the copy
    [] n = "bucket_cold" ->
           << A("swamp.GetOrBuildBucket", {"bktreg"}, "R", {L("bsm", "R")}), A("swamp.GetOrBuildBucket", {"bktreg"}, "W", {L("bsm", "W")}),
              \* the function that walks the map is also the one that takes each treasure's guard for the clone
              A("beacon.CloneUnorderedTreasures", {"keymap"}, "R", IF "CloneOrder" \in Dev THEN {Sp("bk", "W")} ELSE {L("bk", "R")}),
              A("beacon.CloneUnorderedTreasures", Fields \ {"flags"}, "R",
                (IF "CloneOrder" \in Dev THEN {Sp("bk", "W")} ELSE {}) \cup {Sp("g", "W"), L("pub", "R")}),
              A("bucket.BuildEquality", {"bkt"}, "W", {L("bm", "W")}),
              \* the operations buffered during the build carry LIVE treasures: their bodies are decoded by the builder,
              \* which holds neither their guards nor anything the writers hold
              A("bucket.DrainPending", {"bkt"}, "W", {Sp("bm", "W")}),
              A("treasure.GetContentByteArray", {"content"}, "R", {L("t", "R"), Sp("bm", "W"), L("pub", "R")}),
              A("bucket.extractKey", {"body"}, "R", {Sp("bm", "W")} \cup CPubR),
              A("bucket.LookupEqual", {"bkt"}, "R", {L("bm", "R")}) >> \o Snapshot(TRUE)
    [] n = "bucket_warm" ->
           << A("swamp.GetOrBuildBucket", {"bktreg"}, "R", {L("bsm", "R")}), A("bucket.LookupEqual", {"bkt"}, "R", {L("bm", "R")}) >> \o Snapshot(TRUE)
    [] n = "set_upd"   -> << Lookup >> \o SetFields \o SaveExisting
    [] n = "set_new"   -> << Lookup, A("treasure.New", Fields \cup {"alloc"}, "W", {L("cm", "W"), L("pub", "W")}), S("treasure.BodySetKey", {"key", "deleted"}) >>
                          \o SetFields \o SaveNew
    [] n = "inc"       -> << Lookup, GG("treasure.GetContentType", "content"), S("treasure.SetModifiedAt", {"modifiedAt"}),
                             GG("treasure.GetContentInt64", "content"), S("treasure.SetContentInt64", {"content"}) >> \o SaveExisting
                          \o << GG("treasure.GetCreatedAt", "createdAt"), GG("treasure.GetCreatedBy", "createdBy"), GG("treasure.GetModifiedAt", "modifiedAt"),
                                GG("treasure.GetModifiedBy", "modifiedBy"), GG("treasure.GetExpirationTime", "expiration") >>
    \* the other typed increments have the shape of IncrementInt64
    [] n = "inc_u32"   -> << Lookup, GG("treasure.GetContentType", "content"), GG("treasure.GetContentUint32", "content"),
                             S("treasure.SetContentUint32", {"content"}) >> \o SaveExisting
    [] n = "inc_f64"   -> << Lookup, GG("treasure.GetContentType", "content"), GG("treasure.GetContentFloat64", "content"),
                             S("treasure.SetContentFloat64", {"content"}) >> \o SaveExisting
    \* Uint32Slice writers: under the guard AND t.mu.Lock (treasure.go takes the write lock itself): protected against
    \* every getter in the code as built, too
    [] n = "u32_push"  -> << Lookup, A("treasure.Uint32SlicePush", {"content", "flags"}, "W", {Sp("g", "W"), L("t", "W"), L("pub", "R")}) >> \o SaveExisting
    [] n = "u32_del"   -> << Lookup, GG("treasure.Uint32SliceSize", "content"),
                             A("treasure.Uint32SliceDelete", {"content", "flags"}, "W", {Sp("g", "W"), L("t", "W"), L("pub", "R")}) >> \o SaveExisting
                          \o << GG("treasure.Uint32SliceSize", "content") >>
    [] n = "u32_read"  -> << Lookup, G("treasure.Uint32SliceSize", "content", {L("pub", "R")}), G("treasure.Uint32SliceGetAll", "content", {L("pub", "R")}) >>
    [] n = "patch"     -> << Lookup, GG("treasure.GetContentType", "content"), GG("treasure.GetContentByteArray", "content"),
                             A("swamp.wrapMsgpackBody", {"body"}, "W", {Sp("g", "W"), L("cpub", "W")}),
                             S("treasure.SetContentByteArray", {"content"}) >> \o SaveExisting
    [] n = "del"       -> << A("beacon.IsExists", {"keymap"}, "R", {L("bk", "R")}) >> \o DeleteSteps
    [] n = "shift"     -> << Lookup, A("treasure.Clone", Fields \ {"flags"}, "R", {Sp("g", "W"), L("pub", "R")}) >> \o DeleteSteps
    \* background flush of a persistent swamp
    [] n = "filewriter" -> << A("beacon.Count", {"wbuf"}, "R", {L("wb", "R")}), A("beacon.Iterate", {"wbuf"}, "R", {L("wb", "R")}),
                              A("beacon.Delete", {"wbuf"}, "W", {L("wb", "W")}),
                              A("treasure.ConvertToByte", Fields \ {"flags"}, "R", {Sp("g", "W"), L("pub", "R")}),
                              S("treasure.BodySetFileName", {"fileName"}) >>

AllPathNames == {"get", "getbykeys", "count", "exists", "getall", "idx_cold_key", "idx_cold_time", "idx_warm", "bucket_cold", "bucket_warm",
                 "set_upd", "set_new", "inc", "inc_u32", "inc_f64", "u32_push", "u32_del", "u32_read", "patch", "del", "shift", "filewriter"}

-----------------------------------------------------------------------------
(* the machine *)

VARIABLES path,   \* [Procs -> path name]
          pc,     \* [Procs -> index of the current step (Len+1 = finished)]
          inn,    \* [Procs -> BOOLEAN] inside the current step
          held,   \* [Procs -> set of <<lock, mode>> held]
          ver,    \* ghost: [content, modifiedBy -> version] of the record (CommittedRead)
          wr,     \* ghost: number of record updates started
          myv,    \* ghost: [Procs -> version this process is writing]
          snap    \* ghost: [Procs -> [content, modifiedBy -> version read]]

avars == <<path, pc, inn, held, ver, wr, myv, snap>>

Steps(p) == Path(path[p])
Cur(p) == Steps(p)[pc[p]]
Done(p) == pc[p] > Len(Steps(p))

LockSet(st) == {<<l[1], l[2]>> : l \in st.locks}
Spans(st) == {<<l[1], l[2]>> : l \in {x \in st.locks : x[3]}}

\* RWMutex / guard compatibility with what the OTHER processes hold
Grantable(p, lk) ==
  \A q \in Procs \ {p} : \A h \in held[q] : h[1] = lk[1] => (h[2] = "R" /\ lk[2] = "R")

AInit ==
  /\ path \in [Procs -> PathNames]
  /\ pc = [p \in Procs |-> 1]
  /\ inn = [p \in Procs |-> FALSE]
  /\ held = [p \in Procs |-> {}]
  /\ ver = [f \in {"content", "modifiedBy"} |-> 0]
  /\ wr = 0
  /\ myv = [p \in Procs |-> 0]
  /\ snap = [p \in Procs |-> [f \in {"content", "modifiedBy"} |-> -1]]

IsUpdate(st) == st.acc = "W" /\ st.fn \in {"treasure.SetContentInt64", "treasure.SetModifiedBy"}

Enter(p) ==
  /\ ~Done(p) /\ ~inn[p]
  /\ LET st == Cur(p)
         need == LockSet(st) \ held[p] IN
     /\ \A lk \in need : Grantable(p, lk)
     /\ held' = [held EXCEPT ![p] = @ \cup need]
     /\ inn' = [inn EXCEPT ![p] = TRUE]
     \* ghost effect of the access (CommittedRead): a Set writes content then modifiedBy with its own version
     /\ IF path[p] = "set_upd" /\ st.fn = "treasure.SetContentInt64"
          THEN /\ wr' = wr + 1 /\ myv' = [myv EXCEPT ![p] = wr + 1]
               /\ ver' = [ver EXCEPT !["content"] = wr + 1] /\ UNCHANGED snap
        ELSE IF path[p] = "set_upd" /\ st.fn = "treasure.SetModifiedBy"
          THEN /\ ver' = [ver EXCEPT !["modifiedBy"] = myv[p]] /\ UNCHANGED <<wr, myv, snap>>
        ELSE IF path[p] \in {"get", "getbykeys"} /\ st.fn = "treasure.GetContentInt64"
          THEN /\ snap' = [snap EXCEPT ![p]["content"] = ver["content"]] /\ UNCHANGED <<ver, wr, myv>>
        ELSE IF path[p] \in {"get", "getbykeys"} /\ st.fn = "treasure.GetModifiedBy"
          THEN /\ snap' = [snap EXCEPT ![p]["modifiedBy"] = ver["modifiedBy"]] /\ UNCHANGED <<ver, wr, myv>>
        ELSE UNCHANGED <<ver, wr, myv, snap>>
  /\ UNCHANGED <<path, pc>>

Exit(p) ==
  /\ ~Done(p) /\ inn[p]
  /\ LET st == Cur(p)
         nxt == IF pc[p] < Len(Steps(p)) THEN LockSet(Steps(p)[pc[p] + 1]) ELSE {}
         keep == Spans(st) \cap nxt IN
     /\ held' = [held EXCEPT ![p] = keep]
     /\ inn' = [inn EXCEPT ![p] = FALSE]
     /\ pc' = [pc EXCEPT ![p] = @ + 1]
  /\ UNCHANGED <<path, ver, wr, myv, snap>>

ANext == \E p \in Procs : Enter(p) \/ Exit(p)
ASpec == AInit /\ [][ANext]_avars

-----------------------------------------------------------------------------
(* Properties *)

Conflict(a, b) == (a.locs \cap b.locs) # {} /\ ("W" \in {a.acc, b.acc})

\* the pairs of processes that are inside conflicting accesses right now
RacingNow == {<<p, q>> \in Procs \X Procs : p # q /\ inn[p] /\ inn[q] /\ ~Done(p) /\ ~Done(q) /\ Conflict(Cur(p), Cur(q))}

RaceFree == RacingNow = {}

\* somebody can always move until everybody has finished: the locks are taken in a consistent order
AllDone == \A p \in Procs : Done(p)
NoDeadlock == AllDone \/ ENABLED ANext

\* a reader that has finished read a <value, updated-by> pair of ONE committed version
CommittedRead ==
  \A p \in Procs : (path[p] \in {"get", "getbykeys"} /\ Done(p)) => snap[p]["content"] = snap[p]["modifiedBy"]
=============================================================================
