-------------------------------- MODULE Cap --------------------------------
(***************************************************************************)
(* Cap-bearing operations on one swamp (property C12): every operation     *)
(* that can move a record into Cap.Filter carries the same Cap             *)
(* (Filter, MaxMatching = Max).                                            *)
(*                                                                         *)
(* Code: gateway_patch.go patchTreasuresOneSwamp / capPreCount,            *)
(* swamp_patch.go PatchFields (four-cell rule), swamp_patch_expired.go     *)
(* PatchExpired (capMu), swamp.go CloneAndDeleteMatchingTreasures (capMu), *)
(* beacon.go ShiftMatching / SelectExpiredForPatchWithCap (budget under    *)
(* the beacon lock).                                                       *)
(*                                                                         *)
(* A record is (live, m, x, e): m = it matches Cap.Filter, x = it is       *)
(* expired (selectable by patch-expired / the expired shift), e = it has   *)
(* an expiry at all (it is filed in the expiration index).                 *)
(*                                                                         *)
(* Operations (all carry the cap):                                         *)
(*   pt  PatchTreasures batch: a sequence of <<key, to>> ("in": the patch  *)
(*       makes the record match, "out": it makes it not match, "keep": it  *)
(*       does not touch the field the filter reads), with the request's    *)
(*       CreateIfNotExist (create) and whether InitialMsgpackOnCreate      *)
(*       matches the filter (seedm): an absent key is then created from    *)
(*       the seed and patched - absent -> matching consumes budget         *)
(*   pe  PatchExpiredTreasures(HowMany n): claims expired records in place *)
(*       (they match afterwards and get a lease)                           *)
(*   sh  ShiftMatchingTreasures(HowMany n) over the expired records        *)
(* Steps: Call, PreCount (as built only), Begin (take capMu, count,        *)
(* budget), Cell (one patch of a pt batch: four-cell rule), Select (pe/sh: *)
(* at most min(n, budget) records), Patched (pe: one selected record is    *)
(* patched), End (release capMu, return).                                  *)
(*                                                                         *)
(* Dev: named deviations, each an ALTERNATIVE the as-built model may take: *)
(*  "CountThenLock"  the pt batch counts the matching records BEFORE it    *)
(*                   takes capMu and computes its budget from that count   *)
(*  "CountOverIndex" pe / sh count the matching records over the walked    *)
(*                   (expiration) beacon only: a matching record without   *)
(*                   an expiry is not counted                              *)
(***************************************************************************)
EXTENDS Integers, Sequences, FiniteSets, TLC

CONSTANTS Keys, Procs, Max, Dev

VARIABLES rec,    \* [Keys -> [live, m, x, e]]
          mu,     \* holder of capMu or ""
          pc, req, pre, budget, todo, sel, out,   \* per process
          last,   \* observation of the last four-cell decision: [p, k, was, now, before, after, ok]
          used, nops

vars == <<rec, mu, pc, req, pre, budget, todo, sel, out, last, used, nops>>

Has(d) == d \in Dev
Dead == [live |-> FALSE, m |-> FALSE, x |-> FALSE, e |-> FALSE]
NoReq == [kind |-> ""]
NoLast == [p |-> "", k |-> 0, was |-> FALSE, now |-> FALSE, before |-> 0, after |-> 0, ok |-> TRUE]

Matching == {k \in Keys : rec[k].live /\ rec[k].m}
Count == Cardinality(Matching)
CountIndexed == Cardinality({k \in Matching : rec[k].e})
Eligible == {k \in Keys : rec[k].live /\ rec[k].x}
Min(a, b) == IF a < b THEN a ELSE b
EffN(q) == IF q.n <= 0 THEN 1000000 ELSE q.n

Init ==
  /\ rec = [k \in Keys |-> Dead] /\ mu = ""
  /\ pc = [p \in Procs |-> "idle"] /\ req = [p \in Procs |-> NoReq] /\ pre = [p \in Procs |-> -1]
  /\ budget = [p \in Procs |-> 0] /\ todo = [p \in Procs |-> <<>>] /\ sel = [p \in Procs |-> <<>>]
  /\ out = [p \in Procs |-> <<>>] /\ last = NoLast /\ used = {} /\ nops = 0

Call(p, q) ==
  /\ pc[p] = "idle"
  /\ req' = [req EXCEPT ![p] = q]
  /\ pc' = [pc EXCEPT ![p] = "begin"]
  /\ pre' = [pre EXCEPT ![p] = -1]
  /\ todo' = [todo EXCEPT ![p] = IF q.kind = "pt" THEN q.patches ELSE <<>>]
  /\ sel' = [sel EXCEPT ![p] = <<>>] /\ out' = [out EXCEPT ![p] = <<>>]
  /\ nops' = nops + 1
  /\ UNCHANGED <<rec, mu, budget, last, used>>

\* as built: capPreCount counts before LockCapMu
PreCount(p) ==
  /\ Has("CountThenLock") /\ pc[p] = "begin" /\ req[p].kind = "pt" /\ pre[p] = -1
  /\ pre' = [pre EXCEPT ![p] = Count]
  /\ UNCHANGED <<rec, mu, pc, req, budget, todo, sel, out, last, used, nops>>

\* the counts the operation may base its budget on
Counts(p) ==
  IF req[p].kind = "pt"
    THEN {Count} \cup (IF pre[p] # -1 THEN {pre[p]} ELSE {})
    ELSE {Count} \cup (IF Has("CountOverIndex") THEN {CountIndexed} ELSE {})

Begin(p) ==
  /\ pc[p] = "begin" /\ mu = ""
  /\ mu' = p
  /\ \E c \in Counts(p) :
       /\ budget' = [budget EXCEPT ![p] = IF Max - c < 0 THEN 0 ELSE Max - c]
       /\ pre' = [pre EXCEPT ![p] = c]
       /\ used' = IF c = Count THEN used
                  ELSE used \cup {IF req[p].kind = "pt" THEN "CountThenLock" ELSE "CountOverIndex"}
  /\ pc' = [pc EXCEPT ![p] = IF req[p].kind = "pt" THEN "cells" ELSE "select"]
  /\ UNCHANGED <<rec, req, todo, sel, out, last, nops>>

\* one patch of a PatchTreasures batch: PatchFields' four-cell rule
Cell(p) ==
  /\ pc[p] = "cells" /\ todo[p] # <<>>
  /\ LET k == Head(todo[p])[1]
         to == Head(todo[p])[2]
         creates == ~rec[k].live /\ req[p].create
         \* a record that does not exist does not match; its body starts from the seed
         was == rec[k].live /\ rec[k].m
         start == IF creates THEN req[p].seedm ELSE rec[k].m
         now == CASE to = "in" -> TRUE [] to = "out" -> FALSE [] OTHER -> start
         consume == ~was /\ now
         status == IF creates THEN "CREATED" ELSE "PATCHED"
     IN
     /\ todo' = [todo EXCEPT ![p] = Tail(todo[p])]
     /\ IF ~rec[k].live /\ ~creates
          THEN /\ out' = [out EXCEPT ![p] = Append(out[p], "KEY_NOT_FOUND")]
               /\ UNCHANGED <<rec, budget, last>>
          ELSE IF consume /\ budget[p] <= 0
            THEN /\ out' = [out EXCEPT ![p] = Append(out[p], "CAP_EXCEEDED")]
                 /\ last' = [p |-> p, k |-> k, was |-> was, now |-> now, before |-> budget[p], after |-> budget[p], ok |-> FALSE]
                 /\ UNCHANGED <<rec, budget>>
            ELSE /\ out' = [out EXCEPT ![p] = Append(out[p], status)]
                 /\ rec' = [rec EXCEPT ![k] = IF creates THEN [live |-> TRUE, m |-> now, x |-> FALSE, e |-> FALSE]
                                                ELSE [rec[k] EXCEPT !.m = now]]
                 /\ budget' = [budget EXCEPT ![p] = IF consume THEN budget[p] - 1 ELSE budget[p]]
                 /\ last' = [p |-> p, k |-> k, was |-> was, now |-> now, before |-> budget[p],
                             after |-> IF consume THEN budget[p] - 1 ELSE budget[p], ok |-> TRUE]
  /\ UNCHANGED <<mu, pc, req, pre, sel, used, nops>>

\* pe / sh: selection under the beacon lock, bounded by HowMany and by the budget; S in walk order
Select(p, S) ==
  /\ pc[p] = "select"
  /\ LET eff == Min(EffN(req[p]), budget[p])
         n == Min(eff, Cardinality(Eligible))
     IN /\ Len(S) = n
        /\ \A i \in DOMAIN S : S[i] \in Eligible
        /\ \A i, j \in DOMAIN S : i # j => S[i] # S[j]
  /\ sel' = [sel EXCEPT ![p] = S]
  /\ todo' = [todo EXCEPT ![p] = S]
  \* (a selected record leaves the walked beacon at once, which makes it invisible to later selections: x := FALSE;
  \*  a shifted record leaves the swamp - and the pre-count of a concurrent batch - only at its Removed step)
  /\ rec' = [k \in Keys |-> IF \E i \in DOMAIN S : S[i] = k THEN [rec[k] EXCEPT !.x = FALSE] ELSE rec[k]]
  /\ pc' = [pc EXCEPT ![p] = IF S = <<>> THEN "end" ELSE IF req[p].kind = "sh" THEN "remove" ELSE "patch"]
  /\ out' = [out EXCEPT ![p] = IF req[p].kind = "sh" THEN S ELSE out[p]]
  /\ UNCHANGED <<mu, req, pre, budget, last, used, nops>>

\* sh: deleteHandler on a shifted record
Removed(p) ==
  /\ pc[p] = "remove" /\ todo[p] # <<>>
  /\ rec' = [rec EXCEPT ![Head(todo[p])] = Dead]
  /\ todo' = [todo EXCEPT ![p] = Tail(todo[p])]
  /\ pc' = [pc EXCEPT ![p] = IF Len(todo[p]) = 1 THEN "end" ELSE "remove"]
  /\ UNCHANGED <<mu, req, pre, budget, sel, out, last, used, nops>>

\* pe: applyPatchExpiredOne on a selected record: it matches the filter afterwards and is no longer expired
Patched(p) ==
  /\ pc[p] = "patch" /\ todo[p] # <<>>
  /\ LET k == Head(todo[p]) IN
       /\ rec' = IF rec[k].live THEN [rec EXCEPT ![k] = [live |-> TRUE, m |-> TRUE, x |-> FALSE, e |-> TRUE]] ELSE rec
       /\ out' = [out EXCEPT ![p] = Append(out[p], k)]
  /\ todo' = [todo EXCEPT ![p] = Tail(todo[p])]
  /\ pc' = [pc EXCEPT ![p] = IF Len(todo[p]) = 1 THEN "end" ELSE "patch"]
  /\ UNCHANGED <<mu, req, pre, budget, sel, last, used, nops>>

End(p) ==
  /\ \/ pc[p] = "end"
     \/ pc[p] = "cells" /\ todo[p] = <<>>
  /\ mu = p
  /\ mu' = ""
  /\ pc' = [pc EXCEPT ![p] = "ret"]
  /\ UNCHANGED <<rec, req, pre, budget, todo, sel, out, last, used, nops>>

Return(p) ==
  /\ pc[p] = "ret"
  /\ pc' = [pc EXCEPT ![p] = "idle"]
  /\ UNCHANGED <<rec, mu, req, pre, budget, todo, sel, out, last, used, nops>>

\* model checking: the walk is oldest-first = lowest keys first
RECURSIVE FirstN(_, _)
FirstN(S, n) == IF n = 0 \/ S = {} THEN <<>>
                ELSE LET k == CHOOSE a \in S : \A b \in S : a <= b IN <<k>> \o FirstN(S \ {k}, n - 1)

SelectOldest(p) ==
  pc[p] = "select" /\ Select(p, FirstN(Eligible, Min(Min(EffN(req[p]), budget[p]), Cardinality(Eligible))))

Steps(Reqs) ==
  \E p \in Procs :
     \/ \E q \in Reqs : Call(p, q)
     \/ PreCount(p) \/ Begin(p) \/ Cell(p) \/ SelectOldest(p) \/ Patched(p) \/ Removed(p) \/ End(p)

-----------------------------------------------------------------------------
(* Properties (C12) *)

\* the number of records matching Cap.Filter never exceeds the cap
CapOK == Count <= Max
\* budget decreases exactly on an accepted no -> yes transition; a patch is refused only on no -> yes without budget
FourCell ==
  /\ last.ok => last.after = (IF ~last.was /\ last.now THEN last.before - 1 ELSE last.before)
  /\ ~last.ok => (~last.was /\ last.now /\ last.before <= 0 /\ last.after = last.before)
  /\ last.after >= 0
MuOK == mu \in Procs \cup {""}
=============================================================================
