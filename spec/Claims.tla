------------------------------- MODULE Claims -------------------------------
(***************************************************************************)
(* Claims on one swamp (property C11): shift-expired, shift-matching and   *)
(* patch-expired callers ("claimers") run concurrently with writers,       *)
(* patchers and deleters ("interferers").                                  *)
(*                                                                         *)
(* Code: beacon.go ShiftExpired / ShiftMatching /                          *)
(* SelectExpiredForPatchWithCap / ReindexExpiration, swamp.go              *)
(* CloneAndDelete*Treasures + deleteHandler + SaveFunction,                *)
(* swamp_patch_expired.go PatchExpired, gateway_shift_matching.go          *)
(* buildShiftMatchingPredicate, gateway_patch_expired.go                   *)
(* buildPatchExpiredSelectionPredicate.                                    *)
(*                                                                         *)
(* One action = one critical section of the design:                        *)
(*   Call           the request arrives                                    *)
(*   BuildPredicate the gateway plans the filter; for a filter with an     *)
(*                  indexable leg it looks up the bucket candidate set     *)
(*                  (BEFORE any selection lock)                            *)
(*   Lock           the claimer takes the selection lock and fixes the     *)
(*                  order in which it will walk the chosen index           *)
(*   Visit          one record of the walk is judged (under the lock and   *)
(*                  the record guard) and taken if it satisfies the        *)
(*                  criteria and fewer than HowMany were taken             *)
(*   Unlock         end of the walk                                        *)
(*   DelStep        shift: the taken record is deleted from the swamp      *)
(*   PatchStep      patch-expired: the taken record is patched in place    *)
(*   CReindex       patch-expired: the selected records go back into the   *)
(*                  expiration index                                       *)
(*   Apply/IReindex an interferer's put / patch / delete and the           *)
(*                  re-filing of the record in the expiration index        *)
(*   Return         the response leaves                                    *)
(*                                                                         *)
(* Values are abstract: keys are integers (key order = integer order),     *)
(* expiry is a slot number (0 = never expires, < NOW = expired, > NOW =    *)
(* in the future), the msgpack body is (grp, st): grp is the field the     *)
(* indexable filter leg tests (EQUAL / STRING_IN), st the field the        *)
(* residual leg tests (NOT_EQUAL).                                         *)
(*                                                                         *)
(* Dev = set of named deviations of the code from the strict design:       *)
(*  "EmptyCandidates" shift-matching: when the bucket lookup of the        *)
(*                    indexable leg returns nothing, the leg is dropped    *)
(*                    (candidateKeySet returns nil = "no restriction")     *)
(*  "StaleCandidates" the indexable leg is not re-evaluated at Visit:      *)
(*                    membership in the candidate set computed at          *)
(*                    BuildPredicate stands for it                         *)
(*  "IndexLocalClaim" a claim is nothing but the removal of the record     *)
(*                    from the order slice of the walked index (beacon)    *)
(*                    under that beacon's own lock: claimers walking       *)
(*                    different indexes do not exclude each other, and a   *)
(*                    concurrent save that re-files the record in the      *)
(*                    expiration index makes it claimable again            *)
(*  "RefileGap"       a save re-files a record in the expiration beacons by  *)
(*                    delete-then-add under separate lock acquisitions (and  *)
(*                    every save does, the "expiry changed" flag is sticky): *)
(*                    a walk in between does not meet the record            *)
(*  "PatchResurrects" PatchTreasures on a never persisted record that was    *)
(*                    deleted (or shifted out by a claim) after the patcher  *)
(*                    fetched it patches the kept body and re-inserts it     *)
(*  "Resurrect"       in a swamp whose records are not persisted (body     *)
(*                    kept on delete), patch-expired patches and saves a   *)
(*                    record that was deleted after selection (re-insert), *)
(*                    and re-files a deleted record whose patch condition  *)
(*                    failed in the expiration index (ghost)               *)
(* `used` collects the deviations that actually changed an outcome on the  *)
(* current behaviour (trace validation reports exactly those).             *)
(***************************************************************************)
EXTENDS Integers, Sequences, FiniteSets, TLC

CONSTANTS Keys, Claimers, Interferers, Dev, NOW

VARIABLES mode,   \* "mem": records never persisted (in-memory swamp); "disk": persisted at once (write interval 0)
          rec,    \* [Keys -> [live, exp, grp, st]]
          ix,     \* [Keys -> Nat]: value under which the key is filed in the expiration index, 0 = not filed
          held,   \* [Keys -> SUBSET Idx]: indexes from which a claim in progress removed the key
          lock,   \* [Idx -> holder or ""]
          pc, req, cand, walk, res, todo, out,   \* per process
          owner,  \* ghost: [Keys -> claimer that received the current incarnation of the key or ""]
          alive,  \* ghost: keys that have ever been live
          bad,    \* ghost: set of <<invariant name, process, key>> recorded at the step that broke it
          used,   \* deviations that changed an outcome
          nops    \* calls made so far

vars == <<mode, rec, ix, held, lock, pc, req, cand, walk, res, todo, out, owner, alive, bad, used, nops>>

Procs == Claimers \cup Interferers
\* the four ordered indexes (beacons) a claim can walk: expiration time / key, ascending / descending
Idx == {"expA", "expD", "keyA", "keyD"}
ExpIdx == {"expA", "expD"}
KeyIdx == {"keyA", "keyD"}
Dead == [live |-> FALSE, exp |-> 0, grp |-> "", st |-> ""]
NoReq == [kind |-> ""]
Inf == 1000000

Has(d) == d \in Dev
\* A record that was never persisted keeps its body and expiry when it is deleted (only observable through the two
\* resurrection deviations). Never persisted: every record of an in-memory swamp; in a disk swamp (write interval 0) a
\* record whose creating call has not returned yet (the first flush happens at the end of that save).
Unpersisted(k) ==
  \/ mode = "mem"
  \/ \E i \in Interferers : pc[i] \in {"rx", "gap", "ret"} /\ req[i].kind = "put" /\ req[i].k = k /\ out[i] = <<"CREATED">>
Body(k) == ~rec[k].live /\ rec[k].grp # ""     \* a dead record whose body was kept

Expired(r) == r.exp # 0 /\ r.exp < NOW

-----------------------------------------------------------------------------
(* Requests.                                                               *)
(* claimer:  [kind: "se"|"sm"|"pe", n, max, idx: "exp"|"key", desc,         *)
(*            f: [mode: "none"|"and"|"or", useG, G, useS, S], lo, hi,       *)
(*            newst, lease, cond]                                           *)
(*   se = ShiftExpiredTreasures(HowMany n)                                  *)
(*   sm = ShiftMatchingTreasures(IndexType idx, OrderType desc, HowMany n,  *)
(*        MaxResults max, Filters f, FromTime lo, ToTime hi; -1 = unset)    *)
(*   pe = PatchExpiredTreasures(HowMany n, Filters f, Ops SET st := newst,  *)
(*        Meta SetExpiredAt lease (0 = none), Condition st == cond ("" =    *)
(*        none))                                                            *)
(* interferer: [kind: "put"|"patch"|"del", k, e, g, s]  (patch: e = -1,     *)
(*        g = "", s = "" mean "leave unchanged")                            *)

Sat(f, r) ==
  CASE f.mode = "none" -> TRUE
    [] f.mode = "and"  -> (f.useG => r.grp \in f.G) /\ (f.useS => r.st # f.S)
    [] f.mode = "or"   -> (f.useG /\ r.grp \in f.G) \/ (f.useS /\ r.st # f.S)

\* the planner routes the filter through the bucket index: AND with an indexable leg, or OR of indexable legs only
Indexed(f) == f.mode # "none" /\ f.useG /\ (f.mode = "and" \/ ~f.useS)
\* the part of the filter that is evaluated on the record once the indexable leg is taken out
Residual(f, r) == IF f.mode = "and" THEN (f.useS => r.st # f.S) ELSE TRUE

InWin(q, e) == (q.lo = -1 \/ e >= q.lo) /\ (q.hi = -1 \/ e < q.hi)

DescOf(q) == q.kind = "sm" /\ q.desc
IdxOf(q) == IF q.kind = "sm" THEN (IF q.idx = "exp" THEN (IF q.desc THEN "expD" ELSE "expA") ELSE (IF q.desc THEN "keyD" ELSE "keyA"))
            ELSE "expA"

EffN(q) ==
  CASE q.kind = "se" -> IF q.n = 0 THEN Inf ELSE q.n
    [] q.kind = "pe" -> IF q.n <= 0 THEN Inf ELSE q.n
    [] q.kind = "sm" -> LET h == IF q.n = 0 THEN Inf ELSE q.n
                        IN IF q.max > 0 /\ q.max < h THEN q.max ELSE h

\* what the property demands of a record handed out by request q
Criteria(q, r) ==
  /\ r.live
  /\ CASE q.kind = "se" -> Expired(r)
       [] q.kind = "pe" -> Expired(r) /\ Sat(q.f, r)
       [] q.kind = "sm" -> Sat(q.f, r) /\ (q.idx = "exp" => InWin(q, r.exp))

\* the value of the indexable leg the code uses at Visit, and the deviation that made it differ from the live value
LegLive(q, k) == rec[k].grp \in q.f.G
LegDropped(q, c) == q.kind = "sm" /\ cand[c] = {} /\ Has("EmptyCandidates")
\* A deviation is an ALTERNATIVE the as-built specification may take at a deviation point (the strict outcome stays
\* possible), so that a tree in which some defects are repaired and others are not is still explained, and `used`
\* names exactly the deviations whose alternative was needed.
LegChoices(q, c, k) ==
  {LegLive(q, k)} \cup (IF Has("StaleCandidates") THEN {k \in cand[c]} ELSE {}) \cup (IF LegDropped(q, c) THEN {TRUE} ELSE {})
LegDev(q, c, lv) == IF LegDropped(q, c) /\ lv THEN "EmptyCandidates" ELSE "StaleCandidates"

\* a dead record still filed in the expiration index (only arises with "Resurrect")
Ghost(k) == Body(k) /\ ix[k] # 0 /\ Has("Resurrect")

\* what the code evaluates at Visit (equals Criteria when Dev = {})
Judged(q, c, k, lv) ==
  LET r == rec[k]
      filt == IF Indexed(q.f) THEN lv /\ Residual(q.f, r) ELSE Sat(q.f, r)
  IN /\ r.live \/ Ghost(k)
     /\ CASE q.kind = "se" -> Expired(r)
          [] q.kind = "pe" -> Expired(r) /\ filt
          [] q.kind = "sm" -> filt /\ (q.idx = "exp" => InWin(q, r.exp))

-----------------------------------------------------------------------------
(* Index walks *)

\* (local = the claim is index-local: it only sees what was removed from its own beacon and only takes that beacon's lock)
Members(x, local) ==
  LET filed == IF x \in ExpIdx THEN {k \in Keys : ix[k] # 0} ELSE {k \in Keys : rec[k].live}
  IN IF local THEN {k \in filed : x \notin held[k]} ELSE {k \in filed : held[k] = {}}

\* The walk meets the members in index order; ties (equal expiry) in any order. walk[c] is the SET of members not yet
\* visited, the next one visited is any of those with the smallest index value (largest for a descending walk).
IdxVal(q, k) == LET a == IF IdxOf(q) \in ExpIdx THEN ix[k] ELSE k IN IF DescOf(q) THEN 0 - a ELSE a
NextOf(q, W) == {k \in W : \A j \in W : IdxVal(q, k) <= IdxVal(q, j)}

LocksOf(q, local) == IF local THEN {IdxOf(q)} ELSE Idx

-----------------------------------------------------------------------------
Init ==
  /\ mode \in {"mem", "disk"}
  /\ rec = [k \in Keys |-> Dead] /\ ix = [k \in Keys |-> 0] /\ held = [k \in Keys |-> {}]
  /\ lock = [x \in Idx |-> ""]
  /\ pc = [p \in Procs |-> "idle"] /\ req = [p \in Procs |-> NoReq]
  /\ cand = [p \in Procs |-> {}] /\ walk = [p \in Procs |-> {}] /\ res = [p \in Procs |-> <<>>]
  /\ todo = [p \in Procs |-> <<>>] /\ out = [p \in Procs |-> <<>>]
  /\ owner = [k \in Keys |-> ""] /\ alive = {} /\ bad = {} /\ used = {} /\ nops = 0

Quiet(p) == pc[p] \in {"idle", "done"}
ClaimersIdle == \A c \in Claimers : Quiet(c)

(* ------------------------------- claimers ------------------------------ *)

Call(c, q) ==
  /\ c \in Claimers /\ pc[c] = "idle"
  /\ req' = [req EXCEPT ![c] = [local |-> FALSE] @@ q]
  /\ pc' = [pc EXCEPT ![c] = IF q.kind = "se" THEN "lock" ELSE "pred"]
  /\ cand' = [cand EXCEPT ![c] = {}] /\ res' = [res EXCEPT ![c] = <<>>]
  /\ todo' = [todo EXCEPT ![c] = <<>>] /\ out' = [out EXCEPT ![c] = <<>>]
  /\ nops' = nops + 1
  /\ UNCHANGED <<mode, rec, ix, held, lock, walk, owner, alive, bad, used>>

BuildPredicate(c) ==
  /\ c \in Claimers /\ pc[c] = "pred"
  /\ cand' = [cand EXCEPT ![c] = IF Indexed(req[c].f)
                                   THEN {k \in Keys : rec[k].live /\ rec[k].grp \in req[c].f.G} ELSE {}]
  /\ pc' = [pc EXCEPT ![c] = "lock"]
  /\ UNCHANGED <<mode, rec, ix, held, lock, req, walk, res, todo, out, owner, alive, bad, used, nops>>

Missed(c) == IF IdxOf(req[c]) \in ExpIdx
               THEN {req[j].k : j \in {i \in Interferers : pc[i] = "gap" /\ held[req[i].k] = {}}}
               ELSE {}

Lock(c) ==
  /\ c \in Claimers /\ pc[c] = "lock"
  /\ \E local \in (IF Has("IndexLocalClaim") THEN {FALSE, TRUE} ELSE {FALSE}) :
       /\ \A x \in LocksOf(req[c], local) : lock[x] = ""
       /\ lock' = [x \in Idx |-> IF x \in LocksOf(req[c], local) THEN c ELSE lock[x]]
       /\ walk' = [walk EXCEPT ![c] = Members(IdxOf(req[c]), local)]
       /\ req' = [req EXCEPT ![c].local = local]
       /\ used' = used \cup (IF \E x \in Idx : lock[x] # "" THEN {"IndexLocalClaim"} ELSE {})
                        \cup (IF Missed(c) # {} THEN {"RefileGap"} ELSE {})
  \* a walk over an expiration index does not meet a record whose save is between "taken out" and "put back"
  /\ bad' = bad \cup {<<"IndexOrder", c, k>> : k \in Missed(c)}
  /\ pc' = [pc EXCEPT ![c] = "walk"]
  /\ UNCHANGED <<mode, rec, ix, held, cand, res, todo, out, owner, alive, nops>>

Entry(k, iv) == [k |-> k, exp |-> rec[k].exp, grp |-> rec[k].grp, st |-> rec[k].st, iv |-> iv]

Visit(c) ==
  /\ c \in Claimers /\ pc[c] = "walk" /\ walk[c] # {}
  /\ \E k \in NextOf(req[c], walk[c]) :
     \E lv \in (IF Indexed(req[c].f) /\ req[c].kind # "se" THEN LegChoices(req[c], c, k) ELSE {TRUE}) :
     LET q == req[c]
         x == IdxOf(q)
         room == Len(res[c]) < EffN(q)
         strict == Criteria(q, rec[k])
         judged == Judged(q, c, k, lv)
         take == judged /\ room
         iv == IF x \in ExpIdx THEN ix[k] ELSE k
     IN
     /\ walk' = [walk EXCEPT ![c] = walk[c] \ {k}]
     /\ IF take
          THEN /\ res' = [res EXCEPT ![c] = Append(res[c], Entry(k, iv))]
               /\ held' = [held EXCEPT ![k] = IF q.local THEN held[k] \cup {x} ELSE Idx]
               /\ owner' = [owner EXCEPT ![k] = c]
               /\ bad' = bad \cup (IF strict THEN {} ELSE {<<"MatchedAtClaim", c, k>>})
                             \cup (IF owner[k] # "" /\ owner[k] # c THEN {<<"Disjoint", c, k>>} ELSE {})
                             \cup (IF rec[k].live THEN {} ELSE {<<"NoResurrection", c, k>>})
          ELSE UNCHANGED <<res, held, owner, bad>>
     /\ used' = used
                \cup (IF room /\ rec[k].live /\ judged # strict THEN {LegDev(q, c, lv)} ELSE {})
                \cup (IF take /\ held[k] # {} THEN {"IndexLocalClaim"} ELSE {})
                \cup (IF room /\ judged /\ ~rec[k].live THEN {"Resurrect"} ELSE {})
  /\ UNCHANGED <<mode, rec, ix, lock, pc, req, cand, todo, out, alive, nops>>

\* the rest of the walk cannot take anything once HowMany records were taken
Unlock(c) ==
  /\ c \in Claimers /\ pc[c] = "walk"
  /\ walk[c] = {} \/ Len(res[c]) >= EffN(req[c])
  /\ lock' = [x \in Idx |-> IF lock[x] = c THEN "" ELSE lock[x]]
  /\ walk' = [walk EXCEPT ![c] = {}]
  /\ todo' = [todo EXCEPT ![c] = res[c]]
  /\ pc' = [pc EXCEPT ![c] = IF res[c] = <<>> THEN "ret" ELSE "fin"]
  /\ req' = [req EXCEPT ![c].local = FALSE]
  /\ UNCHANGED <<mode, rec, ix, held, cand, res, out, owner, alive, bad, used, nops>>

Kill(k) == IF (Has("Resurrect") \/ Has("PatchResurrects")) /\ Unpersisted(k) THEN [rec[k] EXCEPT !.live = FALSE] ELSE Dead

\* shift: CloneAndDelete*Treasures calls deleteHandler for every record it took
DelStep(c) ==
  /\ c \in Claimers /\ pc[c] = "fin" /\ req[c].kind \in {"se", "sm"} /\ todo[c] # <<>>
  /\ LET e == Head(todo[c])
         k == e.k
     IN /\ todo' = [todo EXCEPT ![c] = Tail(todo[c])]
        /\ pc' = [pc EXCEPT ![c] = IF Len(todo[c]) = 1 THEN "ret" ELSE "fin"]
        /\ out' = [out EXCEPT ![c] = Append(out[c], [k |-> k, exp |-> e.exp, grp |-> e.grp, st |-> e.st])]
        /\ IF rec[k].live
             THEN /\ rec' = [rec EXCEPT ![k] = Kill(k)]
                  /\ ix' = [ix EXCEPT ![k] = 0]
                  /\ held' = [held EXCEPT ![k] = {}]
             ELSE UNCHANGED <<rec, ix, held>>
  /\ UNCHANGED <<mode, lock, req, cand, walk, res, owner, alive, bad, used, nops>>

\* patch-expired: applyPatchExpiredOne for every selected record
PatchStep(c) ==
  /\ c \in Claimers /\ pc[c] = "fin" /\ req[c].kind = "pe" /\ todo[c] # <<>>
  /\ \E rz \in (IF Body(Head(todo[c]).k) /\ Has("Resurrect") THEN {TRUE, FALSE} ELSE {FALSE}) :
     LET e == Head(todo[c])
         k == e.k
         q == req[c]
         r == rec[k]
         condOK == q.cond = "" \/ r.st = q.cond
         newexp == IF q.lease # 0 THEN q.lease ELSE r.exp
         patched == [live |-> TRUE, exp |-> newexp, grp |-> r.grp, st |-> q.newst]
         resurrects == rz
         \* before its first patch PatchExpired removes the selected records from the descending expiration beacon too
         sel == {res[c][i].k : i \in DOMAIN res[c]}
         Mirrored == [j \in Keys |-> IF todo[c] = res[c] /\ j \in sel /\ "expA" \in held[j] THEN held[j] \cup {"expD"} ELSE held[j]]
     IN
     /\ todo' = [todo EXCEPT ![c] = Tail(todo[c])]
     /\ IF r.live \/ resurrects
          THEN IF condOK
                 THEN /\ rec' = [rec EXCEPT ![k] = patched]
                      /\ out' = [out EXCEPT ![c] = Append(out[c], [k |-> k, status |-> "PATCHED", exp |-> newexp, grp |-> r.grp, st |-> q.newst])]
                      \* the caller is done with this record: Save files it again under its (new) expiry at once
                      /\ ix' = [ix EXCEPT ![k] = newexp]
                      /\ held' = [j \in Keys |-> IF j = k THEN {} ELSE Mirrored[j]]
                      /\ bad' = IF resurrects THEN bad \cup {<<"NoResurrection", c, k>>} ELSE bad
                      /\ used' = IF resurrects THEN used \cup {"Resurrect"} ELSE used
                 ELSE /\ out' = [out EXCEPT ![c] = Append(out[c], [k |-> k, status |-> "CONDITION_NOT_MET", exp |-> 0, grp |-> "", st |-> ""])]
                      /\ held' = [j \in Keys |-> IF j = k THEN Mirrored[k] \ KeyIdx ELSE Mirrored[j]]
                      /\ UNCHANGED <<rec, ix, bad, used>>
          ELSE /\ out' = [out EXCEPT ![c] = Append(out[c], [k |-> k, status |-> "KEY_NOT_FOUND", exp |-> 0, grp |-> "", st |-> ""])]
               /\ held' = Mirrored
               /\ UNCHANGED <<rec, ix, bad, used>>
     \* the caller has had its turn on this record: the claim on it is over
     /\ owner' = [owner EXCEPT ![k] = IF owner[k] = c THEN "" ELSE owner[k]]
  /\ UNCHANGED <<mode, lock, pc, req, cand, walk, res, alive, nops>>

\* patch-expired: ReindexExpiration(selected) under the expiration beacon's lock; the claim is over
CReindex(c) ==
  /\ c \in Claimers /\ pc[c] = "fin" /\ req[c].kind = "pe" /\ todo[c] = <<>>
  /\ lock["expA"] = ""
  /\ \E gz \in (IF Has("Resurrect") THEN {TRUE, FALSE} ELSE {FALSE}) :
     LET sel == {res[c][i].k : i \in DOMAIN res[c]}
         ghosts == IF gz THEN {k \in sel : Body(k) /\ rec[k].exp # 0} ELSE {}
     IN /\ (gz => ghosts # {})
        /\ ix' = [k \in Keys |-> IF k \in sel THEN (IF rec[k].live \/ k \in ghosts THEN rec[k].exp ELSE 0) ELSE ix[k]]
        /\ held' = [k \in Keys |-> IF k \in sel THEN held[k] \ ExpIdx ELSE held[k]]
        /\ used' = IF ghosts # {} THEN used \cup {"Resurrect"} ELSE used
  /\ pc' = [pc EXCEPT ![c] = "ret"]
  /\ UNCHANGED <<mode, rec, lock, req, cand, walk, res, todo, out, owner, alive, bad, nops>>

Return(p) ==
  /\ pc[p] = "ret"
  /\ pc' = [pc EXCEPT ![p] = "idle"]
  /\ UNCHANGED <<mode, rec, ix, held, lock, req, cand, walk, res, todo, out, owner, alive, bad, used, nops>>

(* ----------------------------- interferers ----------------------------- *)

\* a key is (re-)created only while no claim is in progress, or if it never existed: a claim in progress never
\* spans two incarnations of a key
MayCreate(k) == ~rec[k].live /\ (k \notin alive \/ ClaimersIdle)

ICall(i, o) ==
  /\ i \in Interferers /\ pc[i] = "idle"
  /\ o.kind = "put" /\ ~rec[o.k].live => MayCreate(o.k)
  \* (saw: PatchFields fetches the treasure object at once and takes its guard later)
  /\ req' = [req EXCEPT ![i] = [saw |-> rec[o.k].live] @@ o]
  /\ pc' = [pc EXCEPT ![i] = "do"]
  /\ out' = [out EXCEPT ![i] = <<>>]
  /\ nops' = nops + 1
  /\ UNCHANGED <<mode, rec, ix, held, lock, cand, walk, res, todo, owner, alive, bad, used>>

\* as built every save of a record that has an expiry files it again in the expiration beacons (its "expiry
\* changed" flag is never cleared), which matters when a claim in progress had removed it from there
Refiles(k) == Has("IndexLocalClaim") /\ held[k] \cap ExpIdx # {}

Apply(i) ==
  /\ i \in Interferers /\ pc[i] = "do"
  /\ LET o == req[i]
         k == o.k
         r == rec[k]
     IN
     CASE o.kind = "del" ->
            /\ IF r.live
                 THEN /\ rec' = [rec EXCEPT ![k] = Kill(k)]
                      /\ ix' = [ix EXCEPT ![k] = 0]
                      /\ held' = [held EXCEPT ![k] = {}]
                      /\ out' = [out EXCEPT ![i] = <<"DELETED">>]
                 ELSE /\ out' = [out EXCEPT ![i] = <<"NOT_FOUND">>]
                      /\ UNCHANGED <<rec, ix, held>>
            /\ pc' = [pc EXCEPT ![i] = "ret"]
            /\ UNCHANGED <<owner, alive, used>>
       [] o.kind \in {"put", "patch"} ->
            LET creates == o.kind = "put" /\ ~r.live
                nr == IF o.kind = "put" THEN [live |-> TRUE, exp |-> o.e, grp |-> o.g, st |-> o.s]
                      ELSE [live |-> TRUE, exp |-> IF o.e = -1 THEN r.exp ELSE o.e,
                            grp |-> IF o.g = "" THEN r.grp ELSE o.g, st |-> IF o.s = "" THEN r.st ELSE o.s]
            IN
            IF ~r.live /\ o.kind = "patch"
              THEN \* "PatchResurrects": the patcher fetched the record before somebody deleted it; a never persisted
                   \* record keeps its body, is patched and saved as if it were new
                   \E rz \in (IF Body(k) /\ Has("PatchResurrects") /\ o.saw THEN {FALSE, TRUE} ELSE {FALSE}) :
                     IF rz
                       THEN /\ rec' = [rec EXCEPT ![k] = nr]
                            /\ out' = [out EXCEPT ![i] = <<"PATCHED">>]
                            /\ ix' = [ix EXCEPT ![k] = nr.exp]
                            /\ held' = [held EXCEPT ![k] = {}]
                            /\ owner' = [owner EXCEPT ![k] = ""]
                            /\ used' = used \cup {"PatchResurrects"}
                            /\ pc' = [pc EXCEPT ![i] = "ret"]
                            /\ UNCHANGED alive
                       ELSE /\ out' = [out EXCEPT ![i] = <<"KEY_NOT_FOUND">>]
                            /\ pc' = [pc EXCEPT ![i] = "ret"]
                            /\ UNCHANGED <<rec, ix, held, owner, alive, used>>
              ELSE
                /\ r.live \/ MayCreate(k)
                /\ rec' = [rec EXCEPT ![k] = nr]
                /\ out' = [out EXCEPT ![i] = <<IF r.live THEN "PATCHED" ELSE "CREATED">>]
                /\ owner' = [owner EXCEPT ![k] = IF r.live THEN owner[k] ELSE ""]
                /\ alive' = alive \cup {k}
                /\ held' = [held EXCEPT ![k] = IF r.live THEN held[k] ELSE {}]
                \* a new record is absent from the expiration index until it is filed; a changed expiry is re-filed.
                \* "RefileGap": as built every save of a record with an expiry takes it OUT of the expiration beacons
                \* and puts it back under separate lock acquisitions (pc "gap": the record is in no expiration index)
                /\ \E gap \in (IF Has("RefileGap") /\ r.live /\ ix[k] # 0 THEN {FALSE, TRUE} ELSE {FALSE}) :
                     /\ ix' = [ix EXCEPT ![k] = IF creates \/ gap THEN 0 ELSE ix[k]]
                     /\ used' = used       \* ("RefileGap" is recorded by the walk that misses the record, see Lock)
                     /\ pc' = [pc EXCEPT ![i] = IF gap THEN "gap"
                                                 ELSE IF (r.live /\ (nr.exp # r.exp \/ Refiles(k))) \/ (creates /\ o.e # 0) THEN "rx" ELSE "ret"]
  /\ bad' = IF ~rec[req[i].k].live /\ rec'[req[i].k].live /\ req[i].kind = "patch"
              THEN bad \cup {<<"NoResurrection", i, req[i].k>>} ELSE bad
  /\ UNCHANGED <<mode, lock, req, cand, walk, res, todo, nops>>

\* SaveFunction's IsExpirationTimeChanged / new-record branch: delete + add + sort under the expiration beacon's lock
IReindex(i) ==
  /\ i \in Interferers /\ pc[i] \in {"rx", "gap"}
  /\ lock["expA"] = "" /\ lock["expD"] = ""
  /\ LET k == req[i].k
         can == rec[k].live /\ rec[k].exp # 0 /\ Has("IndexLocalClaim") /\ held[k] \cap ExpIdx # {}
     IN \E un \in (IF can THEN {TRUE, FALSE} ELSE {FALSE}) :
       /\ ix' = [ix EXCEPT ![k] = IF rec[k].live THEN rec[k].exp ELSE ix[k]]
       /\ held' = [held EXCEPT ![k] = IF un THEN held[k] \ ExpIdx ELSE held[k]]
       /\ used' = IF un THEN used \cup {"IndexLocalClaim"} ELSE used
  /\ pc' = [pc EXCEPT ![i] = "ret"]
  /\ UNCHANGED <<mode, rec, lock, req, cand, walk, res, todo, out, owner, alive, bad, nops>>

-----------------------------------------------------------------------------
\* ClaimReqs / IntOps: the requests claimers / interferers may issue (model checking)
Steps(ClaimReqs, IntOps) ==
  \/ \E c \in Claimers : \/ \E q \in ClaimReqs : Call(c, q)
                         \/ BuildPredicate(c) \/ Lock(c) \/ Visit(c) \/ Unlock(c)
                         \/ DelStep(c) \/ PatchStep(c) \/ CReindex(c)
  \/ \E i \in Interferers : \/ \E o \in IntOps : ICall(i, o)
                            \/ Apply(i) \/ IReindex(i)

-----------------------------------------------------------------------------
(* Properties (C11) *)

Broken(name) == {b \in bad : b[1] = name}

\* no record is handed to two callers (a shifted record belongs to its caller for good, a record selected by
\* patch-expired until the claim is over)
Disjoint == Broken("Disjoint") = {}
\* every record handed out satisfied the criteria of the request in the state in which it was taken
MatchedAtClaim == Broken("MatchedAtClaim") = {}
\* a deleted record is never handed out, and never comes back to life through a claim
NoResurrection == Broken("NoResurrection") = {}
\* at most the requested number
AtMostN == \A c \in Claimers : req[c].kind # "" => Len(res[c]) <= EffN(req[c])
\* in index order
IndexOrder ==
  /\ Broken("IndexOrder") = {}     \* no walk missed a record that belongs to the index
  /\ \A c \in Claimers : req[c].kind # "" =>
    \A i, j \in DOMAIN res[c] : i < j =>
      IF DescOf(req[c]) THEN res[c][i].iv >= res[c][j].iv ELSE res[c][i].iv <= res[c][j].iv
\* the selection lock is exclusive
LockOK == \A x \in Idx : lock[x] \in Procs \cup {""}
\* dead records are not filed and not held once no claim is in progress (no ghosts)
NoGhost == (\A p \in Procs : Quiet(p)) => \A k \in Keys : ~rec[k].live => ix[k] = 0

=============================================================================
