------------------------------- MODULE Codec -------------------------------
(***************************************************************************)
(* The block codec contract (C24), app/core/compressor/compressor.go:      *)
(*   Decompress(Compress(x)) = x                                           *)
(*   Decompress(d) for a damaged form d of Compress(x) is an error or x    *)
(* This is all the storage engine assumes about its codec; TLA+ cannot     *)
(* (and need not) model gzip/LZ4/Snappy/Zstd themselves.                   *)
(*                                                                         *)
(* One session: an input is compressed, the compressed form may be damaged *)
(* (kind of damage recorded), then it is decompressed; the outcome is one  *)
(* of                                                                      *)
(*   same  err  empty (no error, empty output for a non-empty input)       *)
(*   prefix (no error, a proper prefix)  different (no error, other data)  *)
(*   panic  died  hung                                                     *)
(*                                                                         *)
(* Dev (confirmed on the real code):                                       *)
(*   GzipNilNil        gzip returns (nil, nil) for any damaged input       *)
(*   SnappyNoChecksum  the snappy block format carries no checksum         *)
(*   Lz4EofUnchecked   an LZ4 frame that ends early (or is skipped) yields *)
(*                     what was decoded so far, checksum never verified    *)
(*   ZstdEmptyIsValid  zero bytes are the valid zstd form of the empty     *)
(*                     input, so a totally truncated form decodes to empty *)
(***************************************************************************)
EXTENDS Integers, FiniteSets, TLC

CONSTANTS Algs, Dev

AllDevs == {"GzipNilNil", "SnappyNoChecksum", "Lz4EofUnchecked", "ZstdEmptyIsValid"}
Outcomes == {"same", "err", "empty", "prefix", "different", "panic", "died", "hung"}
Kinds == {"none", "bitflip", "byteset", "run", "zerofill", "truncate", "truncate0", "append", "swap", "garbage"}

\* what Decompress may do, given the deviations D
AllowedWith(D, alg, damaged, kind) ==
  (IF damaged THEN {"same", "err"} ELSE {"same"})
  \cup (IF "GzipNilNil" \in D /\ alg = "gzip" /\ damaged THEN {"empty"} ELSE {})
  \cup (IF "SnappyNoChecksum" \in D /\ alg = "snappy" /\ damaged THEN {"prefix", "different"} ELSE {})
  \cup (IF "Lz4EofUnchecked" \in D /\ alg = "lz4" /\ damaged THEN {"empty", "prefix", "different"} ELSE {})
  \cup (IF "ZstdEmptyIsValid" \in D /\ alg = "zstd" /\ damaged /\ kind = "truncate0" THEN {"empty"} ELSE {})

Allowed(alg, damaged, kind) == AllowedWith(Dev, alg, damaged, kind)

VARIABLES alg, phase, damaged, kind, outcome
vars == <<alg, phase, damaged, kind, outcome>>

Init == alg \in Algs /\ phase = "compressed" /\ damaged = FALSE /\ kind = "none" /\ outcome = "none"

Damage(k) ==
  /\ phase = "compressed" /\ ~damaged /\ k \in Kinds \ {"none"}
  /\ damaged' \in BOOLEAN          \* (a "damage" may happen to leave the bytes as they were)
  /\ kind' = k /\ UNCHANGED <<alg, phase, outcome>>

Decompress(o) ==
  /\ phase = "compressed" /\ o \in Allowed(alg, damaged, kind)
  /\ phase' = "done" /\ outcome' = o /\ UNCHANGED <<alg, damaged, kind>>

Next == (\E k \in Kinds : Damage(k)) \/ (\E o \in Outcomes : Decompress(o))
Spec == Init /\ [][Next]_vars

-----------------------------------------------------------------------------
(* Properties (C24) *)
RoundTrip == (phase = "done" /\ ~damaged) => outcome = "same"
NoHiddenCorruption == (phase = "done" /\ damaged) => outcome \in {"same", "err"}
=============================================================================
