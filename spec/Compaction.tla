----------------------------- MODULE Compaction -----------------------------
(***************************************************************************)
(* Compaction of a swamp's storage file (C03).                             *)
(*   app/core/hydra/swamp/chronicler/v2/compactor.go  Compact,             *)
(*       CompactFromIndex, CleanupCompactionTemp                           *)
(*   app/core/hydra/swamp/chronicler/chronicler_v2.go Load (self-heal),    *)
(*       maybeCompactInline / runCompactionLocked (write, close, forced)   *)
(*   app/hydraidectl/cmd/compact.go                   compactSwamp (CLI)   *)
(*                                                                         *)
(* Two files: `main` (<swamp>.hyd) and `temp` (<swamp>.hyd.compact).  A    *)
(* file is [ex, hdr, ents, dur]:                                           *)
(*   ex    the file exists                                                 *)
(*   hdr   0 = no complete 64-byte header (cannot be opened at all),       *)
(*         1 = header complete but the swamp name behind it is not,        *)
(*         2 = header and name complete                                    *)
(*   ents  the blocks' entries in file order; an entry is <<k, v>>:        *)
(*         v > 0 a put of value v, v = 0 a delete; <<0,1>> and <<0,2>> are *)
(*         partially written (torn) blocks: <<0,1>> less than a complete   *)
(*         block header plus one payload byte (the reader takes that for   *)
(*         the end of the file), <<0,2>> a block cut inside its payload    *)
(*   dur   how many leading entries are on stable storage (-1: not even    *)
(*         the header is); a power failure cuts the file back to that      *)
(* One run of compaction is the sequence                                   *)
(*   Start(entry point) ; CleanupTemp? ; OpenCreate ; HeaderTemp+ ;        *)
(*   WriteTemp* ; SyncTemp ; CloseTemp ; Rename                            *)
(* and may be ended at any step by Skip (thresholds), Abort (an error, e.g. *)
(* a failed write or fsync of the temp file: the swamp file stays as it    *)
(* is, the temp file is removed or left behind) or                         *)
(* Crash (process death, or power failure which drops what is not          *)
(* durable).  Whatever the crash leaves behind is the stale temp file of   *)
(* the next run, and the initial temp file is arbitrary (StaleTemps).      *)
(*                                                                         *)
(* Dev: "StaleTempAppend" - the entry points in NoCleanup (command line    *)
(*      tool and the public Compactor API) do not remove a leftover temp   *)
(*      file: the writer opens it FOR APPENDING, so its old content stays  *)
(*      in front of the live entries and is renamed over the swamp.        *)
(***************************************************************************)
EXTENDS Integers, Sequences, FiniteSets, TLC

CONSTANTS Keys,         \* positive integers
          EntryPoints,  \* names of the ways compaction is started
          NoCleanup,    \* entry points that (as built) never remove a leftover temp file
          Dev,          \* subset of {"StaleTempAppend"}
          MaxAppends, MaxRuns,  \* bounds for model checking (large for trace validation)
          StaleTemps    \* the temp files that may be lying around initially

VARIABLES main, temp,   \* the two files
          ref,          \* history variable: the map the accepted writes describe
          pc,           \* "idle" | "started" | "cleaned" | "opened" | "writing" | "synced" | "closed"
          ep,           \* entry point of the current run
          idx,          \* live index the run read from main
          todo,         \* keys still to be written to temp
          appends, runs,
          last          \* last action (observation only)

vars == <<main, temp, ref, pc, ep, idx, todo, appends, runs, last>>
view == <<main, temp, ref, pc, ep, idx, todo, appends, runs>>

TornHdr == <<0, 1>>
TornPay == <<0, 2>>
IsTorn(e) == e[1] = 0
NoFile == [ex |-> FALSE, hdr |-> 0, ents |-> <<>>, dur |-> -1]
NewFile == [ex |-> TRUE, hdr |-> 0, ents |-> <<>>, dur |-> -1]
Empty == [k \in Keys |-> 0]
ERR == [k \in Keys |-> -1]
Range(s) == {s[i] : i \in DOMAIN s}

\* replay of a sequence of entries on top of a map: last writer wins, delete removes
Apply(m, s) ==
  LET F[i \in 0..Len(s)] ==
        IF i = 0 THEN m ELSE [F[i - 1] EXCEPT ![s[i][1]] = s[i][2]]
  IN F[Len(s)]

\* what loading a file yields: a map, or ERR when the file cannot be read to its end
Load(f) ==
  IF ~f.ex THEN Empty
  ELSE IF f.hdr # 2 THEN ERR
  ELSE LET n == Len(f.ents)
           body == IF n > 0 /\ f.ents[n] = TornHdr THEN SubSeq(f.ents, 1, n - 1) ELSE f.ents
       IN IF \E i \in DOMAIN body : IsTorn(body[i]) THEN ERR ELSE Apply(Empty, body)

Live(m) == {k \in Keys : m[k] > 0}

\* what a power failure leaves of a file
PowerImg(f) ==
  IF ~f.ex THEN f
  ELSE IF f.dur < 0 THEN NewFile
  ELSE [f EXCEPT !.ents = SubSeq(f.ents, 1, f.dur)]

Obs(a) == [a |-> a, ep |-> ep]

-----------------------------------------------------------------------------
\* ordinary operation between compactions: the swamp appends entries (durably; C01/C02 cover the writer)
AppendMany(es) ==
  /\ pc = "idle"
  /\ main.hdr = 2 \/ ~main.ex
  /\ LET old == IF main.ex THEN main.ents ELSE <<>> IN
     main' = [ex |-> TRUE, hdr |-> 2, ents |-> old \o es, dur |-> Len(old) + Len(es)]
  /\ ref' = Apply(ref, es)
  /\ appends' = appends + Len(es)
  /\ last' = [a |-> "Append", ep |-> ""]
  /\ UNCHANGED <<temp, pc, ep, idx, todo, runs>>

\* a run begins: the entry point reads the live index of the swamp file
Start(e) ==
  /\ pc = "idle" /\ runs < MaxRuns
  /\ main.ex /\ Load(main) # ERR
  /\ pc' = "started" /\ ep' = e
  /\ idx' = Load(main) /\ todo' = Live(Load(main))
  /\ last' = [a |-> "Start", ep |-> e]
  /\ UNCHANGED <<main, temp, ref, appends, runs>>

EndRun == /\ pc' = "idle" /\ runs' = runs + 1 /\ UNCHANGED <<ref, ep, idx, todo, appends>>

\* thresholds not met: nothing is done
Skip ==
  /\ pc \in {"started", "cleaned"}
  /\ EndRun /\ last' = Obs("Skip")
  /\ UNCHANGED <<main, temp>>

\* a leftover temp file is removed (CleanupCompactionTemp / the os.Remove in CompactFromIndex)
CleanupTemp ==
  /\ pc \in {"started", "cleaned"}
  /\ temp' = NoFile /\ pc' = "cleaned"
  /\ last' = Obs("CleanupTemp")
  /\ UNCHANGED <<main, ref, ep, idx, todo, appends, runs>>

\* the temp file is created (only when there is none: NewFileWriterWithName creates iff absent)
OpenCreate ==
  /\ pc \in {"started", "cleaned"} /\ ~temp.ex
  /\ temp' = NewFile /\ pc' = "opened"
  /\ last' = Obs("OpenCreate")
  /\ UNCHANGED <<main, ref, ep, idx, todo, appends, runs>>

\* DEVIATION: an existing temp file is opened for appending (needs a complete 64-byte header)
OpenAppend ==
  /\ "StaleTempAppend" \in Dev /\ ep \in NoCleanup
  /\ pc = "started" /\ temp.ex /\ temp.hdr >= 1
  /\ pc' = "writing"
  /\ last' = Obs("OpenAppend")
  /\ UNCHANGED <<main, temp, ref, ep, idx, todo, appends, runs>>

\* header (h = 1) and swamp name (h = 2) of a new temp file
HeaderTemp(h) ==
  /\ pc = "opened" /\ h \in {1, 2} /\ h > temp.hdr
  /\ temp' = [temp EXCEPT !.hdr = h]
  /\ pc' = IF h = 2 THEN "writing" ELSE "opened"
  /\ last' = Obs("HeaderTemp")
  /\ UNCHANGED <<main, ref, ep, idx, todo, appends, runs>>

\* one block holding live entries es = <<k, idx[k]>>... of distinct keys not yet written (any order: the
\* code ranges over a Go map)
WriteTemp(es) ==
  /\ pc = "writing" /\ es # <<>>
  /\ \A i \in DOMAIN es : es[i][1] \in todo /\ es[i][2] = idx[es[i][1]]
  /\ \A i, j \in DOMAIN es : i # j => es[i][1] # es[j][1]
  /\ temp' = [temp EXCEPT !.ents = @ \o es]
  /\ todo' = todo \ {es[i][1] : i \in DOMAIN es}
  /\ last' = Obs("WriteTemp")
  /\ UNCHANGED <<main, ref, pc, ep, idx, appends, runs>>

\* (on an error path the writer is closed, hence synced, before the temp file is thrown away: a sync may
\* come while entries are still missing; only Rename insists on completeness)
SyncTemp ==
  /\ pc = "writing"
  /\ temp' = [temp EXCEPT !.dur = Len(temp.ents)]
  /\ pc' = "synced"
  /\ last' = Obs("SyncTemp")
  /\ UNCHANGED <<main, ref, ep, idx, todo, appends, runs>>

CloseTemp ==
  /\ pc = "synced" /\ pc' = "closed"
  /\ last' = Obs("CloseTemp")
  /\ UNCHANGED <<main, temp, ref, ep, idx, todo, appends, runs>>

\* the temp file atomically replaces the swamp file - only once it is complete, durable and closed
Rename ==
  /\ pc = "closed" /\ todo = {}
  /\ temp.dur = Len(temp.ents)
  /\ temp.hdr = 2 \/ "StaleTempAppend" \in Dev     \* (as built, a leftover with a broken header is appended to and renamed)
  /\ main' = temp /\ temp' = NoFile
  /\ EndRun /\ last' = Obs("Rename")

\* an error ends the run: the swamp file is not touched, the temp file is removed or left behind
Abort(keep) ==
  /\ pc # "idle"
  /\ temp' = IF keep THEN temp ELSE NoFile
  /\ EndRun /\ last' = Obs("Abort")
  /\ UNCHANGED main

\* the process dies (power = FALSE; a block being written stays as a torn tail of kind torn = 1, 2) or
\* the machine loses power (power = TRUE: every file falls back to its durable part)
Crash(power, torn) ==
  /\ pc # "idle" \/ last.a = "Rename"
  /\ torn \in 0..2 /\ (torn > 0 => (~power /\ pc = "writing"))
  /\ temp' = IF power THEN PowerImg(temp)
             ELSE IF torn > 0 THEN [temp EXCEPT !.ents = Append(@, <<0, torn>>)] ELSE temp
  /\ main' = IF power THEN PowerImg(main) ELSE main
  /\ pc' = "idle" /\ runs' = IF pc = "idle" THEN runs ELSE runs + 1
  /\ last' = Obs("Crash")
  /\ UNCHANGED <<ref, ep, idx, todo, appends>>

Entries == {<<k, v>> : k \in Keys, v \in 0..2}

Init ==
  /\ main = NoFile /\ temp \in StaleTemps /\ ref = Empty
  /\ pc = "idle" /\ ep = "" /\ idx = Empty /\ todo = {}
  /\ appends = 0 /\ runs = 0 /\ last = [a |-> "Init", ep |-> ""]

Next ==
  \/ \E e \in Entries : appends < MaxAppends /\ AppendMany(<<e>>)
  \/ \E e \in EntryPoints : Start(e)
  \/ Skip \/ CleanupTemp \/ OpenCreate \/ OpenAppend
  \/ \E h \in {1, 2} : HeaderTemp(h)
  \/ \E k \in todo : WriteTemp(<< <<k, idx[k]>> >>)
  \/ SyncTemp \/ CloseTemp \/ Rename
  \/ \E b \in BOOLEAN : Abort(b)
  \/ \E p \in BOOLEAN, t \in 0..2 : Crash(p, t)

Spec == Init /\ [][Next]_vars

-----------------------------------------------------------------------------
(* Properties (C03) *)

Preserved == Load(main) = ref

\* a completed, skipped or failed compaction leaves the live records and their values exactly as before
CompactionPreserves == last.a \in {"Rename", "Abort", "Skip"} => Preserved
\* a crash at any point of a compaction leaves the complete old or the complete new state (they are equal)
CrashAtomic == last.a = "Crash" => Preserved
\* ... and the swamp file is whole at every moment in between
IntactDuringRun == pc # "idle" => Preserved
\* design invariant of the strict spec: the temp file being built holds live entries only
TempOnlyLive ==
  pc \in {"writing", "synced", "closed"} =>
     \A i \in DOMAIN temp.ents : temp.ents[i][1] \in Keys /\ temp.ents[i][2] = idx[temp.ents[i][1]] /\ temp.ents[i][2] > 0
\* only a complete, durable temp file is ever renamed over the swamp
RenameOnlyDurable == last.a = "Rename" => main.hdr = 2 /\ main.dur = Len(main.ents)

Bounded == appends <= MaxAppends /\ runs <= MaxRuns
=============================================================================
