------------------------------ MODULE Corrupt ------------------------------
(***************************************************************************)
(* Damage taxonomy and allowed-outcome oracle for reading a storage file   *)
(* (C04):  app/core/hydra/swamp/chronicler/v2/reader.go, block.go,         *)
(* types.go.                                                               *)
(*                                                                         *)
(* A file has the shape [n, ver, named]: n blocks, format version 2 or 3,  *)
(* a swamp name behind the header or not.  A case is that shape plus one   *)
(* or two damages [w, b, v]:                                               *)
(*   w  where:  file header fields  magic | version | ignored | namelen,   *)
(*              name (the name bytes),                                     *)
(*              fields of block b    csize | usize | count | crc | flags,  *)
(*              payload (of block b),                                      *)
(*              reforge (block b rebuilt CONSISTENTLY - sizes and checksum *)
(*                recomputed - around a malformed entry stream: the stream *)
(*                cut inside a record, or a length field inside it forged  *)
(*                beyond the stream),                                      *)
(*              cuts (everything behind is gone)                           *)
(*                cutfh (inside the file header)  cutname (inside the name)*)
(*                cutstart (before block b)  cuthdr (inside b's header)    *)
(*                cuthdrend (b's header complete, no payload byte)         *)
(*                cutpay (inside b's payload),                             *)
(*              appendshort (< 16 trailing bytes)  appendlong (>= 16),     *)
(*              garbage (the whole file is random bytes),                  *)
(*              dup (block b once more at the end)  swap (b and b+1)       *)
(*   v  variant: version: "other" | "flip" (2<->3);  count: "less"|"more"; *)
(*               csize: "big" | "any";  reforge: "cutstream" | "biglen";    *)
(*               crc: "any" | "zero" | "ones" (the field set to a special   *)
(*               value a lenient reader might take for "no checksum");     *)
(*               payload: "any" | "literal" (a flip that leaves the        *)
(*               compressed stream decodable: only the checksum can tell); *)
(*               otherwise "any"                                           *)
(*                                                                         *)
(* Read(c) is the design-level reader evaluated on the damaged image,      *)
(* block by block like readNextBlock/ParseBlock/LoadIndex, and yields the  *)
(* SET of outcome classes the concrete bytes of that case may produce:     *)
(*   err     an error is reported                                          *)
(*   full    a map equal to the replay of everything written to the file   *)
(*   subset  some other map all of whose pairs were written to the file    *)
(* (never: misread, panic, hang, died).  Cost(c) says whether the reader   *)
(* may allocate out of proportion to the file ("huge").                    *)
(*                                                                         *)
(* Dev: "ForgedSizeAlloc" - the reader allocates CompressedSize bytes      *)
(*      before it knows that many bytes exist, so whenever it parses a     *)
(*      block header from damaged or misaligned bytes it may allocate up   *)
(*      to 4 GiB.                                                          *)
(***************************************************************************)
EXTENDS Integers, Sequences, FiniteSets, TLC

CONSTANTS MaxBlocks, Dev

Shapes == [n : 0..MaxBlocks, ver : {2, 3}, named : BOOLEAN]
Sound == {"err", "full", "subset"}

FileFields == {"magic", "version", "ignored", "namelen", "name"}
BlockFields == {"csize", "usize", "count", "crc", "flags", "payload", "reforge"}
BlockCuts == {"cutstart", "cuthdr", "cuthdrend", "cutpay"}
Cuts == {"cutfh", "cutname"} \cup BlockCuts

Variants(w) == CASE w = "version" -> {"other", "flip"}
                 [] w = "count" -> {"less", "more"}
                 [] w = "csize" -> {"big", "any"}
                 [] w = "reforge" -> {"cutstream", "biglen"}
                 [] w = "crc" -> {"any", "zero", "ones"}
                 [] w = "payload" -> {"any", "literal"}
                 [] OTHER -> {"any"}

\* the single damages that make sense for a shape
Damages(s) ==
     {[w |-> w, b |-> 0, v |-> v] : w \in {"magic", "version", "ignored", "namelen"}, v \in {"other", "flip", "any"}}
  \cup (IF s.named /\ s.ver = 3 THEN {[w |-> "name", b |-> 0, v |-> "any"], [w |-> "cutname", b |-> 0, v |-> "any"]} ELSE {})
  \cup {[w |-> w, b |-> b, v |-> v] : w \in BlockFields \cup BlockCuts, b \in 1..s.n, v \in {"less", "more", "big", "any", "cutstream", "biglen", "zero", "ones", "literal"}}
  \cup {[w |-> w, b |-> 0, v |-> "any"] : w \in {"cutfh", "appendshort", "appendlong", "garbage"}}
  \cup {[w |-> "dup", b |-> b, v |-> "any"] : b \in 1..s.n}
  \cup {[w |-> "swap", b |-> b, v |-> "any"] : b \in 1..(s.n - 1)}
WellFormed(d) == d.v \in Variants(d.w)
Single(s) == {d \in Damages(s) : WellFormed(d)}
Structural == {"dup", "swap", "garbage"}
\* two damages: both local (a structural rearrangement is only combined with nothing), different places
Pairs(s) == {<<d1, d2>> \in Single(s) \X Single(s) :
               /\ d1.w \notin Structural /\ d2.w \notin Structural
               /\ <<d1.w, d1.b>> # <<d2.w, d2.b>>
               /\ ~(d1.w \in Cuts /\ d2.w \in Cuts)}
Cases == {[s |-> s, ds |-> <<>>] : s \in Shapes}
   \cup UNION {{[s |-> s, ds |-> <<d>>] : d \in Single(s)} : s \in Shapes}
CasesUpTo2 == Cases \cup UNION {{[s |-> s, ds |-> p] : p \in Pairs(s)} : s \in Shapes}

-----------------------------------------------------------------------------
DS(c) == {c.ds[i] : i \in DOMAIN c.ds}
Has(c, w) == \E d \in DS(c) : d.w = w
HasB(c, w, b) == \E d \in DS(c) : d.w = w /\ d.b = b
HasV(c, w, b, v) == \E d \in DS(c) : d.w = w /\ d.b = b /\ d.v = v

\* how much of block b is present: "full" | "none" | "hdrpart" | "hdronly" | "paypart"
Presence(c, b) ==
  IF \E d \in DS(c) : d.w \in BlockCuts /\ d.b < b THEN "none"
  ELSE IF HasB(c, "cutstart", b) THEN "none"
  ELSE IF HasB(c, "cuthdr", b) THEN "hdrpart"
  ELSE IF HasB(c, "cuthdrend", b) THEN "hdronly"
  ELSE IF HasB(c, "cutpay", b) THEN "paypart"
  ELSE "full"

HdrDamaged(c, b) == \E w \in {"csize", "usize", "count", "crc", "flags", "reforge"} : HasB(c, w, b)
\* the block parser starts at the wrong offset
VersionFlip(c) == \E d \in DS(c) : d.w = "version" /\ d.v = "flip"
Misaligned(c) == \/ Has(c, "namelen")
                 \/ (VersionFlip(c) /\ c.s.named /\ c.s.ver = 3)
                 \* a version-2 header read as version 3 takes two formerly ignored bytes for the name length
                 \/ (VersionFlip(c) /\ c.s.ver = 2 /\ Has(c, "ignored"))
HasTail(c) == Has(c, "appendshort") \/ Has(c, "appendlong")
\* a cut inside the file header or the name that is filled up again (appended bytes), or whose remainder is read
\* differently (version flip, changed name length): the header may parse, what follows is arbitrary
Mangled(c) == \/ (Has(c, "cutfh") /\ HasTail(c))
              \/ (Has(c, "cutname") /\ (HasTail(c) \/ VersionFlip(c) \/ Has(c, "namelen")))
HeaderRefused(c) == \/ Has(c, "garbage") \/ Has(c, "magic") \/ (\E d \in DS(c) : d.w = "version" /\ d.v = "other")
                    \/ ((Has(c, "cutfh") \/ Has(c, "cutname")) /\ ~Mangled(c))

\* reading the blocks in order: <<status, lossy>>; status "go" | "stop" | "err" | "any"
Step(c, st, b) ==
  IF st[1] # "go" THEN st
  ELSE LET p == Presence(c, b) IN
       CASE p = "none" -> <<"stop", TRUE>>
         [] p = "hdrpart" -> <<"stop", TRUE>>          \* fewer than 16 bytes: taken for the end of the file
         [] p = "hdronly" -> IF HdrDamaged(c, b) THEN <<"any", TRUE>> ELSE <<"stop", TRUE>>
         [] p = "paypart" -> <<"err", st[2]>>           \* unexpected EOF inside the payload
         [] OTHER ->
              \* a malformed stream behind the records that a lowered count still parses may go unnoticed
              IF HasB(c, "reforge", b) /\ HasV(c, "count", b, "less")
                 /\ ~(HasB(c, "csize", b) \/ HasB(c, "usize", b) \/ HasB(c, "crc", b) \/ HasB(c, "payload", b))
              THEN <<"any", TRUE>>
              ELSE
              IF \/ HasB(c, "csize", b) \/ HasB(c, "usize", b) \/ HasB(c, "crc", b) \/ HasB(c, "payload", b)
                 \/ HasV(c, "count", b, "more") \/ HasB(c, "reforge", b)
              THEN <<"err", st[2]>>                     \* size / checksum / length mismatch / malformed entry
              ELSE IF HasV(c, "count", b, "less") THEN <<"go", TRUE>>   \* trailing entries of the block are not parsed
              ELSE st
Blocks(c) ==
  LET F[b \in 0..c.s.n] == IF b = 0 THEN <<"go", FALSE>> ELSE Step(c, F[b - 1], b)
  IN F[c.s.n]

\* damages the reader need not (but may) notice: nothing it decodes records from
Harmless(c) == \E d \in DS(c) : d.w \in {"ignored", "name", "flags"} \/ (d.w = "version" /\ d.v = "flip" /\ ~Misaligned(c))

Read(c) ==
  IF HeaderRefused(c) THEN {"err"}
  ELSE IF Mangled(c) \/ Misaligned(c) THEN Sound
  ELSE LET r == Blocks(c)
           lossy == r[2] \/ Has(c, "dup") \/ Has(c, "swap")
           maps == IF lossy THEN {"subset", "full"} ELSE {"full"}
           tail == HasTail(c)
       IN CASE r[1] = "err" -> {"err"}
            [] r[1] = "any" -> Sound
            \* bytes appended behind a cut continue the cut block: whatever they are parsed as
            [] r[1] = "stop" /\ tail -> Sound
            [] OTHER -> maps \cup (IF Has(c, "appendlong") THEN {"err"} ELSE {})
                             \cup (IF Harmless(c) THEN {"err"} ELSE {})

\* does the reader parse a block header out of bytes that are not an intact header at its place?
ParsesForeignHeader(c) ==
  /\ ~HeaderRefused(c)
  /\ \/ Misaligned(c) \/ Mangled(c)
     \/ \E b \in 1..c.s.n : HasB(c, "csize", b) /\ Presence(c, b) \in {"full", "hdronly", "paypart"}
     \/ (Has(c, "appendlong") /\ Blocks(c)[1] \in {"go", "stop"})
     \/ (Has(c, "appendshort") /\ Blocks(c)[1] = "stop")
CostWith(D, c) == IF "ForgedSizeAlloc" \in D /\ ParsesForeignHeader(c) THEN {"ok", "huge"} ELSE {"ok"}
Cost(c) == CostWith(Dev, c)

-----------------------------------------------------------------------------
(* the taxonomy as a (trivial) state machine, so that TLC enumerates it *)
VARIABLES case, result
vars == <<case, result>>
Init == case \in CasesUpTo2 /\ result = "unread"
DoRead == result = "unread" /\ result' \in Read(case) /\ UNCHANGED case
Next == DoRead
Spec == Init /\ [][Next]_vars

(* Properties (C04) *)
\* reports the damage, or returns only records that were written to that file
ReadSound == Read(case) \subseteq Sound /\ Read(case) # {}
\* an intact file reads completely
IntactReadsFull == case.ds = <<>> => Read(case) = {"full"}
\* damage to a payload or a checksum that the reader reaches is always reported
PayloadCrcAlwaysErr ==
  (\E b \in 1..case.s.n : (HasB(case, "payload", b) \/ HasB(case, "crc", b)) /\ Presence(case, b) = "full"
                           /\ \A j \in 1..(b - 1) : Presence(case, j) = "full")
  /\ ~Misaligned(case) /\ ~Mangled(case) /\ ~HeaderRefused(case)
  => Read(case) = {"err"}
\* memory in proportion to the file
ReadBounded == Cost(case) = {"ok"}
=============================================================================
