------------------------------- MODULE Events -------------------------------
(***************************************************************************)
(* C19 - subscribers get each committed change once, in order, with the    *)
(* right time (Gateway.SubscribeToEvents, swamp.sendEventToHydra /         *)
(* sendDeletedEventToClient, hydra.eventCallbackFunction).                 *)
(*                                                                         *)
(* Writers call write RPCs on one swamp; subscribers hold an event stream. *)
(* A call is  Call -> Commit -> sends -> Ret.  Commit applies the          *)
(* operation to the store under the record's guard and decides the kind of *)
(* change ("new", "modified", "deleted", or "none" for a save that changes *)
(* nothing, a delete of an absent key, a read); a change owes one event to *)
(* every subscriber that is subscribed at the commit.  The guard of the    *)
(* record is held until the owed events have been handed to the streams,   *)
(* so the events of one record reach every stream in commit order.  A send *)
(* on a stream is SendBegin ... SendEnd; gRPC forbids two sends in flight  *)
(* on one stream.  The event carries the committed value and the time of   *)
(* the change, which lies between the call and the return of the           *)
(* committing request (times are ranks / a logical clock).                 *)
(*                                                                         *)
(* Everything is written as pure operators over a state RECORD `st`, each  *)
(* returning the SET of possible next states (empty = not allowed).  The   *)
(* model checker (MC_Events) steps one variable through them; the trace    *)
(* checker (Trace_Events) carries the set of states that explain the lines *)
(* read so far, so one TLC run judges every line of every history.         *)
(*                                                                         *)
(* Named deviations of the code from the strict design (the operators that  *)
(* depend on them take the set `dev` as their first argument; the model      *)
(* checker passes the constant Dev, the trace checker evaluates every subset *)
(* of the open deviations side by side):                                     *)
(*   "NoopEvent"          a save that changes nothing is reported UPDATED  *)
(*                        and emits an event (change flags of a record are *)
(*                        never cleared)                                   *)
(*   "ConcurrentSend"     events are sent from the writers' goroutines:    *)
(*                        a send may begin while another one is in flight  *)
(*                        on the same stream                               *)
(*   "TimeNanosAsSeconds" the event time is built from the nanosecond      *)
(*                        count as if it were seconds                      *)
(*   "DeleteUnguarded"    a delete removes the record from the key index   *)
(*                        and only then sends its event, holding the guard *)
(*                        of the removed object: a request that re-creates *)
(*                        the key is not ordered behind that send (its     *)
(*                        event can meet or overtake the delete event)     *)
(***************************************************************************)
EXTENDS Integers, Sequences, FiniteSets, TLC

CONSTANTS Keys, Writers, Subs, Dev

Absent == 0
NoOp == [op |-> "none", k |-> 0, v |-> 0]

IdleW == [ph |-> "idle", op |-> "none", k |-> 0, v |-> 0, kind |-> "none", val |-> 0, old |-> 0,
          owed |-> {}, sending |-> {}, tc |-> 0, tcm |-> 0, ets |-> {}]

Init0 ==
  [store |-> [k \in Keys |-> Absent],
   subs |-> {},
   pend |-> [w \in Writers |-> IdleW],
   infl |-> [s \in Subs |-> 0],
   now |-> 0,
   hist |-> FALSE, commits |-> <<>>, recv |-> [s \in Subs |-> <<>>]]

-----------------------------------------------------------------------------
(* what an operation does to a record holding `cur` (0 = absent): <<kind, new value, event value>> *)
Effect(dev, op, cur, v) ==
  CASE op = "set"   -> IF cur = Absent THEN <<"new", v, v>>
                       ELSE IF cur = v /\ "NoopEvent" \notin dev THEN <<"none", cur, 0>>
                       ELSE <<"modified", v, v>>
    [] op = "setnx" -> IF cur = Absent THEN <<"new", v, v>> ELSE <<"none", cur, 0>>
    [] op = "patch" -> IF cur = Absent THEN <<"new", v, v>>       \* CreateIfNotExist
                       ELSE IF cur = v /\ "NoopEvent" \notin dev THEN <<"none", cur, 0>>
                       ELSE <<"modified", v, v>>
    [] op = "inc"   -> IF cur = Absent THEN <<"new", v, v>> ELSE <<"modified", cur + v, cur + v>>
    [] op \in {"del", "shift"} -> IF cur = Absent THEN <<"none", cur, 0>> ELSE <<"deleted", Absent, cur>>
    [] OTHER -> <<"none", cur, 0>>          \* reads

Tick(st) == [st EXCEPT !.now = st.now + 1]

DoSub(st, s) == IF s \in st.subs THEN {} ELSE {[st EXCEPT !.subs = st.subs \cup {s}]}

\* leaving ends what the stream is owed (history: the pending commits no longer count it)
DoUnsub(st, s) ==
  IF s \notin st.subs THEN {}
  ELSE LET last(i) == \A j \in DOMAIN st.commits : j > i => st.commits[j].w # st.commits[i].w
           cm == [i \in DOMAIN st.commits |->
                    IF last(i) /\ s \in st.pend[st.commits[i].w].owed
                      THEN [st.commits[i] EXCEPT !.subs = st.commits[i].subs \ {s}] ELSE st.commits[i]]
       IN {[st EXCEPT !.subs = st.subs \ {s},
                      !.commits = IF st.hist THEN cm ELSE st.commits,
                      !.pend = [w \in Writers |-> [st.pend[w] EXCEPT !.owed = st.pend[w].owed \ {s}]]]}

DoCall(st, w, op, k, v, t) ==
  IF st.pend[w].ph # "idle" THEN {}
  ELSE {[st EXCEPT !.pend[w] = [IdleW EXCEPT !.ph = "called", !.op = op, !.k = k, !.v = v, !.tc = t]]}

\* the record's guard: nobody else is between its commit and the end of its sends on this record
GuardFree(dev, st, w) ==
  \A w2 \in Writers \ {w} :
    (st.pend[w2].ph = "committed" /\ st.pend[w2].k = st.pend[w].k
       /\ ~("DeleteUnguarded" \in dev /\ st.pend[w2].kind = "deleted")) =>
       (st.pend[w2].owed = {} /\ st.pend[w2].sending = {})

DoCommit(dev, st, w) ==
  LET p == st.pend[w] IN
  IF p.ph # "called" \/ ~GuardFree(dev, st, w) THEN {}
  ELSE LET reads == p.k = 0
           cur == IF reads THEN Absent ELSE st.store[p.k]
           e == Effect(dev, p.op, cur, p.v)
           owed == IF e[1] = "none" THEN {} ELSE st.subs
           st1 == IF reads THEN st ELSE [st EXCEPT !.store[p.k] = e[2]]
           st2 == [st1 EXCEPT !.pend[w] = [p EXCEPT !.ph = "committed", !.kind = e[1], !.val = e[3], !.old = cur, !.owed = owed, !.tcm = st.now]]
       IN {IF st.hist
             THEN [st2 EXCEPT !.commits = Append(st.commits, [w |-> w, k |-> p.k, kind |-> e[1], val |-> e[3], old |-> cur,
                                                              new |-> e[2], subs |-> owed, t |-> st.now])]
             ELSE st2}

\* msg = [k, kind, val, et, etn]: what the stream was handed.  et = the event time, etn = the seconds field of the
\* event time read as nanoseconds (what it would be under TimeNanosAsSeconds); the lower bound is checked here,
\* the upper bound at the return
DoSendBegin(dev, st, w, s, msg) ==
  LET p == st.pend[w]
      t == IF "TimeNanosAsSeconds" \in dev THEN msg.etn ELSE msg.et
  IN IF /\ p.ph = "committed" /\ s \in p.owed
        /\ msg.k = p.k /\ msg.kind = p.kind /\ msg.val = p.val
        /\ p.tc <= t
        /\ (st.infl[s] = 0 \/ "ConcurrentSend" \in dev)
       THEN {[st EXCEPT !.pend[w] = [p EXCEPT !.owed = p.owed \ {s}, !.sending = p.sending \cup {s}, !.ets = p.ets \cup {t}],
                        !.infl[s] = st.infl[s] + 1,
                        !.recv[s] = IF st.hist THEN Append(st.recv[s], [w |-> w, k |-> msg.k, kind |-> msg.kind, val |-> msg.val, t |-> msg.et])
                                    ELSE st.recv[s]]}
       ELSE {}

DoSendEnd(st, w, s) ==
  IF s \in st.pend[w].sending
    THEN {[st EXCEPT !.pend[w].sending = st.pend[w].sending \ {s}, !.infl[s] = st.infl[s] - 1]}
    ELSE {}

StatusOf(op, kind) ==
  CASE kind = "new" -> "NEW"
    [] kind = "modified" -> "UPDATED"
    [] kind = "deleted" -> "DELETED"
    [] OTHER -> "NONE"

\* the request returns: every owed event has been sent, the reported status is the kind of the change and the
\* event times are not later than the return
DoRet(st, w, status, t) ==
  LET p == st.pend[w] IN
  IF /\ p.ph = "committed" /\ p.owed = {} /\ p.sending = {}
     /\ status = StatusOf(p.op, p.kind)
     /\ \A e \in p.ets : e <= t
    THEN {[st EXCEPT !.pend[w] = IdleW]}
    ELSE {}

-----------------------------------------------------------------------------
(* properties, over the history fields (model checking) *)

SendsSerial(st) == \A s \in Subs : st.infl[s] <= 1

\* only real changes are announced
OnlyChanges(st) ==
  \A i \in DOMAIN st.commits :
    LET c == st.commits[i] IN
      c.kind # "none" => CASE c.kind = "new" -> c.old = Absent /\ c.new # Absent
                           [] c.kind = "modified" -> c.old # Absent /\ c.new # Absent /\ c.old # c.new
                           [] c.kind = "deleted" -> c.old # Absent /\ c.new = Absent
                           [] OTHER -> FALSE

\* every event a stream got is the event of a commit that owed it one, at most once, with the committed value
Matches(c, e) == c.w = e.w /\ c.k = e.k /\ c.kind = e.kind /\ c.val = e.val
NoSpuriousNoDuplicate(st) ==
  \A s \in Subs :
    \E f \in [DOMAIN st.recv[s] -> DOMAIN st.commits] :
      /\ \A i, j \in DOMAIN st.recv[s] : i # j => f[i] # f[j]
      /\ \A i \in DOMAIN st.recv[s] : Matches(st.commits[f[i]], st.recv[s][i]) /\ s \in st.commits[f[i]].subs
      \* events of one record arrive in commit order
      /\ \A i, j \in DOMAIN st.recv[s] : (i < j /\ st.recv[s][i].k = st.recv[s][j].k) => f[i] < f[j]

\* a request that has returned left nothing owed: with NoSpuriousNoDuplicate this is "exactly once"
\* (checked on the step in MC_Events: DoRet requires owed = {})

\* the time of an event is inside the window of its request (logical clock)
TimeInWindow(st) ==
  \A s \in Subs : \A i \in DOMAIN st.recv[s] :
    \E j \in DOMAIN st.commits : Matches(st.commits[j], st.recv[s][i]) /\ st.recv[s][i].t = st.commits[j].t
=============================================================================
