--------------------------- MODULE Explain_Lifecycle ---------------------------
(* "Does the as-built specification explain that very execution?"  A recorded round (two client calls, their
   results, their real-time order, the initial keys, stop or not, and the state read back) that contradicts the
   strict specification is looked up in the as-built one (Dev = deviations of the OPEN findings): TLC searches
   for a complete behaviour with exactly this history and final state and prints the deviations that made the
   difference in it.  No such behaviour = the execution is not explained by any known finding. *)
EXTENDS MC_Lifecycle, Json, IOUtils

VARIABLE ord      \* real-time order of calls and replies: "c:r1", "r:r1", ...
evars == <<vars, ord>>
eview == <<view, ord>>

E == IOEnv
WantOp(r) == IF r = "r1" THEN [op |-> E.EXP_OP1, k |-> E.EXP_K1] ELSE [op |-> E.EXP_OP2, k |-> E.EXP_K2]
ExpMenu == {WantOp("r1"), WantOp("r2")}
WantRes == [r \in Reqs |-> IF r = "r1" THEN E.EXP_RES1 ELSE E.EXP_RES2]
WantFile == [k \in Keys |-> IF k = "k1" THEN E.EXP_F1 ELSE E.EXP_F2]
\* "c:r1,c:r2,r:r2,r:r1" as a sequence of 4 tokens of 4 characters
WantOrd == LET s == E.EXP_ORD IN <<SubSeq(s, 1, 4), SubSeq(s, 6, 9), SubSeq(s, 11, 14), SubSeq(s, 16, 19)>>

EInit == Init /\ ord = <<>>
ENext ==
  /\ Next
  /\ LET called == {r \in Reqs : pc[r] = "idle" /\ pc'[r] # "idle"}
         done   == {r \in Reqs : pc[r] # "done" /\ pc'[r] = "done"}
         cs == IF called = {} THEN <<>> ELSE <<"c:" \o (CHOOSE r \in called : TRUE)>>
         ds == IF done = {} THEN <<>> ELSE <<"r:" \o (CHOOSE r \in done : TRUE)>>
     IN ord' = ord \o cs \o ds
  \* only the recorded operations, by the recorded requests, in the recorded order
  /\ \A r \in Reqs : pc'[r] # "idle" => op'[r] = WantOp(r)
  /\ Len(ord') <= 4 /\ SubSeq(WantOrd, 1, Len(ord')) = ord'
ESpec == EInit /\ [][ENext]_evars

NoExplanation ==
  ~(/\ Terminal /\ res = WantRes /\ file = WantFile /\ ord = WantOrd
    /\ PrintT(ToJson([explained |-> TRUE, used |-> used])))
=============================================================================
