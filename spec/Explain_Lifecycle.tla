--------------------------- MODULE Explain_Lifecycle ---------------------------
(* "Does the as-built specification explain that very execution?"  A recorded round (two client calls, their
   results, their real-time order, the initial keys, stop or not, and the state read back) that contradicts the
   strict specification is looked up in the as-built one (Dev = deviations of the OPEN findings): TLC searches
   for a complete behaviour with exactly this history and final state and prints the deviations that made the
   difference in it.  No such behaviour = the execution is not explained by any known finding. *)
EXTENDS MC_Lifecycle, Json, IOUtils

E == IOEnv
WantOp(r) == IF r = "r1" THEN [op |-> E.EXP_OP1, k |-> E.EXP_K1] ELSE [op |-> E.EXP_OP2, k |-> E.EXP_K2]
ExpMenu == {WantOp("r1"), WantOp("r2")}
\* replies: "ok" (acknowledged with effect) or "noeffect" (refused / swamp or key not found)
WantRes == [r \in Reqs |-> IF r = "r1" THEN E.EXP_RES1 ELSE E.EXP_RES2]
WantFile == [k \in Keys |-> IF k = "k1" THEN E.EXP_F1 ELSE E.EXP_F2]
\* recorded real-time precedence: "r1r2" = r1 had returned before r2 was called, "r2r1", or "conc" (they overlapped).
\* A recorded precedence must hold in the behaviour; an overlap constrains nothing (the specification places the
\* call at the moment SummonSwamp acts, which may be long after the client called).
RecOrd == E.EXP_ORD

ENext ==
  /\ Next
  /\ \A r \in Reqs : pc'[r] # "idle" => op'[r] = WantOp(r)
  /\ (RecOrd = "r1r2" /\ pc["r2"] = "idle" /\ pc'["r2"] # "idle") => pc["r1"] = "done"
  /\ (RecOrd = "r2r1" /\ pc["r1"] = "idle" /\ pc'["r1"] # "idle") => pc["r2"] = "done"
ESpec == Init /\ [][ENext]_vars

NoExplanation ==
  ~(/\ Terminal /\ [r \in Reqs |-> IF res[r] = "ok" THEN "ok" ELSE "noeffect"] = WantRes /\ file = WantFile
    /\ PrintT(ToJson([explained |-> TRUE, used |-> used])))
=============================================================================
