------------------------------- MODULE Filter -------------------------------
(***************************************************************************)
(* Streamed filtered reads of one swamp (property C08).                    *)
(*                                                                         *)
(* GetByIndexStream answers a query either by the legacy beacon walk       *)
(* ("scan" route: time window -> sort -> From/Limit -> filter -> labels -> *)
(* MaxResults) or, when the planner finds an indexable Equal/IN leg,       *)
(* through the auto-built field bucket ("bucket" route).  The              *)
(* documentation promises that the bucket route is a pure optimisation:    *)
(* same records, same order (up to ties), same match labels, and that      *)
(* Equal / IN on body fields follow the one canonical equality of package  *)
(* valuecanon on both routes.                                              *)
(*                                                                         *)
(* This module is a specification-as-oracle (binding C): everything is a   *)
(* constant-level operator over an abstract value domain.                  *)
(*                                                                         *)
(*   Canon / CanonEq            transcription of valuecanon                *)
(*   ScanExt / BucketExt        path navigation of filter.go / bucket.go   *)
(*   EvalLeg / EvalGroup        the per-record evaluator (filter_native.go)*)
(*   Plan                       bucket_planner.go PlanFilter               *)
(*   ScanAnswers                the legacy semantics = the property's      *)
(*                              reference answer  Answer(contents, q)      *)
(*   BucketAnswers              planner + bucket_exec.go + gateway.go      *)
(*                                                                         *)
(* dv (a set of names) switches the confirmed deviations of the code from  *)
(* the strict design on; with dv = {} both routes are the strict design    *)
(* and RoutesAgree holds (checked exhaustively by MC_Filter):              *)
(*                                                                         *)
(*  evaluator (acts on the scan route and on residual legs of the bucket   *)
(*  route):                                                                *)
(*   "FloatTruncScan"     Equal/IN with an integer reference truncates a   *)
(*                        float field: 5.5 = 5                             *)
(*   "TimeFieldScan"      a time field equals an int reference (seconds)   *)
(*                        but never a uint / float reference               *)
(*   "WildcardCmpKinds"   on a [*] path Equal ignores Int16 / Uint* /      *)
(*                        Float32 references                               *)
(*  bucket route:                                                          *)
(*   "PageAfterFilter"    From/Limit are applied to the bucket candidates  *)
(*                        (after the indexed leg) instead of the index     *)
(*   "WildcardLenPlanned" legs on [*] / #len paths are planned as bucket   *)
(*                        lookups of a literal field name -> no candidates *)
(*   "IndexedLegLabelDropped"  labels of the leg(s) consumed by the plan   *)
(*                        are never reported                               *)
(*   "TimeWindowOnKeyIndex"    FromTime/ToTime are applied (against time   *)
(*                        0) although the KEY index ignores them           *)
(*   "ZeroTimeOnTimeIndex"     records without the index's timestamp are   *)
(*                        returned although they are not in that index     *)
(*   "RawBodyIndexed"     a msgpack body without the SDK's 2-byte magic    *)
(*                        prefix is invisible to the evaluator but indexed *)
(*                        by the bucket                                    *)
(*                                                                         *)
(* Numbers: ints as themselves, floats in tenths (55 = 5.5), times in      *)
(* seconds, metadata timestamps and time windows as small ranks (0 = not   *)
(* set).  TLC has no reals and 32-bit ints.                                *)
(***************************************************************************)
EXTENDS Integers, Sequences, FiniteSets, TLC

AllDevs == {"FloatTruncScan", "TimeFieldScan", "WildcardCmpKinds", "PageAfterFilter", "WildcardLenPlanned",
            "IndexedLegLabelDropped", "TimeWindowOnKeyIndex", "ZeroTimeOnTimeIndex", "RawBodyIndexed"}

-----------------------------------------------------------------------------
(* Values.  One record shape for every value so that TLC can compare them:  *)
(*   k kind, n number, s string, e elements (array) / entries (map),       *)
(*   f the entry's field name when the value sits in a map.                *)
Val(k, n, s, e, f) == [k |-> k, n |-> n, s |-> s, e |-> e, f |-> f]
VInt(n)    == Val("int", n, "", <<>>, "")
VUint(n)   == Val("uint", n, "", <<>>, "")
VFloat(t)  == Val("float", t, "", <<>>, "")         \* t in tenths
VBool(b)   == Val("bool", IF b THEN 1 ELSE 0, "", <<>>, "")
VStr(s)    == Val("string", 0, s, <<>>, "")
VTime(sec) == Val("time", sec, "", <<>>, "")
VNil       == Val("nil", 0, "", <<>>, "")           \* explicit nil, and the evaluator's Go nil
VMissing   == Val("missing", 0, "", <<>>, "")       \* field not present in the map
VArr(es)   == Val("array", 0, "", es, "")
VMap(es)   == Val("map", 0, "", es, "")
Named(name, v) == [v EXCEPT !.f = name]
\* reference values of filters (TreasureFilter.CompareValue / *InVals)
CInt(n) == VInt(n)
CInt16(n) == Val("int16", n, "", <<>>, "")
CUint(n) == VUint(n)
CFloat(t) == VFloat(t)
CFloat32(t) == Val("float32", t, "", <<>>, "")

Present(m) == {i \in DOMAIN m.e : m.e[i].k # "missing"}
Lookup(m, name) ==
  LET idx == {i \in Present(m) : m.e[i].f = name}
  IN IF m.k # "map" \/ idx = {} THEN VNil ELSE m.e[CHOOSE i \in idx : TRUE]

-----------------------------------------------------------------------------
(* valuecanon.Canonicalize / Equal *)
Canon(v) ==
  CASE v.k \in {"int", "int16", "time"} -> [ck |-> "i", n |-> v.n, s |-> ""]
    [] v.k = "uint"                     -> [ck |-> "u", n |-> v.n, s |-> ""]
    [] v.k \in {"float", "float32"}     -> [ck |-> "f", n |-> v.n, s |-> ""]
    [] v.k = "bool"                     -> [ck |-> "b", n |-> v.n, s |-> ""]
    [] v.k = "string"                   -> [ck |-> "s", n |-> 0, s |-> v.s]
    [] OTHER                            -> [ck |-> "null", n |-> 0, s |-> ""]
IsNum(c) == c.ck \in {"i", "u", "f"}
Tenths(c) == IF c.ck = "f" THEN c.n ELSE 10 * c.n
CanonEq(a, b) ==
  IF a.ck = b.ck THEN a = b
  ELSE IF ~IsNum(a) \/ ~IsNum(b) THEN FALSE
  ELSE IF a.ck = "f" \/ b.ck = "f" THEN Tenths(a) = Tenths(b)      \* lossless in this domain
  ELSE IF a.ck = "i" THEN a.n >= 0 /\ a.n = b.n
  ELSE b.n >= 0 /\ a.n = b.n

-----------------------------------------------------------------------------
(* Paths: sequences of segments [n |-> name, t |-> "f" | "w" | "len"]        *)
(*   "f" plain field, "w" name[*], "len" the pseudo field #len.            *)
Seg(n, t) == [n |-> n, t |-> t]
SimplePath(p) == \A i \in DOMAIN p : p[i].t = "f"

Single(v) == [any |-> FALSE, vals |-> <<v>>]
RECURSIVE Flatten(_)
Flatten(ss) == IF ss = <<>> THEN <<>> ELSE Head(ss) \o Flatten(Tail(ss))

\* filter.go extractFieldByPath (a second [*] below the first is not modelled: never generated)
RECURSIVE ScanExt(_, _, _)
ScanExt(cur, p, i) ==
  IF i > Len(p) THEN Single(cur)
  ELSE LET sg == p[i] IN
    CASE sg.t = "len" ->
           Single(IF cur.k \in {"array", "map"} THEN VInt(Cardinality(Present(cur))) ELSE VNil)
      [] sg.t = "w" ->
           LET c2 == IF sg.n # "" THEN Lookup(cur, sg.n) ELSE cur IN
           IF c2.k # "array" THEN Single(VNil)
           ELSE IF i = Len(p) THEN [any |-> TRUE, vals |-> c2.e]
           ELSE [any |-> TRUE,
                 vals |-> Flatten([j \in DOMAIN c2.e |->
                            IF c2.e[j].k # "map" THEN <<>>
                            ELSE LET r == ScanExt(c2.e[j], p, i + 1) IN
                                 IF ~r.any /\ r.vals[1].k # "nil" THEN <<r.vals[1]>> ELSE <<>>])]
      [] OTHER -> IF cur.k # "map" THEN Single(VNil) ELSE ScanExt(Lookup(cur, sg.n), p, i + 1)

\* bucket.go extractFieldByPath: dotted path only, "a[*]" and "#len" are literal (absent) field names
RECURSIVE BucketExt(_, _, _)
BucketExt(cur, p, i) ==
  IF i > Len(p) THEN cur
  ELSE IF p[i].t # "f" \/ cur.k # "map" THEN VNil
  ELSE BucketExt(Lookup(cur, p[i].n), p, i + 1)

-----------------------------------------------------------------------------
(* Legs: [p, op, cv, in, label]                                             *)
(*   op: "EQ" "SIN" "I32IN" "I64IN" (indexable)  "NE" "GT" "GE" "LT" "LE"   *)
(*       "EMPTY" "NEMPTY" (residual only)                                   *)
InOps == {"SIN", "I32IN", "I64IN"}
EqOps == {"EQ"} \cup InOps

TruncDiv10(t) == IF t >= 0 THEN t \div 10 ELSE -((-t) \div 10)
Ok(n) == [ok |-> TRUE, n |-> n]
Fail == [ok |-> FALSE, n |-> 0]
ToI(v) == CASE v.k \in {"int", "uint", "time"} -> Ok(v.n)
            [] v.k = "float" -> Ok(TruncDiv10(v.n))
            [] OTHER -> Fail
ToU(v) == CASE v.k = "uint" -> Ok(v.n)
            [] v.k = "int" -> IF v.n >= 0 THEN Ok(v.n) ELSE Fail
            [] v.k = "float" -> Ok(TruncDiv10(v.n))        \* floats > -1.0 only in the domain
            [] OTHER -> Fail
ToF(v) == CASE v.k = "float" -> Ok(v.n)
            [] v.k \in {"int", "uint"} -> Ok(10 * v.n)
            [] OTHER -> Fail
Cmp(a, op, b) == CASE op = "EQ" -> a = b [] op = "NE" -> a # b [] op = "GT" -> a > b
                   [] op = "GE" -> a >= b [] op = "LT" -> a < b [] op = "LE" -> a <= b [] OTHER -> FALSE

\* the typed switch at the end of evaluateBytesFieldFilterAgainstMap (fv is not nil)
TypedCmp(fv, op, cv) ==
  CASE cv.k \in {"int", "int16"}     -> ToI(fv).ok /\ Cmp(ToI(fv).n, op, cv.n)
    [] cv.k = "uint"                  -> ToU(fv).ok /\ Cmp(ToU(fv).n, op, cv.n)
    [] cv.k \in {"float", "float32"}  -> ToF(fv).ok /\ Cmp(ToF(fv).n, op, cv.n)
    [] cv.k = "string"                -> fv.k = "string" /\ (IF op = "EQ" THEN fv.s = cv.s ELSE op = "NE" /\ fv.s # cv.s)
    [] cv.k = "bool"                  -> fv.k = "bool" /\ op \in {"EQ", "NE"} /\ Cmp(fv.n, op, cv.n)
    [] OTHER -> FALSE
StringIn(fv, in) == fv.k = "string" /\ \E j \in DOMAIN in : in[j].s = fv.s
IntIn(fv, in) == ToI(fv).ok /\ \E j \in DOMAIN in : in[j].n = ToI(fv).n
IsEmptyVal(v) == v.k = "nil" \/ (v.k = "string" /\ v.s = "")

\* as built: equality of one extracted value with a reference
BuiltEq(fv, cv) == fv.k # "nil" /\ TypedCmp(fv, "EQ", cv)
BuiltIn(fv, op, in) == IF op = "SIN" THEN StringIn(fv, in) ELSE IntIn(fv, in)
\* strict: the canonical rule
StrictEq(fv, cv) == CanonEq(Canon(fv), Canon(cv))
StrictIn(fv, op, in) == \E j \in DOMAIN in : CanonEq(Canon(fv), Canon(in[j]))
\* a value on which the as-built evaluator may leave the canonical rule, per named deviation
Deviates(fv, dv) == (fv.k = "float" /\ "FloatTruncScan" \in dv) \/ (fv.k = "time" /\ "TimeFieldScan" \in dv)
Eq(fv, cv, dv) == IF Deviates(fv, dv) THEN BuiltEq(fv, cv) ELSE StrictEq(fv, cv)
In(fv, op, in, dv) == IF Deviates(fv, dv) THEN BuiltIn(fv, op, in) ELSE StrictIn(fv, op, in)

\* filter.go evaluateAnyMatch: reference kinds handled on a [*] path
AnyKinds == {"string", "int", "bool", "float"}
AnyMatch(vals, l, dv) ==
  LET I == DOMAIN vals IN
  IF vals = <<>> THEN l.op = "EMPTY"
  ELSE CASE l.op = "NEMPTY" -> \E j \in I : ~IsEmptyVal(vals[j])
         [] l.op = "EMPTY"  -> \A j \in I : IsEmptyVal(vals[j])
         [] l.op \in InOps  -> \E j \in I : In(vals[j], l.op, l.in, dv)
         [] l.op = "EQ"     -> IF l.cv.k \notin AnyKinds /\ "WildcardCmpKinds" \in dv THEN FALSE
                               ELSE \E j \in I : Eq(vals[j], l.cv, dv)
         [] OTHER           -> l.cv.k \in AnyKinds /\ \E j \in I : vals[j].k # "nil" /\ TypedCmp(vals[j], l.op, l.cv)

\* evaluateBytesFieldFilterAgainstMap on a decoded body
EvalLegBody(body, l, dv) ==
  LET r == ScanExt(body, l.p, 1) IN
  IF r.any THEN AnyMatch(r.vals, l, dv)
  ELSE LET fv == r.vals[1] IN
    CASE l.op \in InOps  -> In(fv, l.op, l.in, dv)
      [] l.op = "EMPTY"  -> IsEmptyVal(fv)
      [] l.op = "NEMPTY" -> ~IsEmptyVal(fv)
      [] l.op = "EQ"     -> Eq(fv, l.cv, dv)
      [] OTHER           -> fv.k # "nil" /\ TypedCmp(fv, l.op, l.cv)

(* Documents: [key, kr (rank of the key in string order), bk ("map": msgpack body with fields a, b;  *)
(* "raw": the same body without the magic prefix; "int": the treasure holds a plain integer, no body), *)
(* a, b, c, u, e (created/updated/expires rank)]                                                      *)
Body(d) == VMap(<<Named("a", d.a), Named("b", d.b)>>)
EvalLeg(d, l, dv) == IF d.bk # "map" THEN l.op = "EMPTY" ELSE EvalLegBody(Body(d), l, dv)

-----------------------------------------------------------------------------
(* Groups: [logic, legs, subs]; evaluation returns [m, labels] like           *)
(* evaluateNativeFilterGroupWithMeta (labels of satisfied legs, in order: own *)
(* legs, then matched sub-groups).                                            *)
EmptyGroup == [logic |-> "AND", legs |-> <<>>, subs |-> <<>>]
IsEmptyGroup(g) == g.legs = <<>> /\ g.subs = <<>>

RECURSIVE EvalGroup(_, _, _)
EvalGroup(d, g, dv) ==
  IF IsEmptyGroup(g) THEN [m |-> TRUE, labels |-> <<>>]
  ELSE
    LET lm == [i \in DOMAIN g.legs |-> EvalLeg(d, g.legs[i], dv)]
        sm == [j \in DOMAIN g.subs |-> EvalGroup(d, g.subs[j], dv)]
        ll == Flatten([i \in DOMAIN g.legs |-> IF lm[i] /\ g.legs[i].label # "" THEN <<g.legs[i].label>> ELSE <<>>])
        sl == Flatten([j \in DOMAIN g.subs |-> IF sm[j].m THEN sm[j].labels ELSE <<>>])
        m  == IF g.logic = "OR"
                THEN (\E i \in DOMAIN lm : lm[i]) \/ (\E j \in DOMAIN sm : sm[j].m)
                ELSE (\A i \in DOMAIN lm : lm[i]) /\ (\A j \in DOMAIN sm : sm[j].m)
    IN [m |-> m, labels |-> IF m THEN ll \o sl ELSE <<>>]

RECURSIVE HasAnyLabels(_)
HasAnyLabels(g) == (\E i \in DOMAIN g.legs : g.legs[i].label # "") \/ (\E j \in DOMAIN g.subs : HasAnyLabels(g.subs[j]))

-----------------------------------------------------------------------------
(* bucket_planner.go *)
Indexable(l, dv) ==
  /\ l.p # <<>>
  /\ SimplePath(l.p) \/ "WildcardLenPlanned" \in dv
  /\ l.op = "EQ" \/ (l.op \in InOps /\ l.in # <<>>)
RemoveAt(s, i) == [j \in 1..(Len(s) - 1) |-> IF j < i THEN s[j] ELSE s[j + 1]]
Bypass == [mode |-> "bypass", hints |-> <<>>, res |-> EmptyGroup]
PlanOr(g, dv) ==
  IF g.subs # <<>> \/ g.legs = <<>> \/ \E i \in DOMAIN g.legs : ~Indexable(g.legs[i], dv) THEN Bypass
  ELSE [mode |-> "or", hints |-> g.legs, res |-> EmptyGroup]
PlanAnd(g, dv) ==
  LET il == {i \in DOMAIN g.legs : Indexable(g.legs[i], dv)}
      is == {j \in DOMAIN g.subs : g.subs[j].logic = "OR" /\ PlanOr(g.subs[j], dv).mode = "or"}
  IN IF il # {} THEN
       LET i == CHOOSE x \in il : \A y \in il : x <= y
       IN [mode |-> "and", hints |-> <<g.legs[i]>>, res |-> [g EXCEPT !.legs = RemoveAt(g.legs, i)]]
     ELSE IF is # {} THEN
       LET j == CHOOSE x \in is : \A y \in is : x <= y
       IN [mode |-> "and", hints |-> g.subs[j].legs, res |-> [g EXCEPT !.subs = RemoveAt(g.subs, j)]]
     ELSE Bypass
Plan(g, dv) == IF IsEmptyGroup(g) THEN Bypass ELSE IF g.logic = "AND" THEN PlanAnd(g, dv) ELSE PlanOr(g, dv)

\* bucket lookups use the canonical rule on the literal dotted path (LookupEqual / LookupIn)
HintMatch(d, h, dv) ==
  /\ d.bk = "map" \/ (d.bk = "raw" /\ "RawBodyIndexed" \in dv)
  /\ LET c == Canon(BucketExt(Body(d), h.p, 1)) IN
     IF h.op = "EQ" THEN CanonEq(c, Canon(h.cv)) ELSE \E j \in DOMAIN h.in : CanonEq(c, Canon(h.in[j]))

-----------------------------------------------------------------------------
(* Queries: [f, idx ("key" "ctime" "utime" "etime"), desc, from, limit, max, ft, tt, excl]  *)
TimeOf(d, idx) == CASE idx = "ctime" -> d.c [] idx = "utime" -> d.u [] idx = "etime" -> d.e [] OTHER -> 0
SortKey(d, idx) == IF idx = "key" THEN d.kr ELSE TimeOf(d, idx)
InWindow(t, q) == (q.ft = 0 \/ t >= q.ft) /\ (q.tt = 0 \/ t < q.tt)        \* [FromTime, ToTime)
Paged(q) == q.from > 0 \/ q.limit > 0

\* every order of S that is sorted by the index key: "the same order up to ties"
RECURSIVE Sorted(_, _, _)
Sorted(S, idx, desc) ==
  IF S = {} THEN {<<>>}
  ELSE LET first == {x \in S : \A y \in S : IF desc THEN SortKey(x, idx) >= SortKey(y, idx)
                                                   ELSE SortKey(x, idx) <= SortKey(y, idx)}
       IN UNION {{<<x>> \o s : s \in Sorted(S \ {x}, idx, desc)} : x \in first}

Page(s, q) ==
  IF q.from >= Len(s) THEN <<>>
  ELSE LET hi == IF q.limit > 0 /\ q.from + q.limit < Len(s) THEN q.from + q.limit ELSE Len(s)
       IN SubSeq(s, q.from + 1, hi)

\* the streaming loop of GetByIndexStream: ExcludeKeys, predicate g, labels, MaxResults
Stream(s, q, g, dv) ==
  LET ev == [i \in DOMAIN s |-> IF s[i].key \in q.excl THEN [m |-> FALSE, labels |-> <<>>] ELSE EvalGroup(s[i], g, dv)]
      hit == SelectSeq([i \in DOMAIN s |-> [key |-> s[i].key, labels |-> ev[i].labels, m |-> ev[i].m]], LAMBDA r : r.m)
      out == [i \in DOMAIN hit |-> [key |-> hit[i].key, labels |-> hit[i].labels]]
  IN IF q.max > 0 /\ Len(out) > q.max THEN SubSeq(out, 1, q.max) ELSE out

\* The legacy route: the reference semantics
\*   Answer = MaxResults(FilterLabels(Page(Sort(TimeRange(contents)))))
ScanAnswers(C, q, dv) ==
  LET inIdx == {d \in C : q.idx = "key" \/ (TimeOf(d, q.idx) # 0 /\ InWindow(TimeOf(d, q.idx), q))}
  IN {Stream(Page(s, q), q, q.f, dv) : s \in Sorted(inIdx, q.idx, q.desc)}

UsesBucket(q, dv) == Plan(q.f, dv).mode # "bypass" /\ (~Paged(q) \/ "PageAfterFilter" \in dv)

BucketAnswers(C, q, dv) ==
  IF ~UsesBucket(q, dv) THEN ScanAnswers(C, q, dv)
  ELSE
    LET pl == Plan(q.f, dv)
        cand == {d \in C : \E i \in DOMAIN pl.hints : HintMatch(d, pl.hints[i], dv)}
        kept == IF q.idx = "key"
                  THEN IF "TimeWindowOnKeyIndex" \in dv THEN {d \in cand : InWindow(0, q)} ELSE cand
                  ELSE {d \in cand : InWindow(TimeOf(d, q.idx), q)
                                     /\ (TimeOf(d, q.idx) # 0 \/ "ZeroTimeOnTimeIndex" \in dv)}
        \* as built the consumed legs are not evaluated again, so their labels are lost; the strict design
        \* evaluates the whole filter on the candidates whenever labels are requested
        pred == IF "IndexedLegLabelDropped" \notin dv /\ HasAnyLabels(q.f) THEN q.f ELSE pl.res
    IN {Stream(Page(s, q), q, pred, dv) : s \in Sorted(kept, q.idx, q.desc)}

\* C08: with the deviations off, both routes give exactly the reference answers
Answer(C, q) == ScanAnswers(C, q, {})
RoutesAgree(C, q) == BucketAnswers(C, q, {}) = Answer(C, q)

=============================================================================
