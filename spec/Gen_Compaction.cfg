SPECIFICATION Spec
CONSTANTS
  Keys = {1, 2}
  EntryPoints = {"inline", "close", "load", "forced", "cli", "api"}
  NoCleanup = {"cli", "api"}
  Dev = {}
  MaxAppends = 0
  MaxRuns = 0
  StaleTemps <- MCStaleTemps
CONSTRAINT Bounded
VIEW view
