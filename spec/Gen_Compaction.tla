--------------------------- MODULE Gen_Compaction ---------------------------
(* Exports the scenario universe of the exhaustive model (MC_Compaction): the histories, the leftover    *)
(* temp files and the entry points.  checks/c03.py draws the scenarios replayed on the real code from it. *)
EXTENDS MC_Compaction

GenHists == UNION {[1..n -> Entries] : n \in 1..3}
ASSUME PrintT(ToJson([hists |-> GenHists, stales |-> MCStaleTemps, eps |-> EntryPoints, nocleanup |-> NoCleanup]))
=============================================================================
