----------------------------- MODULE Gen_Corrupt -----------------------------
(* Case generator for C04 (binding C): every abstract case of the taxonomy with the outcome classes the   *)
(* spec's reader allows for it (the oracle) and whether the as-built reader may allocate out of          *)
(* proportion on it (CostWith the deviation, whatever Dev is).  Run with -workers 1; one JSON line per    *)
(* case.  With Dev = {} the same run also checks the invariants of the strict spec.                      *)
EXTENDS Corrupt, Json
ExportCase == result = "unread" => PrintT(ToJson([c |-> case, allowed |-> Read(case), huge |-> "huge" \in CostWith({"ForgedSizeAlloc"}, case)]))
=============================================================================
