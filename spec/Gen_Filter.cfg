
