----------------------------- MODULE Gen_Filter -----------------------------
(***************************************************************************)
(* Case generator for Filter (binding C).  TLC builds cases and prints one  *)
(* JSON line per case; every expected answer is computed by the definitions *)
(* of module Filter (the oracle).  The Go driver harness/cmd/filter only    *)
(* concretises the case (msgpack bodies, protobuf filters), runs it on the  *)
(* real gateway through both routes and compares.                           *)
(*                                                                          *)
(* A case: initial documents, mutations applied before the first query      *)
(* (before any bucket exists), a list of queries, mutations applied after   *)
(* the first round (the buckets now exist and are maintained by the save    *)
(* hook), and the same queries again.  For each query and round:            *)
(*   strict   the set of allowed answers of the reference semantics         *)
(*            (one per order of the ties)                                   *)
(*   scan / bucket   the answers of the as-built model (deviations Known)   *)
(*            of each route when they differ from strict, else {}           *)
(*   sdev / bdev     an irreducible set of deviations that explains them    *)
(*   mode, ub        the plan the planner must choose, whether the bucket   *)
(*                   route is taken                                         *)
(*                                                                          *)
(* Environment: C08_MODE = "random" | "pairs" | "witness", C08_N cases,     *)
(* C08_BASE first case id, C08_DEV_<name> set for every known deviation.    *)
(* Randomness comes from TLC's RandomElement, i.e. from -seed.              *)
(***************************************************************************)
EXTENDS Filter, Json, IOUtils

Known == {d \in AllDevs : ("C08_DEV_" \o d) \in DOMAIN IOEnv}
EnvInt(name, dflt) == IF name \in DOMAIN IOEnv THEN atoi(IOEnv[name]) ELSE dflt
Mode == IF "C08_MODE" \in DOMAIN IOEnv THEN IOEnv.C08_MODE ELSE "random"

Rnd(n) == RandomElement(1..n)
Pick(seq) == seq[RandomElement(1..Len(seq))]
Pct(p) == RandomElement(1..100) <= p

\* eager sequence <<Op(1), ..., Op(n)>> (function constructors are lazy in TLC: never put randomness in one)
GenSeq(n, Op(_)) ==
  CASE n = 0 -> <<>>
    [] n = 1 -> <<Op(1)>>
    [] n = 2 -> <<Op(1), Op(2)>>
    [] n = 3 -> <<Op(1), Op(2), Op(3)>>
    [] n = 4 -> <<Op(1), Op(2), Op(3), Op(4)>>
    [] n = 5 -> <<Op(1), Op(2), Op(3), Op(4), Op(5)>>
    [] n = 6 -> <<Op(1), Op(2), Op(3), Op(4), Op(5), Op(6)>>
    [] n = 7 -> <<Op(1), Op(2), Op(3), Op(4), Op(5), Op(6), Op(7)>>
    [] OTHER -> <<Op(1), Op(2), Op(3), Op(4), Op(5), Op(6), Op(7), Op(8)>>

-----------------------------------------------------------------------------
(* value pools: 5 is the hub (int 5, uint 5, 5.0, 5.5, "5", time 5 s) *)
ScalarPool == <<VInt(5), VInt(5), VInt(5), VInt(0), VInt(-1), VInt(1), VInt(2), VUint(5), VUint(5), VUint(5), VUint(0),
                VFloat(50), VFloat(50), VFloat(55), VFloat(55), VFloat(-5), VFloat(0), VBool(TRUE), VBool(FALSE),
                VStr("5"), VStr("5"), VStr("x"), VStr(""), VTime(5), VTime(5), VTime(0), VNil, VMissing>>
ElemPool == SelectSeq(ScalarPool, LAMBDA v : v.k # "missing")
RandElem(i) == Pick(ElemPool)
RandMap(i) == IF Pct(25) THEN VMap(<<Named("x", Pick(ScalarPool)), Named("y", Pick(ScalarPool))>>)
              ELSE VMap(<<Named("x", Pick(ScalarPool))>>)
RandElemOrMap(i) == IF Pct(20) THEN Pick(ElemPool) ELSE RandMap(i)
RandField(i) ==
  LET r == Rnd(20) IN
  CASE r <= 11 -> Pick(ScalarPool)
    [] r <= 14 -> VArr(GenSeq(Rnd(3) - 1, RandElem))
    [] r <= 16 -> VArr(GenSeq(Rnd(2), RandElemOrMap))
    [] OTHER   -> RandMap(0)

BodyKinds == <<"int", "raw", "map", "map", "map", "map", "map", "map", "map", "map", "map", "map", "map", "map">>
KeyNames == <<"a1", "a10", "a2", "b", "c">>      \* in string order: kr = position
RandRank(pz) == IF Pct(pz) THEN 0 ELSE Rnd(3)
RandDoc(kr) == [key |-> KeyNames[kr], kr |-> kr, bk |-> Pick(BodyKinds),
                a |-> RandField(1), b |-> RandField(2), c |-> RandRank(20), u |-> RandRank(30), e |-> RandRank(40)]

\* contents are sets of documents with distinct keys
HasKey(C, k) == \E d \in C : d.key = k
ApplyMut(C, m) ==
  IF m.op = "del" THEN {d \in C : d.key # m.d.key}
  ELSE IF HasKey(C, m.d.key)
         \* an update replaces the content and leaves the metadata timestamps alone
         THEN {IF d.key = m.d.key THEN [d EXCEPT !.a = m.d.a, !.b = m.d.b, !.bk = m.d.bk] ELSE d : d \in C}
         ELSE C \cup {m.d}
RECURSIVE ApplyMuts(_, _)
ApplyMuts(C, ms) == IF ms = <<>> THEN C ELSE ApplyMuts(ApplyMut(C, Head(ms)), Tail(ms))
RandMut(i) == [op |-> IF Pct(30) THEN "del" ELSE "set", d |-> RandDoc(Rnd(5))]

-----------------------------------------------------------------------------
(* legs and trees *)
PA    == <<Seg("a", "f")>>
PB    == <<Seg("b", "f")>>
PAX   == <<Seg("a", "f"), Seg("x", "f")>>
PAW   == <<Seg("a", "w")>>
PBW   == <<Seg("b", "w")>>
PAWX  == <<Seg("a", "w"), Seg("x", "f")>>
PALEN == <<Seg("a", "f"), Seg("", "len")>>
PLEN  == <<Seg("", "len")>>
PathPool == <<PA, PA, PA, PA, PB, PB, PB, PAX, PAX, PAW, PBW, PAWX, PALEN, PLEN>>
AllPaths == {PA, PB, PAX, PAW, PBW, PAWX, PALEN, PLEN}

NumCv == <<CInt(5), CInt(5), CInt(5), CInt(0), CInt(-1), CInt(2), CInt(1), CInt16(5), CUint(5), CUint(5), CUint(0), CFloat(50),
           CFloat(50), CFloat(55), CFloat(-5), CFloat32(55), CFloat32(50)>>
EqCv == NumCv \o <<VStr("5"), VStr("5"), VStr("x"), VStr(""), VBool(TRUE), VBool(FALSE)>>
StrIn == <<VStr("5"), VStr("x"), VStr("")>>
IntInPool == <<VInt(5), VInt(0), VInt(-1), VInt(2)>>
PickStr(i) == Pick(StrIn)
PickInt(i) == Pick(IntInPool)
Leg(p, op, cv, in, label) == [p |-> p, op |-> op, cv |-> cv, in |-> in, label |-> label]
LabelName(i) == CASE i = 1 -> "L1" [] i = 2 -> "L2" [] OTHER -> "L3"
\* pi: percentage of indexable (Equal / IN) operators
RandLeg(i, pi) ==
  LET p == Pick(PathPool)
      lb == IF Pct(40) THEN LabelName(i) ELSE ""
      r == Rnd(100)
  IN IF r <= pi THEN
       IF Pct(72) THEN Leg(p, "EQ", Pick(EqCv), <<>>, lb)
       ELSE IF Pct(40) THEN Leg(p, "SIN", VInt(0), GenSeq(Rnd(2), PickStr), lb)
       ELSE Leg(p, IF Pct(50) THEN "I32IN" ELSE "I64IN", VInt(0), GenSeq(Rnd(2), PickInt), lb)
     ELSE
       LET k == Rnd(10) IN
       CASE k <= 5 -> Leg(p, Pick(<<"NE", "GT", "GE", "LT", "LE">>), Pick(NumCv), <<>>, lb)
         [] k = 6  -> Leg(p, "NE", Pick(<<VStr("5"), VStr("x"), VBool(TRUE)>>), <<>>, lb)
         [] k <= 8 -> Leg(p, "EMPTY", VInt(0), <<>>, lb)
         [] OTHER  -> Leg(p, "NEMPTY", VInt(0), <<>>, lb)

Grp(logic, legs, subs) == [logic |-> logic, legs |-> legs, subs |-> subs]
RandLogic(i) == IF Pct(50) THEN "AND" ELSE "OR"
RandTree(i) ==
  LET s == Rnd(20)
      pi == Pick(<<75, 75, 100, 40>>)
      l1 == RandLeg(1, pi)  l2 == RandLeg(2, pi)  l3 == RandLeg(3, pi)
      r1 == RandLeg(1, 15)                          \* mostly residual: lets AND fall through to an OR sub-group
      g0 == RandLogic(0)  g1 == RandLogic(1)  g2 == RandLogic(2)
  IN CASE s <= 5  -> Grp(g0, <<l1>>, <<>>)
       [] s <= 10 -> Grp(g0, <<l1, l2>>, <<>>)
       [] s <= 12 -> Grp(g0, <<l1, l2, l3>>, <<>>)
       [] s = 13  -> Grp(g0, <<l1>>, <<Grp(g1, <<l2>>, <<>>)>>)
       [] s <= 15 -> Grp("AND", <<r1>>, <<Grp("OR", <<l2, l3>>, <<>>)>>)
       [] s = 16  -> Grp(g0, <<l1>>, <<Grp(g1, <<l2, l3>>, <<>>)>>)
       [] s = 17  -> Grp(g0, <<l1, l2>>, <<Grp(g1, <<l3>>, <<>>)>>)
       [] s = 18  -> Grp(g0, <<>>, <<Grp(g1, <<l1, l2>>, <<>>)>>)
       [] s = 19  -> Grp(g0, <<>>, <<Grp(g1, <<l1, l2>>, <<>>), Grp(g2, <<l3>>, <<>>)>>)
       [] OTHER   -> Grp(g0, <<l1>>, <<Grp(g1, <<l2>>, <<>>), Grp(g2, <<l3>>, <<>>)>>)

Qry(f, idx, desc, from, limit, max, ft, tt, excl) ==
  [f |-> f, idx |-> idx, desc |-> desc, from |-> from, limit |-> limit, max |-> max, ft |-> ft, tt |-> tt, excl |-> excl]
RandQuery(i) ==
  Qry(RandTree(i), Pick(<<"key", "key", "key", "ctime", "ctime", "ctime", "utime", "etime">>), Pct(50),
      IF Pct(75) THEN 0 ELSE Rnd(2), IF Pct(75) THEN 0 ELSE Rnd(3), IF Pct(70) THEN 0 ELSE Rnd(2),
      IF Pct(72) THEN 0 ELSE Rnd(3), IF Pct(72) THEN 0 ELSE 1 + Rnd(3),
      IF Pct(85) THEN {} ELSE {KeyNames[Rnd(5)]})

-----------------------------------------------------------------------------
(* expectations *)
EvalDevs == {"FloatTruncScan", "TimeFieldScan", "WildcardCmpKinds"}
DevOrder == <<"PageAfterFilter", "WildcardLenPlanned", "IndexedLegLabelDropped", "TimeWindowOnKeyIndex",
              "ZeroTimeOnTimeIndex", "RawBodyIndexed", "FloatTruncScan", "TimeFieldScan", "WildcardCmpKinds">>
\* drop one deviation after the other while the as-built answers stay explained
RouteAnswers(route, C, q, D) == IF route = "scan" THEN ScanAnswers(C, q, D) ELSE BucketAnswers(C, q, D)
RECURSIVE Shrink(_, _, _, _, _, _)
Shrink(D, i, built, route, C, q) ==
  IF i > Len(DevOrder) THEN D
  ELSE IF DevOrder[i] \in D /\ RouteAnswers(route, C, q, D \ {DevOrder[i]}) = built
         THEN Shrink(D \ {DevOrder[i]}, i + 1, built, route, C, q)
  ELSE Shrink(D, i + 1, built, route, C, q)

Expect(C, q) ==
  LET strict == Answer(C, q)
      sb == ScanAnswers(C, q, Known)
      bb == BucketAnswers(C, q, Known)
  IN [strict |-> strict,
      agree  |-> BucketAnswers(C, q, {}) = strict,
      scan   |-> IF sb = strict THEN {} ELSE sb,
      sdev   |-> IF sb = strict THEN {} ELSE Shrink(Known, 1, sb, "scan", C, q),
      bucket |-> IF bb = strict THEN {} ELSE bb,
      bdev   |-> IF bb = strict THEN {} ELSE Shrink(Known, 1, bb, "bucket", C, q),
      mode   |-> Plan(q.f, Known).mode,
      ub     |-> UsesBucket(q, Known)]

DocsOf(C) == {d.key : d \in C}
CaseRec(id, kind, docs, pre, post, qs) ==
  LET C0 == {docs[i] : i \in DOMAIN docs}
      C1 == ApplyMuts(C0, pre)
      C2 == ApplyMuts(C1, post)
      \* a set mutation tells the driver whether the key exists at that point (an update keeps the timestamps)
      Tag(C, ms) == [i \in DOMAIN ms |-> [op |-> ms[i].op, d |-> ms[i].d,
                                            isnew |-> ~HasKey(ApplyMuts(C, SubSeq(ms, 1, i - 1)), ms[i].d.key)]]
  IN [id |-> id, kind |-> kind, docs |-> docs, pre |-> Tag(C0, pre), post |-> Tag(C1, post),
      keys1 |-> DocsOf(C1), keys2 |-> DocsOf(C2),
      queries |-> [i \in DOMAIN qs |-> [q |-> qs[i], r1 |-> Expect(C1, qs[i]), r2 |-> Expect(C2, qs[i])]]]

RandCase(id) ==
  LET inc == GenSeq(5, LAMBDA k : Pct(65))
      all == GenSeq(5, RandDoc)
      sel == SelectSeq(all, LAMBDA d : inc[d.kr])
      docs == IF sel = <<>> THEN <<all[1]>> ELSE sel
      pre == GenSeq(IF Pct(50) THEN 0 ELSE Rnd(2), RandMut)
      post == GenSeq(IF Pct(15) THEN 0 ELSE Rnd(3), RandMut)
      qs == GenSeq(EnvInt("C08_Q", 6), RandQuery)
  IN CaseRec(id, "random", docs, pre, post, qs)

-----------------------------------------------------------------------------
(* "pairs": every field value against every leg (path x operator x reference), alone and as the     *)
(* residual of an indexable conjunct, on a fixed two-record swamp, no paging: exhaustive for the     *)
(* value-equality rule and the path syntax.                                                          *)
PairValSeq ==
  <<VInt(5), VInt(0), VInt(-1), VInt(2), VUint(5), VUint(0), VFloat(50), VFloat(55), VFloat(-5), VFloat(0),
   VBool(TRUE), VBool(FALSE), VStr("5"), VStr("x"), VStr(""), VTime(5), VTime(0), VNil, VMissing,
   VArr(<<>>), VArr(<<VInt(5), VStr("x")>>), VArr(<<VFloat(55), VNil>>), VArr(<<VUint(5), VTime(5)>>),
   VArr(<<VMap(<<Named("x", VInt(5))>>), VMap(<<Named("x", VStr("x"))>>)>>),
   VArr(<<VMap(<<Named("x", VFloat(55))>>), VInt(5)>>),
   VMap(<<Named("x", VInt(5))>>), VMap(<<Named("x", VUint(5)), Named("y", VNil)>>),
   VMap(<<Named("x", VFloat(55))>>), VMap(<<Named("x", VTime(5))>>), VMap(<<Named("x", VStr("5"))>>)>>
PairVals == {PairValSeq[i] : i \in DOMAIN PairValSeq}
PairCvs == {CInt(5), CInt(0), CInt(-1), CInt(2), CInt16(5), CUint(5), CUint(0), CFloat(50), CFloat(55), CFloat(-5),
            CFloat32(55), VStr("5"), VStr("x"), VStr(""), VBool(TRUE), VBool(FALSE)}
PairLegs ==
  {Leg(p, "EQ", cv, <<>>, "L1") : p \in AllPaths \ {PB, PBW}, cv \in PairCvs}
  \cup {Leg(p, "SIN", VInt(0), in, "L1") : p \in AllPaths \ {PB, PBW}, in \in {<<VStr("5")>>, <<VStr("x"), VStr("")>>}}
  \cup {Leg(p, op, VInt(0), in, "L1") : p \in AllPaths \ {PB, PBW}, op \in {"I32IN", "I64IN"}, in \in {<<VInt(5)>>, <<VInt(0), VInt(-1)>>, <<VInt(2), VInt(5)>>}}
  \cup {Leg(p, op, cv, <<>>, "L1") : p \in AllPaths \ {PB, PBW}, op \in {"NE", "GT", "LE"}, cv \in {CInt(5), CUint(5), CFloat(55), CInt16(0), CFloat32(50)}}
  \cup {Leg(p, "NE", cv, <<>>, "L1") : p \in AllPaths \ {PB, PBW}, cv \in {VStr("x"), VBool(TRUE)}}
  \cup {Leg(p, op, VInt(0), <<>>, "L1") : p \in AllPaths \ {PB, PBW}, op \in {"EMPTY", "NEMPTY"}}
PairQuery(f) == Qry(f, "key", FALSE, 0, 0, 0, 0, 0, {})
PairCase(id, v, l) ==
  LET d1 == [key |-> "a1", kr |-> 1, bk |-> "map", a |-> v, b |-> VInt(5), c |-> 1, u |-> 1, e |-> 1]
      d2 == [key |-> "a2", kr |-> 3, bk |-> "map", a |-> VInt(5), b |-> VInt(0), c |-> 2, u |-> 2, e |-> 0]
      anchor == Leg(PB, "EQ", CInt(5), <<>>, "")
  IN CaseRec(id, "pairs", <<d1, d2>>, <<>>, <<>>,
             <<PairQuery(Grp("AND", <<l>>, <<>>)), PairQuery(Grp("AND", <<anchor, l>>, <<>>)),
               PairQuery(Grp("OR", <<anchor, l>>, <<>>))>>)

-----------------------------------------------------------------------------
(* "witness": one minimal case per named deviation (the witnesses recorded in findings/C08.json) *)
WDoc(key, kr, bk, a, b, c) == [key |-> key, kr |-> kr, bk |-> bk, a |-> a, b |-> b, c |-> c, u |-> c, e |-> 0]
WQ(f, idx, from, limit, ft) == Qry(f, idx, FALSE, from, limit, 0, ft, 0, {})
One(l) == Grp("AND", <<l>>, <<>>)
AEq5 == Leg(PA, "EQ", CInt(5), <<>>, "")
Witnesses == <<
  [dev |-> "FloatTruncScan", docs |-> <<WDoc("a1", 1, "map", VFloat(55), VNil, 1)>>, q |-> WQ(One(AEq5), "key", 0, 0, 0)],
  [dev |-> "TimeFieldScan", docs |-> <<WDoc("a1", 1, "map", VTime(5), VNil, 1)>>,
   q |-> WQ(One(Leg(PA, "EQ", CUint(5), <<>>, "")), "key", 0, 0, 0)],
  [dev |-> "WildcardCmpKinds", docs |-> <<WDoc("a1", 1, "map", VArr(<<VUint(5)>>), VNil, 1)>>,
   q |-> WQ(Grp("OR", <<>>, <<One(Leg(PAW, "EQ", CUint(5), <<>>, ""))>>), "key", 0, 0, 0)],
  [dev |-> "PageAfterFilter",
   docs |-> <<WDoc("a1", 1, "map", VInt(0), VNil, 1), WDoc("a2", 3, "map", VInt(5), VNil, 1), WDoc("b", 4, "map", VInt(5), VNil, 1)>>,
   q |-> WQ(One(AEq5), "key", 1, 1, 0)],
  [dev |-> "WildcardLenPlanned", docs |-> <<WDoc("a1", 1, "map", VArr(<<VInt(5), VStr("x")>>), VNil, 1)>>,
   q |-> WQ(One(Leg(PAW, "EQ", CInt(5), <<>>, "")), "key", 0, 0, 0)],
  [dev |-> "WildcardLenPlanned", docs |-> <<WDoc("a1", 1, "map", VArr(<<VInt(5), VStr("x")>>), VNil, 1)>>,
   q |-> WQ(One(Leg(PALEN, "EQ", CInt(2), <<>>, "")), "key", 0, 0, 0)],
  [dev |-> "IndexedLegLabelDropped", docs |-> <<WDoc("a1", 1, "map", VInt(5), VNil, 1)>>,
   q |-> WQ(One(Leg(PA, "EQ", CInt(5), <<>>, "L1")), "key", 0, 0, 0)],
  [dev |-> "TimeWindowOnKeyIndex", docs |-> <<WDoc("a1", 1, "map", VInt(5), VNil, 2)>>, q |-> WQ(One(AEq5), "key", 0, 0, 1)],
  [dev |-> "ZeroTimeOnTimeIndex", docs |-> <<WDoc("a1", 1, "map", VInt(5), VNil, 0)>>, q |-> WQ(One(AEq5), "ctime", 0, 0, 0)],
  [dev |-> "RawBodyIndexed", docs |-> <<WDoc("a1", 1, "raw", VInt(5), VNil, 1)>>, q |-> WQ(One(AEq5), "key", 0, 0, 0)]>>
WitnessCase(i) == CaseRec(i, Witnesses[i].dev, Witnesses[i].docs, <<>>, <<>>, <<Witnesses[i].q>>)

Base == EnvInt("C08_BASE", 0)
\* pairs are sharded by value: shard C08_SHARD of C08_SHARDS
PairShard ==
  LET n == EnvInt("C08_SHARDS", 1)  k == EnvInt("C08_SHARD", 0)
  IN {PairValSeq[i] : i \in {j \in DOMAIN PairValSeq : j % n = k}}

ASSUME Mode = "random" => \A i \in 1..EnvInt("C08_N", 10) : PrintT(ToJson(RandCase(Base + i)))
ASSUME Mode = "pairs" => \A v \in PairShard : \A l \in PairLegs : PrintT(ToJson(PairCase(0, v, l)))
ASSUME Mode = "witness" => \A i \in DOMAIN Witnesses : PrintT(ToJson(WitnessCase(i)))
ASSUME Mode = "count" => PrintT(<<"pairs", Cardinality(PairVals), Cardinality(PairLegs)>>)
=============================================================================
