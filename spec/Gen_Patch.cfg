\* case generator: constant-level evaluation only (ASSUMEs), no behaviour specification
CONSTANTS
  Dev = {}
