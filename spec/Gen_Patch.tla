----------------------------- MODULE Gen_Patch -----------------------------
(***************************************************************************)
(* Case generator for Patch (binding C: specification as oracle).          *)
(*                                                                         *)
(* TLC evaluates ApplyS over the case space of PatchCases and prints one   *)
(* JSON line per case: the abstract case and EVERY outcome the             *)
(* specification has for it, each tagged with the switches (readings /     *)
(* deviations) under which it is the result.  The Go driver concretises    *)
(* the case into msgpack bytes, runs the real code and reports which       *)
(* outcome it saw.  There is no behaviour specification: the cfg has only  *)
(* constants and TLC evaluates the ASSUMEs.                                *)
(***************************************************************************)
EXTENDS PatchCases, Json, SequencesExt

-----------------------------------------------------------------------------
(* output encoding (compact tuples) *)

RECURSIVE Enc(_)
Enc(d) == CASE d.k = "L" -> <<d.c, d.b, d.v, d.o>>
            [] d.k = "M" -> <<"M", [i \in DOMAIN d.f |-> <<d.f[i].n, Enc(d.f[i].d)>>]>>
            [] d.k = "A" -> <<"A", [i \in DOMAIN d.e |-> Enc(d.e[i])]>>
            [] d.k = "X" -> <<"X", d.m>>
EncSeg(s) == CASE s.t = "f" -> <<"f", s.n>> [] s.t = "i" -> <<"i", s.i>> [] s.t = "p" -> <<"p", 0>>
EncPath(p) == [bad |-> p.bad, s |-> [i \in DOMAIN p.s |-> EncSeg(p.s[i])]]
EncOp(o) == [k |-> o.k, p |-> EncPath(o.p), v |-> Enc(o.v)]
EncCond(c) == [op |-> c.op, p |-> EncPath(c.p), th |-> Enc(c.th)]

\* all outcomes the specification has for a case: one per subset of the switches that matter for it
RECURSIVE Close(_, _, _, _)
Close(U, body, ops, cond) ==
  LET new == UNION {ApplyS(S, body, ops, cond).t : S \in SUBSET U} IN
  IF new \subseteq U THEN U ELSE Close(U \cup new, body, ops, cond)
EncOut(S, r) == [s |-> S, st |-> r.st, e |-> r.e, d |-> IF r.st = "ok" THEN Enc(r.d) ELSE <<>>]
Outs(body, ops, cond) ==
  LET r0 == ApplyS({}, body, ops, cond) IN
  IF r0.t = {} THEN <<EncOut({}, r0)>>
  ELSE LET SS == SetToSeq(SUBSET Close(r0.t, body, ops, cond)) IN
       [k \in DOMAIN SS |-> EncOut(SS[k], ApplyS(SS[k], body, ops, cond))]

Emit(fam, b, i, j) ==
  LET body == BodyOf(fam, b, i)  ops == OpsOf(fam, i, j)  cond == CondOf(fam, i) IN
  PrintT(ToJson([f |-> fam, b |-> b, i |-> i, j |-> j,
                 body |-> Enc(body), ops |-> [k \in DOMAIN ops |-> EncOp(ops[k])], cond |-> EncCond(cond),
                 out |-> Outs(body, ops, cond)]))

Header == PrintT(ToJson([hdr |-> 1, fams |-> SelFams, strtab |-> StrTab,
                         deviations |-> Deviations, readings |-> Readings]))

ASSUME Header
ASSUME \A fam \in SelFams : \A b \in 1..NB(fam) : \A i \in 1..NI(fam) : \A j \in 1..NJ(fam) :
          Selected(fam, b, i, j) => Emit(fam, b, i, j)
=============================================================================
