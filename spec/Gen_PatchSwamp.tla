-------------------------- MODULE Gen_PatchSwamp --------------------------
(***************************************************************************)
(* Case generator for the swamp level of the patch (PatchSwamp, family     *)
(* "S1"): one JSON line per selected case with every outcome the            *)
(* specification has (acceptable statuses + the key as it must be           *)
(* afterwards).  With IOEnv.GEN_SWAMP_PROPS = "1" TLC also evaluates the    *)
(* swamp-level properties over the WHOLE case space: they hold for the      *)
(* strict specification and fail with the deviation switched on.            *)
(* No behaviour specification: constants + ASSUMEs only (see Gen_Patch).    *)
(***************************************************************************)
EXTENDS PatchSwamp, Json, SequencesExt

RECURSIVE Enc(_)
Enc(d) == CASE d.k = "L" -> <<d.c, d.b, d.v, d.o>>
            [] d.k = "M" -> <<"M", [i \in DOMAIN d.f |-> <<d.f[i].n, Enc(d.f[i].d)>>]>>
            [] d.k = "A" -> <<"A", [i \in DOMAIN d.e |-> Enc(d.e[i])]>>
            [] d.k = "X" -> <<"X", d.m>>
            [] d.k = "N" -> <<>>
EncSeg(s) == CASE s.t = "f" -> <<"f", s.n>> [] s.t = "i" -> <<"i", s.i>> [] s.t = "p" -> <<"p", 0>>
EncPath(p) == [bad |-> p.bad, s |-> [i \in DOMAIN p.s |-> EncSeg(p.s[i])]]
EncOp(o) == [k |-> o.k, p |-> EncPath(o.p), v |-> Enc(o.v)]
EncCond(c) == [op |-> c.op, p |-> EncPath(c.p), th |-> Enc(c.th)]
EncKey(k) == [k |-> k.k, body |-> Enc(k.body), exp |-> k.exp, uby |-> k.uby, cby |-> k.cby, uat |-> k.uat, cat |-> k.cat]
B2N(b) == IF b THEN 1 ELSE 0
EncMeta(m) == [on |-> B2N(m.on), setExp |-> m.setExp, clr |-> B2N(m.clr), uby |-> m.uby, cby |-> m.cby, uat |-> B2N(m.uat), cat |-> B2N(m.cat)]
EncReq(r) == [create |-> B2N(r.create), seed |-> Enc(r.seed), ops |-> [k \in DOMAIN r.ops |-> EncOp(r.ops[k])],
              cond |-> EncCond(r.cond), meta |-> EncMeta(r.meta)]

RECURSIVE SClose(_, _, _)
SClose(U, key, rq) ==
  LET new == UNION {PatchFieldsS(S, key, rq).t : S \in SUBSET U} IN
  IF new \subseteq U THEN U ELSE SClose(U \cup new, key, rq)
SEncOut(S, r) == [s |-> S, status |-> r.status, after |-> EncKey(r.after)]
SOuts(key, rq) ==
  LET r0 == PatchFieldsS({}, key, rq) IN
  IF r0.t = {} THEN <<SEncOut({}, r0)>>
  ELSE LET SS == SetToSeq(SUBSET SClose(r0.t, key, rq)) IN
       [k \in DOMAIN SS |-> SEncOut(SS[k], PatchFieldsS(SS[k], key, rq))]

SEmit(n) ==
  LET key == SKeyOf(n)  rq == SReqOf(n) IN
  PrintT(ToJson([f |-> "S1", b |-> 1, i |-> n, j |-> 1, key |-> EncKey(key), req |-> EncReq(rq), out |-> SOuts(key, rq)]))

SHeader == PrintT(ToJson([hdr |-> 1, fams |-> {"S1"}, ns |-> NS, strtab |-> StrTab,
                          deviations |-> Deviations \cup SwampDeviations, readings |-> Readings \cup SwampReadings]))

Props == "GEN_SWAMP_PROPS" \in DOMAIN IOEnv /\ IOEnv.GEN_SWAMP_PROPS = "1"

ASSUME SHeader
ASSUME \A n \in 1..NS : SSelected(n) => SEmit(n)
\* the strict specification satisfies the swamp-level properties on every case ...
ASSUME Props => \A n \in 1..NS : FailureLeavesKey({}, SKeyOf(n), SReqOf(n)) /\ StoredIsMap({}, SKeyOf(n), SReqOf(n))
\* ... and the deviation breaks StoredIsMap (non-vacuity)
ASSUME Props => \E n \in 1..NS : ~StoredIsMap({"NonMapSeedAccepted"}, SKeyOf(n), SReqOf(n))
=============================================================================
