SPECIFICATION GenSpec
CONSTANTS
  Dev = {}
  Models = {}
CHECK_DEADLOCK FALSE
