SPECIFICATION GenSpec
CONSTANTS
  Dev = {}
CHECK_DEADLOCK FALSE
