---------------------------- MODULE Gen_SdkModel ----------------------------
(***************************************************************************)
(* Case generator for C22 (binding C): every model of the MC_SdkModel      *)
(* space with what the property demands (expected), the outcome of the    *)
(* strict design (must be the same) and the outcomes under each named      *)
(* deviation and under both.                                               *)
(***************************************************************************)
EXTENDS MC_SdkModel, Json

Case(km) == [kind |-> km[1], fields |-> km[2], expected |-> Expected(km[1], km[2]),
             strict |-> OutcomeDev({}, km[1], km[2]),
             substr |-> OutcomeDev({"SubstringTags"}, km[1], km[2]),
             nilbody |-> OutcomeDev({"NilBodyField"}, km[1], km[2]),
             both |-> OutcomeDev({"SubstringTags", "NilBodyField"}, km[1], km[2])]
ASSUME \A km \in MCModels : PrintT(ToJson(Case(km)))

\* TLC wants a behaviour specification for a module with variables: one idle state
GenInit == stage = "gen" /\ mdl = <<>> /\ wire = EmptyKV /\ stored = Store(EmptyKV) /\ result = NoRead
GenSpec == GenInit /\ [][UNCHANGED vars]_vars
=============================================================================
