SPECIFICATION GenSpec
CONSTANTS
  Sancts = {"a"}
  Parts = {"x", "y"}
  SetIds = {}
  MaxOps = 0
  Dev = {}
CHECK_DEADLOCK FALSE
