--------------------------- MODULE Gen_Settings ---------------------------
(***************************************************************************)
(* Case generator for C21 (binding C).  TLC enumerates every set of        *)
(* patterns over Sancts x (Parts + "*") x (Parts + "*") of size <= GEN_MAXK *)
(* with EVERY registration order, every larger set with its canonical      *)
(* order, its reverse and one rotation, and evaluates the Settings         *)
(* operators on it: per probe name the matching patterns and the           *)
(* most-specific ones (the only resolutions the strict spec allows).       *)
(* One JSON line per pattern set.  The driver registers each order on the  *)
(* real settings and the recorded lookups are validated by Trace_Settings. *)
(***************************************************************************)
EXTENDS Settings, Json, IOUtils

GenSancts == {"a"}
GenParts  == {"x", "y"}
GenPatterns == {<<s, r, w>> : s \in GenSancts, r \in GenParts \cup {Star}, w \in GenParts \cup {Star}}
\* probe names: every combination of the parts used in patterns, a part no pattern names ("z": only
\* wildcards match), and a foreign sanctuary (nothing matches: default settings)
Probes == {<<s, r, w>> : s \in GenSancts, r \in GenParts \cup {"z"}, w \in GenParts \cup {"z"}} \cup {<<"b", "x", "y">>}

MaxK == CHOOSE k \in 0..9 : ToString(k) = IOEnv.GEN_MAXK

RECURSIVE Perms(_)
Perms(S) == IF S = {} THEN {<<>>}
            ELSE UNION {{<<x>> \o t : t \in Perms(S \ {x})} : x \in S}

\* a fixed total order on patterns (only used to name canonical orders)
Rank(p) == LET pr(c) == IF c = Star THEN 0 ELSE IF c = "x" THEN 1 ELSE 2 IN 3 * pr(p[2]) + pr(p[3])
RECURSIVE Sorted(_)
Sorted(S) == IF S = {} THEN <<>>
             ELSE LET m == CHOOSE x \in S : \A y \in S : Rank(x) <= Rank(y) IN <<m>> \o Sorted(S \ {m})
Reverse(s) == [i \in 1..Len(s) |-> s[Len(s) + 1 - i]]
Rotate(s) == IF Len(s) < 2 THEN s ELSE Tail(s) \o <<Head(s)>>

Orders(S) == IF Cardinality(S) <= MaxK THEN Perms(S)
             ELSE {Sorted(S), Reverse(Sorted(S)), Rotate(Sorted(S))}

Expect(S) == [n \in Probes |-> [match |-> Matching(n, S), max |-> Maximal(n, S)]]

Case(S) == [P |-> S, orders |-> Orders(S),
            expect |-> {[n |-> n, match |-> Expect(S)[n].match, max |-> Expect(S)[n].max] : n \in Probes}]

ASSUME \A S \in SUBSET GenPatterns : PrintT(ToJson(Case(S)))

\* TLC wants a behaviour specification for a module with variables: a single idle state
GenSpec == Init /\ [][UNCHANGED vars]_vars
=============================================================================
