---------------------------- MODULE Gen_SwampKV ----------------------------
\* prints the request alphabets of MC_SwampKV as JSON (one line per family) for the conformance driver
EXTENDS MC_SwampKV
ASSUME ExportAlphabets(0)
=============================================================================
