------------------------------- MODULE Guard -------------------------------
(***************************************************************************)
(* The per-record guard of a treasure                                      *)
(* (app/core/hydra/swamp/treasure/guard/guard.go).                         *)
(*                                                                         *)
(* One action = one critical section of the code (everything a call does   *)
(* while it owns the guard's mutex):                                       *)
(*   StartWait(p)   StartTreasureGuard(true) up to the first cond.Wait     *)
(*                  (or the return, when the caller is alone)              *)
(*   Wake(p)        a parked StartTreasureGuard(true) finds itself at the  *)
(*                  head of the queue and returns                          *)
(*   TryStart(p)    StartTreasureGuard(false)                              *)
(*   Release(p,id)  ReleaseTreasureGuard(id) with the caller's own id, a   *)
(*                  stale id (duplicate release), somebody else's stale    *)
(*                  id, or 0                                               *)
(*                                                                         *)
(* The id is the only capability the API has, so "an id you do not hold"   *)
(* means any id other than the one the current holder was given; passing   *)
(* the live holder's own number is not in the alphabet (no implementation  *)
(* of this interface could tell it from the holder's release).             *)
(*                                                                         *)
(* Dev is the set of named deviations of the code from the strict design:  *)
(*   "IdReuse"  the id counter restarts when the queue empties, so a stale *)
(*              id can equal the live holder's id.                         *)
(***************************************************************************)
EXTENDS Integers, Sequences, FiniteSets, TLC

CONSTANTS Procs,    \* caller processes
          MaxOps,   \* bound on the number of API calls (model checking only)
          Dev       \* subset of {"IdReuse"}

VARIABLES queue,    \* Seq of [id, owner]: waitForUnlock plus the (ghost) owner of each entry
          counter,  \* largestGuardID
          pc,       \* [Procs -> {"idle","waiting","holding"}]
          cur,      \* [Procs -> id enqueued / held by p, 0 if none]
          stale,    \* set of ids that were handed out and released (usable for duplicate / foreign release)
          ticket,   \* [Procs -> arrival number of p's pending acquire] (history, for FIFO)
          nextTicket,
          ops,      \* API calls made so far
          last      \* last action taken: [a, p, id, res]   (observation only)

vars == <<queue, counter, pc, cur, stale, ticket, nextTicket, ops, last>>
view == <<queue, counter, pc, cur, stale, ticket, nextTicket, ops>>

Ids(q) == {q[i].id : i \in DOMAIN q}
Holding == {p \in Procs : pc[p] = "holding"}

Init ==
  /\ queue = <<>> /\ counter = 0
  /\ pc = [p \in Procs |-> "idle"] /\ cur = [p \in Procs |-> 0]
  /\ stale = {} /\ ticket = [p \in Procs |-> 0] /\ nextTicket = 1 /\ ops = 0
  /\ last = [a |-> "Init", p |-> "", id |-> 0, res |-> 0]

Enqueue(p, id) ==
  /\ counter' = id
  /\ queue' = Append(queue, [id |-> id, owner |-> p])
  /\ cur' = [cur EXCEPT ![p] = id]

StartWait(p) ==
  /\ pc[p] = "idle"
  /\ LET id == counter + 1 IN
     /\ Enqueue(p, id)
     /\ pc' = [pc EXCEPT ![p] = IF queue = <<>> THEN "holding" ELSE "waiting"]
     /\ ticket' = [ticket EXCEPT ![p] = nextTicket] /\ nextTicket' = nextTicket + 1
     /\ last' = [a |-> "StartWait", p |-> p, id |-> id, res |-> IF queue = <<>> THEN id ELSE 0]
  /\ ops' = ops + 1 /\ UNCHANGED stale

\* (the number of a parked waiter is not in the alphabet: nobody knows it before its call returns)
\* the code compares ids, not owners: `for g.waitForUnlock[0] != gID { g.cond.Wait() }`
Wake(p) ==
  /\ pc[p] = "waiting" /\ queue # <<>> /\ Head(queue).id = cur[p]
  /\ pc' = [pc EXCEPT ![p] = "holding"]
  /\ last' = [a |-> "Wake", p |-> p, id |-> cur[p], res |-> cur[p]]
  /\ UNCHANGED <<queue, counter, cur, stale, ticket, nextTicket, ops>>

TryStart(p) ==
  /\ pc[p] = "idle"
  /\ IF queue = <<>>
       THEN LET id == counter + 1 IN
            /\ Enqueue(p, id)
            /\ pc' = [pc EXCEPT ![p] = "holding"]
            /\ ticket' = [ticket EXCEPT ![p] = nextTicket] /\ nextTicket' = nextTicket + 1
            /\ last' = [a |-> "TryStart", p |-> p, id |-> id, res |-> id]
       ELSE /\ UNCHANGED <<queue, counter, cur, pc, ticket, nextTicket>>
            /\ last' = [a |-> "TryStart", p |-> p, id |-> 0, res |-> 0]
  /\ ops' = ops + 1 /\ UNCHANGED stale

\* ids a caller may pass to ReleaseTreasureGuard
Releasable(p) ==
  (IF pc[p] = "holding" THEN {cur[p]} ELSE {})      \* its own live id
  \cup stale                                         \* an id released earlier (own: duplicate; other's: foreign)
  \cup {0}

Release(p, id) ==
  /\ pc[p] # "waiting"                                \* a parked caller cannot call anything
  /\ id \in Releasable(p)
  /\ LET own == pc[p] = "holding" /\ id = cur[p]
         pop == queue # <<>> /\ Head(queue).id = id
     IN
     /\ queue' = IF pop THEN Tail(queue) ELSE queue
     /\ counter' = IF pop /\ Tail(queue) = <<>> /\ "IdReuse" \in Dev THEN 0 ELSE counter
     /\ pc' = IF own THEN [pc EXCEPT ![p] = "idle"] ELSE pc
     /\ cur' = IF own THEN [cur EXCEPT ![p] = 0] ELSE cur
     /\ stale' = IF own THEN stale \cup {id} ELSE stale
     /\ last' = [a |-> "Release", p |-> p, id |-> id, res |-> IF pop THEN 1 ELSE 0]
  /\ ops' = ops + 1 /\ UNCHANGED <<ticket, nextTicket>>

Next ==
  \/ \E p \in Procs : StartWait(p) \/ Wake(p) \/ TryStart(p)
  \/ \E p \in Procs : \E id \in Releasable(p) : Release(p, id)

Spec == Init /\ [][Next]_vars

Bounded == ops <= MaxOps

-----------------------------------------------------------------------------
(* Properties (C15) *)

TypeOK ==
  /\ pc \in [Procs -> {"idle", "waiting", "holding"}]
  /\ counter \in Nat

\* at most one operation holds the record's guard
Exclusive == Cardinality(Holding) <= 1

\* whoever holds is the head of the queue: nobody else's release (duplicate, stale, foreign, waiter's
\* number) can take the guard away from the current holder
HolderIsHead == \A p \in Holding : queue # <<>> /\ Head(queue).owner = p /\ Head(queue).id = cur[p]

\* waiting callers are queued in arrival order, so grants follow arrival order
QueueInArrivalOrder ==
  \A i, j \in DOMAIN queue : i < j => ticket[queue[i].owner] < ticket[queue[j].owner]

\* grant in arrival order, stated on the step itself
GrantFifo ==
  [][\A p \in Procs : (pc[p] = "waiting" /\ pc'[p] = "holding") =>
        \A q \in Procs \ {p} : pc[q] = "waiting" => ticket[p] < ticket[q]]_vars

\* a waiter whose turn has come is eventually granted (liveness of Wake is fairness of the runtime;
\* here: the head of the queue is always either holding or able to wake)
HeadCanProceed == queue # <<>> => LET h == Head(queue).owner IN pc[h] \in {"holding", "waiting"}

=============================================================================
