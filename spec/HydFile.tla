------------------------------- MODULE HydFile -------------------------------
(***************************************************************************)
(* The append-only storage file of a swamp                                 *)
(* (app/core/hydra/swamp/chronicler/v2: writer.go reader.go block.go       *)
(*  types.go, used through chronicler_v2.go).                              *)
(*                                                                         *)
(* File image  = existence, how much of header(+name) is there, the header *)
(*               counters, a sequence of chunks (complete blocks, or the   *)
(*               torn beginning of a block), and a "clobbered" flag.       *)
(* Writer      = open flag, entry buffer, the block being flushed, file    *)
(*               position class, in-memory counters.                       *)
(* One API call (Open, WriteEntry, Flush, Sync, Close) = one action that   *)
(* queues the file operations the call performs in `pend`; FileStep        *)
(* performs them one at a time, so a Crash(tear) or a Fault(mode) can hit  *)
(* every single file operation (create, header, name, block header, block  *)
(* payload, in-place header rewrite, fsync, close, truncate).              *)
(*                                                                         *)
(* Load(disk) is the replay operator written like FileReader.LoadIndex.    *)
(* `ref` is the reference map (last writer wins) of the accepted writes.   *)
(*                                                                         *)
(* Dev = set of named deviations of the code from the strict design:       *)
(*  KeyLen16        a key > 65535 bytes is accepted, its 16-bit length     *)
(*                  wraps and the block no longer parses (or parses as a   *)
(*                  different key)                                   (C01) *)
(*  EmptyKey        an empty key is accepted and the block no longer       *)
(*                  parses                                           (C01) *)
(*  BlockCount16    more than CntLimit entries in one block: the 16-bit    *)
(*                  entry count wraps, the reader sees count mod 2^16(C01) *)
(*  TornTailFails   a torn block payload at the end of the file makes the  *)
(*                  whole load fail                                  (C02) *)
(*  AppendAfterTorn reopening a file with a torn tail appends behind the   *)
(*                  torn bytes                                       (C02) *)
(*  TornCreate      a file shorter than header+name is never repaired:     *)
(*                  the writer cannot open it / keeps appending garbage;   *)
(*                  the chronicler then drops every write silently   (C02) *)
(*  PartialBlockHides   after a failed block write the torn bytes stay and *)
(*                  the next block is appended behind them           (C25) *)
(*  BufferDroppedOnError  the entries of a block whose write failed are    *)
(*                  forgotten                                        (C25) *)
(*  HeaderFaultMisplaces  a failed in-place header rewrite leaves the file *)
(*                  position at the start: the next block overwrites the   *)
(*                  beginning of the file                            (C25) *)
(*  CloseFaultWedges  a failed Close closes the descriptor but the writer  *)
(*                  still counts as open; the buffer is gone         (C25) *)
(*  WriteErrorsSkipped  chronicler.Write cannot open its writer, logs the  *)
(*                  error and forgets the records (caller not told)  (C25) *)
(***************************************************************************)
EXTENDS Integers, Sequences, FiniteSets, TLC

CONSTANTS Keys,      \* key ids
          Vals,      \* value ids
          Nil,       \* "no value"
          CntLimit,  \* largest entry count a block header can hold (65535)
          Dev        \* set of deviation names

VARIABLES disk, w, pend, call, ref, fm, dur, bmaps, crashobs, cnt

vars == <<disk, w, pend, call, ref, fm, dur, bmaps, crashobs, cnt>>

Empty == [k \in Keys |-> Nil]

\* ---------------------------------------------------------------- entries
\* e = [op, k, v, kc, rep, ak, av]
\*  op  "ins" | "upd" | "del"
\*  kc  key class: "ok", "empty" (zero-length key), "over_e" (longer than 65535 bytes, parses as
\*      garbage), "over_a" (longer than 65535 bytes, content such that the wrapped entry parses as
\*      the alias key ak with value av when it is the last entry of its block)
\*  rep number of identical consecutive WriteEntry calls this record stands for
Encodable(e) == e.kc = "ok"
AcceptsBad(e) == \/ e.kc = "empty" /\ "EmptyKey" \in Dev
                 \/ e.kc \in {"over_e", "over_a"} /\ "KeyLen16" \in Dev

ApplyE(m, e) == IF e.op = "del" THEN [m EXCEPT ![e.k] = Nil] ELSE [m EXCEPT ![e.k] = e.v]
RECURSIVE ApplyAll(_, _)
ApplyAll(m, es) == IF es = <<>> THEN m ELSE ApplyAll(ApplyE(m, Head(es)), Tail(es))

RECURSIVE Count(_)
Count(es) == IF es = <<>> THEN 0 ELSE Head(es).rep + Count(Tail(es))

\* first n entries (by multiplicity) of es
RECURSIVE Prefix(_, _)
Prefix(es, n) == IF n <= 0 \/ es = <<>> THEN <<>>
                 ELSE IF Head(es).rep <= n THEN <<Head(es)>> \o Prefix(Tail(es), n - Head(es).rep)
                 ELSE <<[Head(es) EXCEPT !.rep = n]>>

\* ---------------------------------------------------------------- reader
OkRes(m) == [ok |-> TRUE, m |-> m]
ErrRes == [ok |-> FALSE, m |-> Empty]

\* entries the reader parses out of a complete block: the stored 16-bit count decides how many
Visible(c) == IF c.n = Count(c.es) THEN c.es ELSE Prefix(c.es, c.n)

\* replay of one block's visible entries; a mangled entry makes the block unparsable, except an
\* "over_a" entry in last position, which parses as its alias
RECURSIVE ReplayBlock(_, _)
ReplayBlock(m, es) ==
  IF es = <<>> THEN OkRes(m)
  ELSE LET e == Head(es) IN
       IF e.kc = "ok" THEN ReplayBlock(ApplyE(m, e), Tail(es))
       ELSE IF e.kc = "over_a" /\ Tail(es) = <<>> /\ e.rep = 1 THEN OkRes([m EXCEPT ![e.ak] = e.av])
       ELSE ErrRes

IsTorn(c) == c.t # "blk"

\* ttf: the reader fails on a torn payload at the end of the file (deviation TornTailFails)
RECURSIVE ScanD(_, _, _, _)
ScanD(ch, i, m, ttf) ==
  IF i > Len(ch) THEN OkRes(m)
  ELSE LET c == ch[i] IN
       IF c.t = "blk"
         THEN LET r == ReplayBlock(m, Visible(c)) IN IF r.ok THEN ScanD(ch, i + 1, r.m, ttf) ELSE ErrRes
       ELSE IF i < Len(ch) THEN ErrRes            \* bytes of later blocks are read as this block's: checksum fails
       ELSE IF c.t = "tpay" /\ ttf THEN ErrRes    \* unexpected EOF
       ELSE OkRes(m)                              \* torn tail = end of file
Scan(ch, i, m) == ScanD(ch, i, m, "TornTailFails" \in Dev)

\* FileReader.LoadIndex / chronicler Load.  A file shorter than header+name cannot be opened by the
\* reader (nothing was ever stored in it: the chronicler then starts from the empty swamp).
LoadD(d, ttf) ==
  IF ~d.ex THEN OkRes(Empty)
  ELSE IF d.hd < 2 \/ d.clob THEN ErrRes
  ELSE ScanD(d.ch, 1, Empty, ttf)
Load(d) == LoadD(d, "TornTailFails" \in Dev)

\* A named deviation ALLOWS the deviating behaviour, it does not force it (a partly repaired engine is still
\* explained): Alt(x) = the choices for "deviate?" at a decision governed by deviation x.
Alt(x) == IF x \in Dev THEN {TRUE, FALSE} ELSE {FALSE}

LoadMap(d) == Load(d).m

\* As built, torn pieces can end up in the middle of the file (blocks appended behind them).  What the reader
\* makes of the bytes behind the first torn piece depends on the bytes: an error (checksum / garbage header), or
\* the end of the file (the garbage header claims more than is left).  TornRunPrefix(d) is the second outcome.
FirstTorn(ch) == IF \E i \in DOMAIN ch : IsTorn(ch[i]) THEN CHOOSE i \in DOMAIN ch : IsTorn(ch[i]) /\ \A j \in 1..(i - 1) : ~IsTorn(ch[j]) ELSE 0
TornRun(d) == d.ex /\ d.hd = 2 /\ ~d.clob /\ FirstTorn(d.ch) > 0 /\ FirstTorn(d.ch) < Len(d.ch)
TornRunPrefix(d) == Scan(SubSeq(d.ch, 1, FirstTorn(d.ch) - 1), 1, Empty)
\* the load failed although the file has a complete header: stored data became unreadable
Unreadable(d) == d.ex /\ d.hd = 2 /\ ~Load(d).ok

\* ---------------------------------------------------------------- initial state
NoDisk == [ex |-> FALSE, hd |-> 0, nb |-> 0, ne |-> 0, ch |-> <<>>, clob |-> FALSE]
ClosedW == [open |-> FALSE, buf |-> <<>>, cur |-> <<>>, pos |-> "end", dirty |-> FALSE, nb |-> 0, ne |-> 0,
            wedged |-> FALSE]
NoCall == [name |-> "", res |-> "", pre |-> Empty, faulted |-> FALSE, told |-> TRUE]
NoCrash == [n |-> 0, got |-> OkRes(Empty), allowed |-> {Empty}, unreadable |-> FALSE]

Init ==
  /\ disk = NoDisk /\ w = ClosedW /\ pend = <<>> /\ call = NoCall
  /\ ref = Empty /\ fm = Empty /\ dur = Empty /\ bmaps = {Empty}
  /\ crashobs = NoCrash
  /\ cnt = [writes |-> 0, calls |-> 0, crashes |-> 0, faults |-> 0]

Quiescent == pend = <<>>
LastTorn(d) == d.ch # <<>> /\ IsTorn(d.ch[Len(d.ch)])
\* the writer cuts the file at the first block that is not completely there (strict design: only ever the last
\* chunk; as built, torn pieces can lie in the middle and a clobbered file has no readable block at all)
NeedsCut(d) == d.clob \/ FirstTorn(d.ch) > 0
CutTorn(d) == IF d.clob THEN [d EXCEPT !.ch = <<>>, !.clob = FALSE]
              ELSE IF FirstTorn(d.ch) > 0 THEN [d EXCEPT !.ch = SubSeq(@, 1, FirstTorn(d.ch) - 1)] ELSE d
CreateOps(nm) == <<"create", "hdr0">> \o (IF nm THEN <<"name">> ELSE <<>>)

Begin(name, ops) ==
  /\ pend' = ops
  /\ call' = [name |-> name, res |-> IF ops = <<>> THEN "ok" ELSE "", pre |-> ref, faulted |-> FALSE, told |-> TRUE]
Failed(name) == [name |-> name, res |-> "err", pre |-> ref, faulted |-> FALSE, told |-> TRUE]

\* ---------------------------------------------------------------- API calls
\* NewFileWriter / ensureWriter (nm: the new file gets a swamp name after its header)
\* A writer whose Close reported an error may be given up by its owner (the swamp is gone; a later summon
\* makes a new writer): what it still buffered is lost with that reported error.
GivenUp == w.open /\ ~w.wedged /\ call.name = "close" /\ call.res = "err"
Open(nm) ==
  /\ Quiescent /\ (~w.open \/ w.wedged \/ GivenUp)
  /\ cnt' = [cnt EXCEPT !.calls = @ + 1]
  /\ ref' = IF GivenUp /\ Load(disk).ok THEN LoadMap(disk) ELSE ref
  /\ UNCHANGED <<disk, fm, dur, bmaps, crashobs>>
  /\ \/ /\ (~disk.ex \/ disk.hd < 2)                     \* new file, or start over on an unfinished one
        /\ w' = [ClosedW EXCEPT !.open = TRUE] /\ Begin("open", CreateOps(nm))
     \/ /\ disk.ex /\ disk.hd = 0 /\ "TornCreate" \in Dev    \* header unreadable (an old writer is gone)
        /\ w' = ClosedW /\ pend' = <<>> /\ call' = Failed("open")
     \/ /\ disk.ex /\ (disk.hd = 2 \/ (disk.hd = 1 /\ "TornCreate" \in Dev))
        /\ w' = [ClosedW EXCEPT !.open = TRUE, !.nb = disk.nb, !.ne = disk.ne]
        /\ \E keepTorn \in Alt("AppendAfterTorn") :
             \E heal \in (IF disk.clob THEN BOOLEAN ELSE {TRUE}) :
               Begin("open", IF NeedsCut(disk) /\ ~keepTorn /\ heal THEN <<"trunc">> ELSE <<>>)

FlushOps == (IF w.dirty /\ LastTorn(disk) /\ ~disk.clob THEN <<"trunc">> ELSE <<>>) \o <<"bh", "pay", "hdr">>

\* FileWriter.WriteEntry.  fl = the buffer reached the block size with this entry (decided by the
\* byte sizes, which the model does not carry: the exhaustive configuration takes fl from the
\* abstract capacity, trace validation takes it from the recorded execution).
WriteEntry(e, fl, told) ==
  /\ Quiescent /\ w.open /\ ~w.wedged
  /\ cnt' = [cnt EXCEPT !.writes = @ + 1]
  /\ UNCHANGED <<disk, fm, dur, bmaps, crashobs>>
  /\ \/ /\ ~Encodable(e)            \* rejected, nothing stored
        /\ pend' = <<>> /\ call' = Failed("put")
        /\ UNCHANGED <<w, ref>>
     \/ /\ (Encodable(e) \/ AcceptsBad(e))
        /\ (Count(w.buf) + e.rep <= CntLimit \/ "BlockCount16" \in Dev)
        /\ ref' = ApplyE(ref, e)
        /\ IF fl \/ (Count(w.buf) + e.rep >= CntLimit /\ "BlockCount16" \notin Dev)
             THEN /\ w' = [w EXCEPT !.buf = <<>>, !.cur = Append(w.buf, e)]
                  /\ pend' = FlushOps
                  /\ call' = [name |-> "put", res |-> "", pre |-> ref, faulted |-> FALSE, told |-> told]
             ELSE /\ w' = [w EXCEPT !.buf = Append(w.buf, e)]
                  /\ pend' = <<>>
                  /\ call' = [name |-> "put", res |-> "ok", pre |-> ref, faulted |-> FALSE, told |-> told]

StartFlush(name, tail) ==
  IF w.buf = <<>> THEN /\ w' = w /\ Begin(name, tail)
  ELSE /\ w' = [w EXCEPT !.buf = <<>>, !.cur = w.buf] /\ Begin(name, FlushOps \o tail)

Flush == /\ Quiescent /\ w.open /\ ~w.wedged
         /\ StartFlush("flush", <<>>)
         /\ cnt' = [cnt EXCEPT !.calls = @ + 1]
         /\ UNCHANGED <<disk, ref, fm, dur, bmaps, crashobs>>
Sync == /\ Quiescent /\ w.open /\ ~w.wedged
        /\ StartFlush("sync", <<"shdr", "fsync">>)
        /\ cnt' = [cnt EXCEPT !.calls = @ + 1]
        /\ UNCHANGED <<disk, ref, fm, dur, bmaps, crashobs>>
Close == /\ Quiescent /\ w.open /\ ~w.wedged
         /\ StartFlush("close", <<"chdr", "fsync", "close">>)
         /\ cnt' = [cnt EXCEPT !.calls = @ + 1]
         /\ UNCHANGED <<disk, ref, fm, dur, bmaps, crashobs>>

\* as built (chronicler.Write): the writer could not be opened, the error is logged and the records of
\* the batch are forgotten although the caller was told nothing
PutDropped(e) ==
  /\ Quiescent /\ ~w.open /\ ("WriteErrorsSkipped" \in Dev \/ "TornCreate" \in Dev)
  /\ ref' = ApplyE(ref, e)
  /\ call' = [name |-> "put", res |-> "err", pre |-> ref, faulted |-> FALSE, told |-> FALSE]
  /\ cnt' = [cnt EXCEPT !.writes = @ + 1]
  /\ UNCHANGED <<disk, w, pend, fm, dur, bmaps, crashobs>>

\* as built: calls on a writer whose earlier Close failed (descriptor already closed, writer object still in
\* use): entries go into its buffer, every flush / sync / close fails, nothing reaches the file
\* (hit: a fault was injected into an operation the dead writer attempted - it fails anyway)
WedgedFail(name, hit) ==
  /\ Quiescent /\ w.open /\ w.wedged
  /\ call' = [Failed(name) EXCEPT !.faulted = hit] /\ cnt' = [cnt EXCEPT !.calls = @ + 1]
  /\ UNCHANGED <<disk, w, pend, ref, fm, dur, bmaps, crashobs>>
CloseWedged == WedgedFail("close", FALSE)
PutWedged(e, fl, told, hit) ==
  /\ Quiescent /\ w.open /\ w.wedged
  /\ ref' = ApplyE(ref, e)
  /\ call' = [name |-> "put", res |-> IF fl THEN "err" ELSE "ok", pre |-> ref, faulted |-> hit, told |-> told]
  /\ cnt' = [cnt EXCEPT !.writes = @ + 1]
  /\ UNCHANGED <<disk, w, pend, fm, dur, bmaps, crashobs>>

\* ---------------------------------------------------------------- file operations
BlockOf(es) == [t |-> "blk", es |-> es,
                n |-> IF Count(es) > CntLimit THEN Count(es) % (CntLimit + 1) ELSE Count(es)]
DropLast(s) == SubSeq(s, 1, Len(s) - 1)
SetLast(s, x) == [s EXCEPT ![Len(s)] = x]

\* effect of the complete file operation op on the image
DiskAfter(op) ==
  CASE op = "create" -> [NoDisk EXCEPT !.ex = TRUE]
    [] op = "hdr0"   -> [disk EXCEPT !.hd = IF Len(pend) > 1 /\ pend[2] = "name" THEN 1 ELSE 2]
    [] op = "name"   -> [disk EXCEPT !.hd = 2]
    [] op = "trunc"  -> CutTorn(disk)
    [] op = "bh"     -> IF w.pos = "mis" THEN disk     \* (FileStep adds: the file header may be overwritten)
                        ELSE [disk EXCEPT !.ch = Append(@, [BlockOf(w.cur) EXCEPT !.t = "tbh"])]
    [] op = "pay"    -> IF w.pos = "mis" THEN disk
                        ELSE [disk EXCEPT !.ch = SetLast(@, [@[Len(@)] EXCEPT !.t = "blk"])]
    [] op \in {"hdr", "shdr", "chdr"} -> [disk EXCEPT !.nb = w.nb, !.ne = w.ne, !.hd = IF @ = 0 THEN 2 ELSE @]
    [] OTHER -> disk

\* images a torn (partial) execution of op can leave; {} if the operation writes no bytes
TornImages(op) ==
  CASE op = "hdr0" -> {disk}                                   \* fewer than 64 bytes: hd stays 0
    [] op = "name" -> {disk}                                   \* hd stays 1
    [] op = "bh"   -> IF w.pos = "mis" THEN {disk, [disk EXCEPT !.clob = TRUE], [disk EXCEPT !.hd = 0]}
                      ELSE {[disk EXCEPT !.ch = Append(@, [BlockOf(w.cur) EXCEPT !.t = "tbh"])]}
    [] op = "pay"  -> IF w.pos = "mis" THEN {disk, [disk EXCEPT !.clob = TRUE]}
                      ELSE {[disk EXCEPT !.ch = SetLast(@, [@[Len(@)] EXCEPT !.t = "tpay"])]}
    [] op \in {"hdr", "shdr", "chdr"} ->
         {[disk EXCEPT !.ne = w.ne], [disk EXCEPT !.ne = -1, !.nb = -1]}
    [] OTHER -> {}

FileStep ==
  /\ pend # <<>>
  /\ LET op == Head(pend)
         blockDone == op = "pay"
         newfm == IF blockDone /\ w.pos = "end" THEN ApplyAll(fm, w.cur) ELSE fm
     IN
     /\ IF op = "pay" /\ w.pos = "mis"
          THEN disk' \in {disk, [disk EXCEPT !.clob = TRUE]}      \* the block lands inside existing bytes
          ELSE IF op = "bh" /\ w.pos = "mis"
          THEN \* ... or over the file header itself: magic destroyed (hd = 0) or only its other fields
               disk' \in {disk, [disk EXCEPT !.hd = 0], [disk EXCEPT !.clob = TRUE]}
          ELSE IF op \in {"hdr", "shdr", "chdr"} /\ disk.clob
          THEN disk' \in {DiskAfter(op), [DiskAfter(op) EXCEPT !.clob = FALSE]}   \* a damaged header is rewritten
          ELSE disk' = DiskAfter(op)
     /\ w' = CASE op = "pay"   -> [w EXCEPT !.cur = <<>>, !.nb = @ + 1, !.ne = @ + Count(w.cur)]
               [] op = "trunc" -> [w EXCEPT !.dirty = FALSE]
               [] op = "shdr"  -> [w EXCEPT !.pos = "end"]        \* Sync seeks to the end afterwards
               [] op = "close" -> ClosedW
               [] OTHER -> w
     /\ fm' = newfm
     /\ bmaps' = IF op = "fsync" THEN {fm} ELSE IF blockDone THEN bmaps \cup {newfm} ELSE bmaps
     /\ dur' = IF op = "fsync" THEN fm ELSE dur
     /\ pend' = Tail(pend)
     /\ call' = IF Tail(pend) = <<>> THEN [call EXCEPT !.res = "ok"] ELSE call
  /\ UNCHANGED <<ref, crashobs, cnt>>

\* ---------------------------------------------------------------- crash
\* The process dies: tear = "none" (between two file operations) or "part" (some but not all bytes of
\* the operation in flight reached the file).  What is on the file stays, the writer is gone.
CrashImages(tear) ==
  IF tear = "none" THEN {disk}
  ELSE IF pend = <<>> THEN {} ELSE TornImages(Head(pend))

Crash(tear) ==
  /\ \E d \in CrashImages(tear) :
       /\ disk' = d
       /\ crashobs' = [n |-> crashobs.n + 1, got |-> Load(d), allowed |-> bmaps, unreadable |-> Unreadable(d)]
       /\ ref' = LoadMap(d) /\ fm' = LoadMap(d) /\ dur' = LoadMap(d) /\ bmaps' = {LoadMap(d)}
  /\ w' = ClosedW /\ pend' = <<>> /\ call' = [name |-> "crash", res |-> "ok", pre |-> Empty, faulted |-> FALSE, told |-> TRUE]
  /\ cnt' = [cnt EXCEPT !.crashes = @ + 1]

\* ---------------------------------------------------------------- write faults
\* The file operation in flight fails: mode "err" (nothing written) or "short" (part written, then the
\* error).  The call returns the error; the rest of its file operations are not performed.
\* (a writer whose creation fails may also remove the unfinished file)
FaultImages(mode) ==
  (IF mode = "err" \/ TornImages(Head(pend)) = {} THEN {disk} ELSE TornImages(Head(pend)))
  \cup (IF Head(pend) \in {"hdr0", "name"} THEN {NoDisk} ELSE {})

Fault(mode) ==
  /\ pend # <<>>
  /\ LET op == Head(pend)
         inFlush == op \in {"bh", "pay", "trunc"}     \* the block in w.cur has not been written completely
         isPut == call.name = "put"
     IN
     /\ op # "close"                      \* closing a descriptor is not a disk write
     /\ mode = "short" => TornImages(op) # {}
     /\ \E d \in FaultImages(mode) : disk' = d
     /\ \E keep \in BOOLEAN, drop \in Alt("BufferDroppedOnError"), hide \in Alt("PartialBlockHides"),
           mis \in Alt("HeaderFaultMisplaces"), wdg \in Alt("CloseFaultWedges") :
          \* strict: the entries of the failed block go back into the buffer.  The one entry whose own
          \* WriteEntry call reports the error may be kept for a retry or dropped (its caller was told);
          \* entries accepted by earlier calls must survive.
          /\ (~keep) => (isPut /\ call.told /\ inFlush /\ ~drop)
          /\ wdg => call.name = "close"
          /\ LET back == IF keep THEN w.cur ELSE DropLast(w.cur) IN
             w' = CASE call.name = "open" -> ClosedW                     \* NewFileWriter failed
                    [] inFlush /\ drop -> [w EXCEPT !.cur = <<>>, !.wedged = wdg]
                    [] inFlush -> [w EXCEPT !.cur = <<>>, !.buf = back \o w.buf, !.wedged = wdg, !.dirty = ~hide]
                    [] op \in {"hdr", "shdr"} -> [w EXCEPT !.pos = IF mis THEN "mis" ELSE @, !.wedged = wdg]
                    [] OTHER -> [w EXCEPT !.wedged = wdg]
          /\ ref' = IF keep THEN ref ELSE call.pre
  /\ pend' = <<>>
  /\ call' = [call EXCEPT !.res = "err", !.faulted = TRUE]
  /\ cnt' = [cnt EXCEPT !.faults = @ + 1]
  /\ UNCHANGED <<fm, dur, bmaps, crashobs>>

-----------------------------------------------------------------------------
(* Properties *)

TypeOK == /\ disk.hd \in 0..2 /\ w.pos \in {"end", "mis"} /\ call.res \in {"", "ok", "err"}
          /\ \A k \in Keys : ref[k] \in Vals \cup {Nil}

\* C01 (and C02 RecoverableAfter, C25 LaterWritesRecoverable / NoHiding): whenever no call is in
\* progress, what a reader gets from the file plus what the writer still buffers is exactly the
\* last-writer-wins map of the accepted writes - also after a crash recovery or a reported fault.
Consistent ==
  Quiescent => /\ Load(disk).ok \/ disk.hd < 2
               /\ ApplyAll(LoadMap(disk), w.buf) = ref
\* after a successful Sync or Close the file alone holds the state
LWW == (Quiescent /\ call.name \in {"sync", "close"} /\ call.res = "ok") =>
          (Load(disk).ok /\ LoadMap(disk) = ref /\ w.buf = <<>>)
\* C01: a write that cannot be encoded is rejected, never stored
RejectNotMangle ==
  /\ \A i \in DOMAIN disk.ch : \A j \in DOMAIN disk.ch[i].es : Encodable(disk.ch[i].es[j])
  /\ \A j \in DOMAIN w.buf : Encodable(w.buf[j])
  /\ \A i \in DOMAIN disk.ch : Count(disk.ch[i].es) <= CntLimit /\ disk.ch[i].n = Count(disk.ch[i].es)
\* a call fails only because of an injected fault or because the entry cannot be encoded
NoSpuriousError == (call.res = "err" /\ ~call.faulted) => (call.name = "put" /\ call.told)

\* C02, on the load that follows a crash
NoTornFailure == ~crashobs.unreadable
FlushBoundary == crashobs.got.m \in crashobs.allowed      \* some flush boundary at or after the last sync

\* C25 (and C02 for every untorn cut): at every moment the file is readable and shows a flush
\* boundary at or after the last completed sync
DurableReadable == ~Unreadable(disk)
AlwaysRecoverable == Load(disk).ok => LoadMap(disk) \in bmaps
=============================================================================
