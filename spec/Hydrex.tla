------------------------------- MODULE Hydrex -------------------------------
(***************************************************************************)
(* The Hydrex layer of the Go SDK (sdk/go/hydraidego/hydrex/hydrex.go):    *)
(* per index name i and domain d a core swamp holds the domain's items     *)
(* (key -> value); per index name i and key k an index swamp holds the     *)
(* domains that have k (the reverse index).                                *)
(*                                                                         *)
(*   core[<<i,d>>]  set of <<key, value>> pairs  (GetCoreData(i, d))       *)
(*   rev[<<i,k>>]   set of domains               (GetIndexData(i, k))      *)
(*                                                                         *)
(* Save(i, d, items) is modelled the way the code works - by DIFFING the   *)
(* stored keys against the new ones and updating the reverse index only    *)
(* for removed and added keys - so that ReverseIsInverse is a genuine      *)
(* inductive property of the algorithm and not true by definition:         *)
(*   gone  = stored keys not in items   -> d leaves rev[i,k], k leaves core*)
(*   fresh = keys of items not stored   -> k enters core, d enters rev[i,k]*)
(*   kept  = keys in both               -> the value is replaced (strict)  *)
(* Destroy(i, d) removes d from the index of every stored key and drops    *)
(* the core swamp.                                                         *)
(*                                                                         *)
(* Dev: "ValueNotUpdated"  Save skips every key that is already stored:    *)
(*      a kept key keeps its OLD value.                                    *)
(***************************************************************************)
EXTENDS Integers, Sequences, FiniteSets, TLC

CONSTANTS Indexes, Domains, Keys, Vals,
          MaxOps,    \* bound on the number of calls (model checking only)
          Dev        \* subset of {"ValueNotUpdated"}

VARIABLES core, rev,
          saved,     \* history: [<<i,d>> -> items of the last Save, {} after Destroy / before any Save]
          ops,
          last       \* last call (observation only)
vars == <<core, rev, saved, ops, last>>
view == <<core, rev, saved, ops>>

\* items: a set of <<key, value>> pairs with distinct keys (the Go map[string]*CoreData)
KeysOf(S) == {p[1] : p \in S}
IsItems(S) == \A p, q \in S : p[1] = q[1] => p = q
ItemSets == {S \in SUBSET (Keys \X Vals) : IsItems(S)}

Init ==
  /\ core = [c \in Indexes \X Domains |-> {}]
  /\ rev = [r \in Indexes \X Keys |-> {}]
  /\ saved = [c \in Indexes \X Domains |-> {}]
  /\ ops = 0
  /\ last = [a |-> "Init", i |-> "", d |-> "", items |-> {}]

Save(i, d, items) ==
  LET old   == core[<<i, d>>]
      gone  == KeysOf(old) \ KeysOf(items)
      fresh == KeysOf(items) \ KeysOf(old)
      kept  == KeysOf(items) \cap KeysOf(old)
      keepOld == "ValueNotUpdated" \in Dev
  IN /\ IsItems(items)
     /\ core' = [core EXCEPT ![<<i, d>>] =
                    {p \in items : p[1] \in fresh}
                    \cup {p \in (IF keepOld THEN old ELSE items) : p[1] \in kept}]
     /\ rev' = [r \in DOMAIN rev |->
                  IF r[1] # i THEN rev[r]
                  ELSE IF r[2] \in gone THEN rev[r] \ {d}
                  ELSE IF r[2] \in fresh THEN rev[r] \cup {d}
                  ELSE rev[r]]
     /\ saved' = [saved EXCEPT ![<<i, d>>] = items]
     /\ ops' = ops + 1
     /\ last' = [a |-> "Save", i |-> i, d |-> d, items |-> items]

Destroy(i, d) ==
  LET old == core[<<i, d>>]
  IN /\ core' = [core EXCEPT ![<<i, d>>] = {}]
     /\ rev' = [r \in DOMAIN rev |->
                  IF r[1] = i /\ r[2] \in KeysOf(old) THEN rev[r] \ {d} ELSE rev[r]]
     /\ saved' = [saved EXCEPT ![<<i, d>>] = {}]
     /\ ops' = ops + 1
     /\ last' = [a |-> "Destroy", i |-> i, d |-> d, items |-> {}]

Next ==
  /\ ops < MaxOps
  /\ \/ \E i \in Indexes, d \in Domains, items \in ItemSets : Save(i, d, items)
     \/ \E i \in Indexes, d \in Domains : Destroy(i, d)

Spec == Init /\ [][Next]_vars

-----------------------------------------------------------------------------
(* Properties (C27) *)

\* looking up a key returns exactly the domains whose current core data contains that key
ReverseIsInverse ==
  \A r \in DOMAIN rev : rev[r] = {d \in Domains : r[2] \in KeysOf(core[<<r[1], d>>])}

\* reading a domain returns exactly its last saved items: keys ...
DomainKeysAreLastSaved == \A c \in DOMAIN core : KeysOf(core[c]) = KeysOf(saved[c])
\* ... and values
DomainIsLastSaved == \A c \in DOMAIN core : core[c] = saved[c]

TypeOK == \A c \in DOMAIN core : IsItems(core[c])
=============================================================================
