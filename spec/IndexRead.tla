----------------------------- MODULE IndexRead -----------------------------
(***************************************************************************)
(* C07 - ordered index reads (GetByIndex / GetByIndexStream).              *)
(*                                                                         *)
(* The store is a partial map key -> record [c, u, e, v]: createdAt,       *)
(* updatedAt, expireAt (0 = the record does not carry that attribute) and  *)
(* the value, all as dense ranks (order and equality are all an index      *)
(* uses).  Keys are integers whose order is the byte order of the key      *)
(* strings.  A swamp holds values of ONE type `vt` and a value index is    *)
(* only read with the matching index type (SDK: "The index type must match *)
(* the actual data type of the stored value").                             *)
(*                                                                         *)
(* Two things are specified.                                               *)
(*                                                                         *)
(* 1. Correct(st, q, r): the PROPERTY, a predicate on a response r (a      *)
(*    sequence of keys) to a request q = [kind, ord, from, limit, hf, ft,  *)
(*    ht, tt] in store st.  No sort is computed: r must be duplicate free, *)
(*    inside the window set, of the paged length, and every r[i] must sit  *)
(*    at a position (from+i) that its attribute value may occupy in SOME   *)
(*    sorted arrangement of the window set - so ties may come in any order *)
(*    and a tie that straddles a page boundary admits any choice.          *)
(*    The time window [ft, tt) applies to the time indexes only (proto:    *)
(*    "optional fields for time-based index filtering").                   *)
(*                                                                         *)
(* 2. The index machinery of app/core/hydra/swamp (the DESIGN that TLC     *)
(*    checks against the property): per (kind, order) a lazily built,      *)
(*    incrementally maintained ordered slice (`cache`), and the read       *)
(*    algorithm Answer (binary search of the window, offset, limit)        *)
(*    exactly as beacon.go does it.  With Dev = {} the maintenance is the  *)
(*    repaired one (every write leaves every built slice sorted); the      *)
(*    named deviations are what the code does today:                       *)
(*      "StaleAfterUpdate"        an update of an existing record does not *)
(*                                touch the built creation-time, update-   *)
(*                                time and value slices (SaveFunction only *)
(*                                refreshes the expiration slice)          *)
(*      "ValueIndexInt64Resort"   after an insert the shared value slice   *)
(*                                is re-sorted with the int64 comparator,  *)
(*                                which fails for any other value type and *)
(*                                leaves the new record appended at the    *)
(*                                end (addToValueBeacon)                   *)
(*    Invariant ReadsCorrect: whatever Answer returns from a built slice   *)
(*    satisfies Correct, for every request.                                *)
(***************************************************************************)
EXTENDS Integers, Sequences, FiniteSets, TLC

CONSTANTS Keys,      \* set of integers
          Kinds,     \* subset of {"key","created","updated","expire","value"}: the indexes modelled
          Dev,       \* subset of {"StaleAfterUpdate","ValueIndexInt64Resort"}
          CVals, UVals, EVals, VVals,   \* attribute domains (model checking)
          VTs,       \* value types a swamp may have: subset of {"int64","other"}  (model checking)
          MaxFrom, MaxLimit, MaxT       \* request parameter bounds (model checking)

VARIABLES store,     \* [present keys -> [c, u, e, v]]
          vt,        \* value type of this swamp
          cache      \* [Kinds \X Orders -> [b |-> built, s |-> Seq(keys)]]

vars == <<store, vt, cache>>

Orders == {"asc", "desc"}
TimeKinds == {"created", "updated", "expire"}
KO == Kinds \X Orders
Unbuilt == [b |-> FALSE, s |-> <<>>]

-----------------------------------------------------------------------------
(* attributes *)

Attr(st, kind, k) ==
  CASE kind = "key"     -> k
    [] kind = "created" -> st[k].c
    [] kind = "updated" -> st[k].u
    [] kind = "expire"  -> st[k].e
    [] kind = "value"   -> st[k].v

\* the records an index of that kind contains
Carriers(st, kind) ==
  IF kind \in TimeKinds THEN {k \in DOMAIN st : Attr(st, kind, k) # 0} ELSE DOMAIN st

Before(ord, a, b) == IF ord = "asc" THEN a < b ELSE a > b

Range(s) == {s[i] : i \in DOMAIN s}
Min2(a, b) == IF a < b THEN a ELSE b

-----------------------------------------------------------------------------
(* 1. the property *)

InWindow(q, a) == (q.hf = 0 \/ a >= q.ft) /\ (q.ht = 0 \/ a < q.tt)

Window(st, q) ==
  IF q.kind \in TimeKinds THEN {k \in Carriers(st, q.kind) : InWindow(q, Attr(st, q.kind, k))}
  ELSE Carriers(st, q.kind)

PageLen(n, q) ==
  IF q.from >= n THEN 0 ELSE IF q.limit = 0 THEN n - q.from ELSE Min2(q.limit, n - q.from)

Correct(st, q, r) ==
  LET W == Window(st, q)
      A(k) == Attr(st, q.kind, k)
  IN /\ Len(r) = PageLen(Cardinality(W), q)
     /\ \A i \in DOMAIN r : r[i] \in W
     /\ \A i, j \in DOMAIN r : i # j => r[i] # r[j]
     /\ \A i \in DOMAIN r :
          LET lt == Cardinality({k \in W : Before(q.ord, A(k), A(r[i]))})
              le == Cardinality({k \in W : ~Before(q.ord, A(r[i]), A(k))})
          IN lt < q.from + i /\ q.from + i <= le

-----------------------------------------------------------------------------
(* 2. the index machinery *)

IsSorted(st, kind, ord, s) ==
  \A i \in 1..(Len(s) - 1) : ~Before(ord, Attr(st, kind, s[i + 1]), Attr(st, kind, s[i]))

\* every arrangement of S sorted by the attribute (sort.Slice is not stable; map iteration order is random)
RECURSIVE SortedPerms(_, _, _, _)
SortedPerms(st, kind, ord, S) ==
  IF S = {} THEN {<<>>}
  ELSE LET firsts == {k \in S : \A j \in S : ~Before(ord, Attr(st, kind, j), Attr(st, kind, k))}
       IN UNION {{<<k>> \o t : t \in SortedPerms(st, kind, ord, S \ {k})} : k \in firsts}

Without(s, k) == SelectSeq(s, LAMBDA x : x # k)

\* the loops of beacon.findTimeRangeBounds: `right` says for each 0-based index whether the probe moves l
RECURSIVE BSearch(_, _, _)
BSearch(right, l, r) ==
  IF l >= r THEN l
  ELSE LET m == l + ((r - l) \div 2)
       IN IF right[m + 1] THEN BSearch(right, m + 1, r) ELSE BSearch(right, l, m)

\* inclusive 0-based bounds <<start, end>> of the window in slice s, (0,-1) when empty
Bounds(st, q, s) ==
  LET n == Len(s)
      ts(i) == Attr(st, q.kind, s[i])
      asc == q.ord = "asc"
      start == IF asc
                 THEN (IF q.hf = 1 THEN BSearch([i \in 1..n |-> ts(i) < q.ft], 0, n) ELSE 0)
                 ELSE (IF q.ht = 1 THEN BSearch([i \in 1..n |-> ~(ts(i) < q.tt)], 0, n) ELSE 0)
      end ==   IF asc
                 THEN (IF q.ht = 1 THEN BSearch([i \in 1..n |-> ts(i) < q.tt], 0, n) - 1 ELSE n - 1)
                 ELSE (IF q.hf = 1 THEN BSearch([i \in 1..n |-> ~(ts(i) < q.ft)], 0, n) - 1 ELSE n - 1)
  IN IF n = 0 \/ start > end \/ start >= n \/ end < 0 THEN <<0, -1>> ELSE <<start, end>>

\* beacon.GetManyFromOrderPosition on slice s (swamp.GetTreasuresByBeacon turns limit 0 into the record count)
Answer(st, q, s) ==
  LET n == Len(s)
      windowed == q.kind \in TimeKinds /\ (q.hf = 1 \/ q.ht = 1)
      b == IF windowed THEN Bounds(st, q, s) ELSE <<0, n - 1>>
      limit == IF q.limit = 0 THEN Cardinality(DOMAIN st) ELSE q.limit
      aStart == b[1] + q.from
      aEnd == IF limit = 0 THEN b[2] ELSE Min2(aStart + limit - 1, b[2])
  IN IF b[2] < b[1] \/ aStart > b[2] \/ aEnd < aStart THEN <<>>
     ELSE [i \in 1..(aEnd - aStart + 1) |-> s[aStart + i]]

\* possible contents of a built slice after key k was inserted
AfterInsert(st2, kind, ord, s, k) ==
  IF k \notin Carriers(st2, kind) THEN {s}
  ELSE IF kind = "value" /\ "ValueIndexInt64Resort" \in Dev /\ vt # "int64" THEN {Append(s, k)}
  ELSE SortedPerms(st2, kind, ord, Range(s) \cup {k})

\* ... after an existing record k was saved again
AfterUpdate(st2, kind, ord, s, k) ==
  IF "StaleAfterUpdate" \in Dev /\ kind \in {"created", "updated", "value"} THEN {s}
  ELSE IF kind = "key" THEN {s}
  ELSE SortedPerms(st2, kind, ord, (Range(s) \ {k}) \cup ({k} \cap Carriers(st2, kind)))

\* all functions f on the domain of `choices` with f[d] \in choices[d]
RECURSIVE Prod(_)
Prod(choices) ==
  IF DOMAIN choices = {} THEN {<<>>}
  ELSE LET d == CHOOSE x \in DOMAIN choices : TRUE
           rest == Prod([x \in DOMAIN choices \ {d} |-> choices[x]])
       IN UNION {{(d :> v) @@ f : f \in rest} : v \in choices[d]}

\* possible values of one cache entry cv = cache[ko] after a write / the first read of its kind
Built(S) == {[b |-> TRUE, s |-> t] : t \in S}
EntryAfterInsert(ko, cv, st2, k) == IF cv.b THEN Built(AfterInsert(st2, ko[1], ko[2], cv.s, k)) ELSE {cv}
EntryAfterUpdate(ko, cv, st2, k) == IF cv.b THEN Built(AfterUpdate(st2, ko[1], ko[2], cv.s, k)) ELSE {cv}
EntryAfterDelete(cv, k) == [b |-> cv.b, s |-> Without(cv.s, k)]
\* swamp.buildBeacon: both orders of a kind are built on the first read of either
EntryAfterBuild(ko, cv, st, kind) ==
  IF ko[1] = kind /\ ~cv.b THEN Built(SortedPerms(st, kind, ko[2], Carriers(st, kind))) ELSE {cv}

\* the set of possible caches after a write / a build
CachesAfterInsert(ca, st2, k) == Prod([ko \in DOMAIN ca |-> EntryAfterInsert(ko, ca[ko], st2, k)])
CachesAfterUpdate(ca, st2, k) == Prod([ko \in DOMAIN ca |-> EntryAfterUpdate(ko, ca[ko], st2, k)])
CacheAfterDelete(ca, k) == [ko \in DOMAIN ca |-> EntryAfterDelete(ca[ko], k)]
CachesAfterBuild(ca, st, kind) == Prod([ko \in DOMAIN ca |-> EntryAfterBuild(ko, ca[ko], st, kind)])

-----------------------------------------------------------------------------
(* actions (model checking) *)

Recs == [c : CVals, u : UVals, e : EVals, v : VVals]

Init ==
  /\ store = <<>>
  /\ vt \in VTs
  /\ cache = [ko \in KO |-> Unbuilt]

Insert(k, rec) ==
  /\ k \notin DOMAIN store
  /\ store' = (k :> rec) @@ store
  /\ cache' \in CachesAfterInsert(cache, store', k)
  /\ UNCHANGED vt

\* the gateway cannot clear a timestamp: Set only overrides the ones given (non-zero)
Update(k, rec) ==
  /\ k \in DOMAIN store
  /\ rec # store[k]
  /\ (store[k].c # 0 => rec.c # 0) /\ (store[k].u # 0 => rec.u # 0) /\ (store[k].e # 0 => rec.e # 0)
  /\ store' = [store EXCEPT ![k] = rec]
  /\ cache' \in CachesAfterUpdate(cache, store', k)
  /\ UNCHANGED vt

Delete(k) ==
  /\ k \in DOMAIN store
  /\ store' = [x \in DOMAIN store \ {k} |-> store[x]]
  /\ cache' = CacheAfterDelete(cache, k)
  /\ UNCHANGED vt

\* the first read of an index kind builds it (later reads change nothing)
Read(kind) ==
  /\ ~cache[<<kind, "asc">>].b
  /\ cache' \in CachesAfterBuild(cache, store, kind)
  /\ UNCHANGED <<store, vt>>

Next ==
  \/ \E k \in Keys, rec \in Recs : Insert(k, rec) \/ Update(k, rec)
  \/ \E k \in Keys : Delete(k)
  \/ \E kind \in Kinds : Read(kind)

Spec == Init /\ [][Next]_vars

-----------------------------------------------------------------------------
(* properties *)

\* every request in the bounds; an absent window bound is written as flag 0, value 0
Bound == {<<0, 0>>} \cup {<<1, t>> : t \in 0..MaxT}
Requests(kind, ord) ==
  {[kind |-> kind, ord |-> ord, from |-> f, limit |-> lm, hf |-> lo[1], ft |-> lo[2], ht |-> hi[1], tt |-> hi[2]] :
     f \in 0..MaxFrom, lm \in 0..MaxLimit, lo \in Bound, hi \in Bound}

TypeOK ==
  /\ DOMAIN store \subseteq Keys
  /\ \A ko \in KO : Range(cache[ko].s) \subseteq DOMAIN store

\* every read that the machinery can serve from a built slice is a correct page
ReadsCorrect ==
  \A ko \in KO : cache[ko].b =>
    \A q \in Requests(ko[1], ko[2]) : Correct(store, q, Answer(store, q, cache[ko].s))

\* the slices hold exactly the carriers, in order (what ReadsCorrect rests on; also a vacuity guard)
SlicesSorted ==
  \A ko \in KO : cache[ko].b =>
    /\ Range(cache[ko].s) = Carriers(store, ko[1])
    /\ Len(cache[ko].s) = Cardinality(Carriers(store, ko[1]))
    /\ IsSorted(store, ko[1], ko[2], cache[ko].s)
=============================================================================
