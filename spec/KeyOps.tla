------------------------------- MODULE KeyOps -------------------------------
(***************************************************************************)
(* C09 - how a swamp executes per-key requests, at the granularity of the  *)
(* code's atomic steps (swamp.go CreateTreasure / SaveFunction /           *)
(* deleteHandler / CloneAndDeleteTreasuresByKeys / IncrementXxx,           *)
(* swamp_patch.go PatchFields, gateway.go Set / Delete / ShiftByKeys /     *)
(* Get, guard.go).                                                         *)
(*                                                                         *)
(* Shared state: the key index (beaconKey: key -> treasure object), the    *)
(* in-flight tracker (creatingTreasures), the content of every treasure    *)
(* object, and one FIFO guard (queue of ids + id counter) per object.      *)
(* A request of client p walks through                                     *)
(*   pre    unguarded look-ups (existence checks, early exits)             *)
(*   bind   get-or-create the treasure object for the key and              *)
(*          StartTreasureGuard: take an id, join the object's queue        *)
(*   wait   parked until the id is at the head of the queue; leaving the   *)
(*          wait loop is one step with the first thing done under the      *)
(*          guard (Val): validation / read / clone / unpublish             *)
(*   wr     second step under the guard: set content + Save (publishes a   *)
(*          new object; when the swamp is persistent with write interval 0 *)
(*          Save itself releases the guard before writing the file)        *)
(*   rel    the deferred ReleaseTreasureGuard of the caller (in immediate  *)
(*          mode this is a second release of the same id)                  *)
(*   done   response ready                                                 *)
(*                                                                         *)
(* Dev = {} is the STRICT design: the one that makes every request atomic  *)
(* (what C09 demands).  It differs from the code as built in that, once    *)
(* the guard is held, the request re-validates that the object it queued   *)
(* on is still the object of its key (otherwise it starts over), evaluates *)
(* the Set flags / Delete result under the guard, and Shift clones and     *)
(* unpublishes under ONE guard hold.  Named deviations = the code:         *)
(*   "IdReuse"   guard ids restart at 1 when a queue empties (repaired by  *)
(*               a49b58d; kept to show that the double release of          *)
(*               immediate-write mode then loses updates)                  *)
(*   "SetCheck"  Set evaluates CreateIfNotExist / Overwrite with           *)
(*               TreasureExists BEFORE taking the guard                    *)
(*   "DelCheck"  Delete decides DELETED / NOT_FOUND with IsExists before   *)
(*               deleteHandler looks the object up again                   *)
(*   "ShiftGap"  ShiftByKeys clones under one guard hold, releases, and    *)
(*               deletes under a second one                                *)
(*   "Stale"     no re-validation: a request that queued on an object      *)
(*               which was meanwhile deleted runs on the dead object       *)
(*               (whose content is kept unless it had been flushed) and    *)
(*               Save publishes it again                                   *)
(*   "DelTorn"   deleteHandler drops the content of a flushed object       *)
(*               (BodySetForDeletion) some statements before it removes    *)
(*               the key from the index: a lock-free reader in between     *)
(*               gets an existing record without a value                   *)
(***************************************************************************)
EXTENDS Integers, Sequences, FiniteSets, TLC

CONSTANTS Procs,    \* clients
          Keys,     \* keys
          Dev,      \* subset of DevNames
          Mode,     \* "pi" persistent + write interval 0, "pd" persistent + interval > 0, "mm" in-memory
          MaxObj,   \* bound on treasure objects ever allocated
          TrackAbs  \* TRUE: maintain the atomic reference state next to the concrete one (model checking)

DevNames == {"IdReuse", "SetCheck", "DelCheck", "ShiftGap", "Stale", "DelTorn"}
\* (the configuration is carried in the shared state, sh.mode, so that trace validation can switch it per history)
Immediate(s) == s.mode = "pi"
\* a deleted object's content is dropped only if the object had been written to a file
FlushChoices(s) == IF s.mode = "mm" THEN {FALSE} ELSE {TRUE, FALSE}

VARIABLES sh,    \* shared: [mode, beacon, creating, content, nobj, gq, gctr]
          ps,    \* [Procs -> request state]
          abs,   \* [Keys -> value] atomic reference state (only if TrackAbs)
          used   \* deviations whose effect was exercised on this path

kvars == <<sh, ps, abs, used>>

Objs == 1..MaxObj
None == [t |-> "none", v |-> 0]
NoRes == [st |-> "", t |-> "", v |-> 0]
NoOp == [op |-> "", k |-> "", a |-> 0, c |-> "", cv |-> 0, cr |-> 0, ow |-> 0, ty |-> ""]
IdleP == [pc |-> "idle", o |-> NoOp, b |-> 0, gid |-> 0, rd |-> 0, isc |-> FALSE, crt |-> FALSE, sav |-> FALSE,
          ph |-> 0, res |-> NoRes, ares |-> NoRes]

Res(st, t, v) == [st |-> st, t |-> t, v |-> v]

-----------------------------------------------------------------------------
(* the atomic reference model (identical to Trace_Lin!Apply) *)
CondHolds(c, x, cv) ==
  CASE c = ""   -> TRUE
    [] c = "eq" -> x = cv
    [] c = "ne" -> x # cv
    [] c = "gt" -> x > cv
    [] c = "ge" -> x >= cv
    [] c = "lt" -> x < cv
    [] c = "le" -> x <= cv

Apply(o, cur) ==
  CASE o.op = "set" ->
         IF o.cr = 0 /\ cur.t = "none" THEN [nv |-> cur, res |-> Res("NOT_FOUND", "", 0)]
         ELSE IF o.ow = 0 /\ cur.t # "none" THEN [nv |-> cur, res |-> Res("NOTHING_CHANGED", "", 0)]
         ELSE LET nv == [t |-> o.ty, v |-> o.a] IN
              [nv |-> nv,
               res |-> Res(IF cur.t = "none" THEN "NEW" ELSE IF cur = nv THEN "NOTHING_CHANGED" ELSE "UPDATED", "", 0)]
    [] o.op = "inc" ->
         IF cur.t \notin {"none", "i64"} THEN [nv |-> cur, res |-> Res("ERR", "", 0)]
         ELSE LET x == IF cur.t = "none" THEN 0 ELSE cur.v IN
              IF CondHolds(o.c, x, o.cv)
                THEN [nv |-> [t |-> "i64", v |-> x + o.a], res |-> Res("INC", "", x + o.a)]
                ELSE [nv |-> cur, res |-> Res("NOINC", "", x)]
    [] o.op = "patch" ->
         CASE cur.t = "none" -> IF o.cr = 1 THEN [nv |-> [t |-> "map", v |-> o.a], res |-> Res("CREATED", "", 0)]
                                            ELSE [nv |-> cur, res |-> Res("KEY_NOT_FOUND", "", 0)]
           [] cur.t = "map"  -> [nv |-> [t |-> "map", v |-> cur.v + o.a], res |-> Res("PATCHED", "", 0)]
           [] OTHER          -> [nv |-> cur, res |-> Res("TYPE_MISMATCH", "", 0)]
    [] o.op = "del" ->
         IF cur.t = "none" THEN [nv |-> cur, res |-> Res("NOT_FOUND", "", 0)]
                           ELSE [nv |-> None, res |-> Res("DELETED", "", 0)]
    [] o.op = "shift" ->
         IF cur.t = "none" THEN [nv |-> cur, res |-> Res("MISS", "", 0)]
                           ELSE [nv |-> None, res |-> Res("HIT", cur.t, cur.v)]
    [] o.op = "get" ->
         IF cur.t = "none" THEN [nv |-> cur, res |-> Res("MISS", "", 0)]
                           ELSE [nv |-> cur, res |-> Res("HIT", cur.t, cur.v)]

-----------------------------------------------------------------------------
(* helpers on the shared state *)

InitShared(m) == [mode |-> m, beacon |-> [k \in Keys |-> 0], creating |-> [k \in Keys |-> 0],
               content |-> [x \in Objs |-> None], nobj |-> 0,
               gq |-> [x \in Objs |-> <<>>], gctr |-> [x \in Objs |-> 0]]

\* what a reader sees of a published object: an object without content is returned as a void treasure
Seen(c) == IF c.t = "none" THEN [t |-> "void", v |-> 0] ELSE c

\* the client-visible value of a key
View(s, k) == IF s.beacon[k] = 0 THEN None ELSE Seen(s.content[s.beacon[k]])

\* ReleaseTreasureGuard(id) on object x
GRel(s, x, id) ==
  IF s.gq[x] # <<>> /\ Head(s.gq[x]) = id
    THEN [s EXCEPT !.gq[x] = Tail(@),
                   !.gctr[x] = IF "IdReuse" \in Dev /\ Tail(s.gq[x]) = <<>> THEN 0 ELSE @]
    ELSE s

\* the object is still the one a new request for key k would get
Current(s, x, k) == s.beacon[k] = x \/ (s.beacon[k] = 0 /\ s.creating[k] = x)

\* SaveFunction: publishes the object when the key has none (any stale write-buffer entry is irrelevant here)
Saved(s, x, k) == IF s.beacon[k] = 0 THEN [s EXCEPT !.beacon[k] = x, !.creating[k] = 0] ELSE s

\* record the response; the atomic reference state takes the request's effect at this very step
Finish(p, pcNext, r, rest) ==
  LET o == ps[p].o
      ap == Apply(o, abs[o.k]) IN
  /\ ps' = [ps EXCEPT ![p] = [rest EXCEPT !.pc = pcNext, !.res = r, !.ares = IF TrackAbs THEN ap.res ELSE NoRes]]
  /\ abs' = IF TrackAbs THEN [abs EXCEPT ![o.k] = ap.nv] ELSE abs

Goto(p, pcNext, rest) == ps' = [ps EXCEPT ![p] = [rest EXCEPT !.pc = pcNext]] /\ UNCHANGED abs

Use(d) == used' = used \cup d

-----------------------------------------------------------------------------
(* steps *)

\* a request enters (model checking: chosen from an alphabet; trace validation: from the log)
Begin(p, o) ==
  /\ ps[p].pc = "idle"
  /\ ps' = [ps EXCEPT ![p] = [IdleP EXCEPT !.pc = "pre", !.o = o]]
  /\ UNCHANGED <<sh, abs, used>>

\* get-or-create (CreateTreasure under createMu, or the plain beaconKey.Get that precedes it)
BindObj(s, k) ==
  IF s.beacon[k] # 0 THEN [s |-> s, x |-> s.beacon[k]]
  ELSE IF s.creating[k] # 0 THEN [s |-> s, x |-> s.creating[k]]
  ELSE [s |-> [s EXCEPT !.nobj = @ + 1, !.creating[k] = s.nobj + 1], x |-> s.nobj + 1]

CanBind(s, k) == s.beacon[k] # 0 \/ s.creating[k] # 0 \/ s.nobj < MaxObj

\* StartTreasureGuard(true) on object x up to the wait loop: take the next id, join the queue.
\* (Look-up and enqueue are one step: nothing another request does between the two can tell the
\* difference, the queue order among requests that have not run yet is arbitrary anyway.)
Queue(p, s, x, rest) ==
  LET id == s.gctr[x] + 1 IN
  /\ sh' = [s EXCEPT !.gq[x] = Append(@, id), !.gctr[x] = id]
  /\ ps' = [ps EXCEPT ![p] = [rest EXCEPT !.pc = "wait", !.b = x, !.gid = id]]
  /\ UNCHANGED abs

BindAndQueue(p, me) ==
  LET k == me.o.k  r == BindObj(sh, k) IN
  /\ CanBind(sh, k)
  /\ Queue(p, r.s, r.x, [me EXCEPT !.crt = (sh.beacon[k] = 0), !.ph = 0])

Pre(p) ==
  LET me == ps[p]  o == me.o  k == o.k IN
  /\ me.pc = "pre"
  /\ CASE o.op = "get" ->
            /\ Finish(p, "done", IF sh.beacon[k] = 0 THEN Res("MISS", "", 0)
                                 ELSE LET c == Seen(sh.content[sh.beacon[k]]) IN Res("HIT", c.t, c.v), me)
            /\ used' = used \cup (IF sh.beacon[k] # 0 /\ sh.content[sh.beacon[k]].t = "none" THEN {"DelTorn"} ELSE {})
            /\ UNCHANGED sh
       [] o.op = "set" ->
            IF "SetCheck" \in Dev
              THEN \* gateway.Set: TreasureExists before CreateTreasure / StartTreasureGuard
                   IF o.cr = 0 /\ sh.beacon[k] = 0 THEN Finish(p, "done", Res("NOT_FOUND", "", 0), me) /\ UNCHANGED <<sh, used>>
                   ELSE IF o.ow = 0 /\ sh.beacon[k] # 0 THEN Finish(p, "done", Res("NOTHING_CHANGED", "", 0), me) /\ UNCHANGED <<sh, used>>
                   ELSE IF o.cr = 1 /\ o.ow = 1 THEN BindAndQueue(p, me) /\ UNCHANGED used   \* no check is made
                   ELSE Goto(p, "bind", me) /\ UNCHANGED <<sh, used>>
              ELSE BindAndQueue(p, me) /\ UNCHANGED used
       [] o.op = "inc" -> BindAndQueue(p, me) /\ UNCHANGED used
       [] o.op = "patch" ->
            \* PatchFields best-effort early exit, then a second look-up
            IF o.cr = 0 /\ sh.beacon[k] = 0 THEN Finish(p, "done", Res("KEY_NOT_FOUND", "", 0), me) /\ UNCHANGED <<sh, used>>
            ELSE IF o.cr = 1 THEN BindAndQueue(p, me) /\ UNCHANGED used
            ELSE Goto(p, "bind", me) /\ UNCHANGED <<sh, used>>
       [] o.op = "del" ->
            IF sh.beacon[k] = 0 THEN Finish(p, "done", Res("NOT_FOUND", "", 0), me) /\ UNCHANGED <<sh, used>>
            ELSE IF "DelCheck" \in Dev
              THEN Goto(p, "pre2", me) /\ UNCHANGED <<sh, used>>       \* IsExists, then deleteHandler looks up again
              ELSE Queue(p, sh, sh.beacon[k], [me EXCEPT !.ph = 2]) /\ UNCHANGED used
       [] o.op = "shift" ->
            IF sh.beacon[k] = 0 THEN Finish(p, "done", Res("MISS", "", 0), me) /\ UNCHANGED <<sh, used>>
            ELSE Queue(p, sh, sh.beacon[k], [me EXCEPT !.ph = 1]) /\ UNCHANGED used

Bind(p) ==
  /\ ps[p].pc = "bind"
  /\ BindAndQueue(p, ps[p])
  /\ UNCHANGED used

\* deleteHandler: s.beaconKey.Get(key) again
Pre2(p) ==
  LET me == ps[p]  o == me.o  k == o.k IN
  /\ me.pc = "pre2"
  /\ IF sh.beacon[k] = 0
       THEN \* nothing to delete any more
            /\ IF o.op = "del" THEN Finish(p, "done", Res("DELETED", "", 0), me) /\ Use({"DelCheck"})
                               ELSE Goto(p, "done", me) /\ Use({"ShiftGap"})
            /\ UNCHANGED sh
       ELSE /\ Queue(p, sh, sh.beacon[k], [me EXCEPT !.ph = 2])
            /\ UNCHANGED used

\* the caller starts over (strict design only)
Retry(p, me) ==
  /\ sh' = GRel(sh, me.b, me.gid)
  /\ Goto(p, "pre", [me EXCEPT !.b = 0, !.gid = 0, !.ph = 0, !.crt = FALSE])
  /\ UNCHANGED used

\* the wait loop `for g.waitForUnlock[0] != gID { g.cond.Wait() }` exits, and the first thing done under the guard
Val(p) ==
  LET me == ps[p]  o == me.o  k == o.k  x == me.b  c == sh.content[x] IN
  /\ me.pc = "wait"
  /\ sh.gq[x] # <<>> /\ Head(sh.gq[x]) = me.gid
  /\ CASE me.ph = 2 ->
            \* deleteHandler under the guard: mark, unpublish BY KEY
            IF o.op = "del" /\ "DelCheck" \notin Dev /\ sh.beacon[k] # x THEN Retry(p, me)
            ELSE
              \/ /\ "DelTorn" \in Dev /\ TRUE \in FlushChoices(sh) /\ sh.beacon[k] = x
                 /\ sh' = [sh EXCEPT !.content[x] = None]          \* BodySetForDeletion; the key is still indexed
                 /\ Goto(p, "unpub", me)
                 /\ used' = used \cup (IF o.op = "shift" /\ Seen(c) # [t |-> me.res.t, v |-> me.res.v] THEN {"ShiftGap"} ELSE {})
              \/ \E fl \in (IF "Stale" \in Dev THEN FlushChoices(sh) ELSE {TRUE}) :
                   /\ sh' = [sh EXCEPT !.content[x] = IF fl THEN None ELSE @, !.beacon[k] = 0]
                   /\ IF o.op = "del"
                        THEN Finish(p, "rel", Res("DELETED", "", 0), me)
                        ELSE Goto(p, "rel", me)
                   /\ used' = used \cup (IF o.op = "del" /\ sh.beacon[k] # x THEN {"DelCheck"} ELSE {})
                                   \cup (IF o.op = "shift" /\ (sh.beacon[k] # x \/ Seen(c) # [t |-> me.res.t, v |-> me.res.v]) THEN {"ShiftGap"} ELSE {})
       [] me.ph = 1 ->
            IF "ShiftGap" \in Dev
              THEN \* CloneAndDeleteTreasuresByKeys: clone, release, then deleteHandler
                   /\ sh' = GRel(sh, x, me.gid)
                   /\ Finish(p, "pre2", Res("HIT", Seen(c).t, Seen(c).v), me)
                   /\ used' = used \cup (IF sh.beacon[k] # x THEN {"Stale"} ELSE {})
              ELSE IF sh.beacon[k] # x THEN Retry(p, me)
              ELSE \E fl \in (IF "Stale" \in Dev THEN FlushChoices(sh) ELSE {TRUE}) :
                   /\ sh' = [sh EXCEPT !.content[x] = IF fl THEN None ELSE @, !.beacon[k] = 0]
                   /\ Finish(p, "rel", Res("HIT", Seen(c).t, Seen(c).v), me)
                   /\ UNCHANGED used
       [] OTHER ->
            IF "Stale" \notin Dev /\ ~Current(sh, x, k) THEN Retry(p, me)
            ELSE /\ used' = used \cup (IF ~Current(sh, x, k) THEN {"Stale"} ELSE {})
                 /\ CASE o.op = "set" ->
                           IF "SetCheck" \notin Dev /\ o.cr = 0 /\ sh.beacon[k] = 0
                             THEN Finish(p, "rel", Res("NOT_FOUND", "", 0), me) /\ UNCHANGED sh
                           ELSE IF "SetCheck" \notin Dev /\ o.ow = 0 /\ sh.beacon[k] # 0
                             THEN Finish(p, "rel", Res("NOTHING_CHANGED", "", 0), me) /\ UNCHANGED sh
                           ELSE Goto(p, "wr", me) /\ UNCHANGED sh
                      [] o.op = "inc" ->
                           IF c.t \notin {"none", "i64"} THEN Finish(p, "rel", Res("ERR", "", 0), me) /\ UNCHANGED sh
                           ELSE LET y == IF c.t = "none" THEN 0 ELSE c.v IN
                                \* the void branch stores 0 before the condition is evaluated
                                /\ sh' = IF c.t = "none" THEN [sh EXCEPT !.content[x] = [t |-> "i64", v |-> 0]] ELSE sh
                                /\ IF CondHolds(o.c, y, o.cv) THEN Goto(p, "wr", [me EXCEPT !.rd = y])
                                                              ELSE Finish(p, "rel", Res("NOINC", "", y), me)
                      [] o.op = "patch" ->
                           CASE c.t = "none" -> IF o.cr = 0 THEN Finish(p, "rel", Res("KEY_NOT_FOUND", "", 0), me) /\ UNCHANGED sh
                                                            ELSE Goto(p, "wr", [me EXCEPT !.rd = 0, !.isc = TRUE]) /\ UNCHANGED sh
                             [] c.t = "map"  -> Goto(p, "wr", [me EXCEPT !.rd = c.v, !.isc = FALSE]) /\ UNCHANGED sh
                             [] OTHER        -> Finish(p, "rel", Res("TYPE_MISMATCH", "", 0), me) /\ UNCHANGED sh

\* the rest of deleteHandler after BodySetForDeletion: s.beaconKey.Delete(key)
Unpub(p) ==
  LET me == ps[p]  o == me.o  k == o.k IN
  /\ me.pc = "unpub"
  /\ sh' = [sh EXCEPT !.beacon[k] = 0]
  /\ IF o.op = "del" THEN Finish(p, "rel", Res("DELETED", "", 0), me) ELSE Goto(p, "rel", me)
  /\ UNCHANGED used

\* set content + Save
Wr(p) ==
  LET me == ps[p]  o == me.o  k == o.k  x == me.b
      nv == CASE o.op = "set" -> [t |-> o.ty, v |-> o.a]
              [] o.op = "inc" -> [t |-> "i64", v |-> me.rd + o.a]
              [] o.op = "patch" -> [t |-> "map", v |-> me.rd + o.a]
      pub == sh.beacon[k] = 0
      s1 == Saved([sh EXCEPT !.content[x] = nv], x, k)
      s2 == IF Immediate(sh) THEN GRel(s1, x, me.gid) ELSE s1       \* in-save release
      r == CASE o.op = "set" -> Res(IF pub THEN "NEW" ELSE IF sh.content[x] = nv THEN "NOTHING_CHANGED" ELSE "UPDATED", "", 0)
             [] o.op = "inc" -> Res("INC", "", nv.v)
             [] o.op = "patch" -> Res(IF me.isc THEN "CREATED" ELSE "PATCHED", "", 0) IN
  /\ me.pc = "wr"
  /\ \/ /\ sh' = s2
        /\ Finish(p, "rel", r, [me EXCEPT !.sav = TRUE])
        /\ used' = used \cup (IF o.op = "set" /\ ((o.ow = 0 /\ ~pub) \/ (o.cr = 0 /\ pub)) THEN {"SetCheck"} ELSE {})
     \/ \* SaveFunction's look-up and beaconKey.Add are two steps: when a dead object and a fresh one are saved for the same
        \* key at the same time (only possible under Stale), both see the key absent, both take the "new" branch, and
        \* Add keeps whichever came first: this Save answers as a creation but its object stays unpublished
        /\ "Stale" \in Dev /\ sh.beacon[k] # 0 /\ sh.beacon[k] # x
        /\ LET s3 == [sh EXCEPT !.content[x] = nv, !.creating[k] = 0]
               s4 == IF Immediate(sh) THEN GRel(s3, x, me.gid) ELSE s3
               r2 == CASE o.op = "set" -> Res("NEW", "", 0)
                       [] o.op = "inc" -> Res("INC", "", nv.v)
                       [] o.op = "patch" -> Res(IF me.isc THEN "CREATED" ELSE "PATCHED", "", 0) IN
          /\ sh' = s4
          /\ Finish(p, "rel", r2, [me EXCEPT !.sav = TRUE])
          /\ used' = used \cup {"Stale"}

\* the caller's deferred ReleaseTreasureGuard (+ PatchFields' deferred clean-up of the in-flight tracker)
Rel(p) ==
  LET me == ps[p]  o == me.o  k == o.k
      s1 == GRel(sh, me.b, me.gid)
      s2 == IF o.op = "patch" /\ me.crt /\ ~me.sav THEN [s1 EXCEPT !.creating[k] = 0] ELSE s1 IN
  /\ me.pc = "rel"
  /\ sh' = s2
  /\ Goto(p, "done", me)
  /\ UNCHANGED used

Step(p) == Pre(p) \/ Bind(p) \/ Pre2(p) \/ Val(p) \/ Unpub(p) \/ Wr(p) \/ Rel(p)

\* the response is delivered
End(p) ==
  /\ ps[p].pc = "done"
  /\ ps' = [ps EXCEPT ![p] = IdleP]
  /\ UNCHANGED <<sh, abs, used>>

KInit ==
  /\ sh = InitShared(Mode)
  /\ ps = [p \in Procs |-> IdleP]
  /\ abs = [k \in Keys |-> None]
  /\ used = {}

-----------------------------------------------------------------------------
(* Properties *)

Quiescent == \A p \in Procs : ps[p].pc = "idle"

\* every response equals the response of the atomic reference model at the request's effect step,
\* and whenever no request is in flight the visible state is the reference state
Linearizable ==
  /\ \A p \in Procs : ps[p].pc = "done" => ps[p].res = ps[p].ares
  /\ Quiescent => \A k \in Keys : View(sh, k) = abs[k]

\* at most one request is between grant and release of an object's guard
Exclusive ==
  \A p, q \in Procs : (p # q /\ ps[p].pc = "wr" /\ ps[q].pc = "wr") => ps[p].b # ps[q].b
=============================================================================
