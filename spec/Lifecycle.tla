----------------------------- MODULE Lifecycle -----------------------------
(***************************************************************************)
(* Lifecycle of one swamp name: in-memory instances, the hydra map, the    *)
(* write-behind list and the file (C16: acknowledged writes survive        *)
(* eviction, auto-destroy and shutdown).                                   *)
(*                                                                         *)
(* Transcribed from app/core/hydra/swamp/swamp.go (New, IsClosing,         *)
(* SaveFunction, DeleteTreasure / CloneAndDeleteTreasuresByKeys,           *)
(* deleteHandler, Destroy, Close, fileWriterHandler, startWriteListener,   *)
(* startCloseListener, FilePointerCallbackFunction), hydra.go (SummonSwamp,*)
(* GracefulStop, closeEventCallbackFunction), chronicler_v2.go (Write,     *)
(* Close, Destroy) and gateway.go (Set, Delete, ShiftByKeys, Destroy).     *)
(*                                                                         *)
(* One action = the code a goroutine runs between two consecutive verif    *)
(* gates (verifhook.Yield points in swamp.go), so a behaviour of this spec *)
(* is a schedule the conformance driver can force on the real code.        *)
(*                                                                         *)
(* Processes                                                               *)
(*   request r   one gateway call: Set(k) | Del(k) | Shift(k) | Destroy    *)
(*   listener i  startCloseListener of instance i (tick: read, lock,       *)
(*               check, Close)                                             *)
(*   writer i    startWriteListener of instance i (tick: lock, check,      *)
(*               fileWriterHandler(false))                                 *)
(*   stopper     server stop: MarkShuttingDown, in-flight requests drain   *)
(*               (grpcServer.GracefulStop in server.Stop), then            *)
(*               tryToCloseAllSwamps -> Close                              *)
(*                                                                         *)
(* Dev is the set of named deviations of the code from the strict design.  *)
(* With a deviation enabled the as-built step is taken; `used` records the *)
(* deviations whose as-built step really differed from the strict one in   *)
(* this behaviour, so a loss is attributed to exactly the defects that     *)
(* caused it.                                                              *)
(*   "AutoDrop"  D_C16_AutoDestroyDropsInsert: the auto-destroy decision   *)
(*               (Count()=0) is not re-validated after the vigil drain:    *)
(*               the file is removed although a record was inserted.       *)
(*   "Stale"     D_C16_IdleCloseStaleCheck: the idle check uses the        *)
(*               lastInteractionTime read before closeWriteMutex was taken.*)
(*   "Swap"      D_C16_WriterSwapLosesRecreate: fileWriterHandler removes  *)
(*               the collected keys from the waiting list by key, so a     *)
(*               record re-created after the collect is dropped.           *)
(*   "Gap"       D_C16_SummonVigilGap: a request that got the instance     *)
(*               from SummonSwamp (IsClosing()=false) has no vigil yet and *)
(*               never re-checks the flag; Close sets the flag and writes  *)
(*               without draining vigils.                                  *)
(*   "Resurrect" D_C16_WriterResurrectsDeleted: deleteHandler marks only   *)
(*               records that are already in the file as deleted; a record *)
(*               the writer has collected but not yet written is encoded   *)
(*               as an INSERT after its acknowledged delete.               *)
(*   "StaleDestroy" D_C16_StaleDestroyRemovesSuccessor: Destroy goes on    *)
(*               although Close already owns the teardown of the instance; *)
(*               it later removes the file and the map entry of the NAME,  *)
(*               which by then belong to a successor instance.             *)
(*   "StopTick"  D_C16_StopCloseOvertakesWriteTick: the Close called by    *)
(*               graceful stop does not take closeWriteMutex; a write tick *)
(*               that has collected its list writes it after the final     *)
(*               flush (the chronicler re-opens lazily).                   *)
(***************************************************************************)
EXTENDS Integers, Sequences, FiniteSets, TLC

CONSTANTS Reqs,      \* request processes
          Keys,      \* record keys
          Dev,       \* enabled deviations, subset of AllDev
          InitKeys,  \* keys present in the file initially (value "v0")
          Menu,      \* set of operations a request may perform: [op, k]
          MaxInst,   \* instances that may be created
          WithStop,  \* BOOLEAN: the stopper process exists
          WithTicks  \* BOOLEAN: the write-behind ticker exists (writeInterval > 0)

AllDev == {"AutoDrop", "Stale", "Swap", "Gap", "Resurrect", "StaleDestroy", "StopTick"}

Inst   == 1..MaxInst
NoObj  == "none"
Absent == "absent"
ObjIds == Keys \cup Reqs            \* loaded objects are named by their key, created ones by the request
Vals   == Reqs \cup {"v0"}

Callers == [t : {"L", "W"}, i : Inst] \cup {[t |-> "S", i |-> 0]}
Lc(i) == [t |-> "L", i |-> i]
Wc(i) == [t |-> "W", i |-> i]
Sc    == [t |-> "S", i |-> 0]

VARIABLES
  shut,      \* hydra.shuttingDown
  map,       \* instance stored in hydra.swamps under the name (0 = none)
  ninst,     \* number of instances created so far
  I,         \* [Inst -> instance record]
  file,      \* [Keys -> Vals \cup {Absent}]: what a Load of the .hyd file yields
  fexists,   \* the .hyd file exists (IsExistSwamp)
  pc, op, ref, auto,     \* request: control state, operation, instance held, "Destroy was called by auto-destroy"
  cpc, clist, lidle, starget,  \* listener / writer / stopper: control state, collected list, value read by the listener, stopper's swamp
  cands, before, res,    \* ghost: candidate last operations per key, snapshot at call, result
  used,      \* ghost: deviations that made a difference
  last       \* observation: last action [a, p, i]

vars == <<shut, map, ninst, I, file, fexists, pc, op, ref, auto, cpc, clist, lidle, starget, cands, before, res, used, last>>
view == <<shut, map, ninst, I, file, fexists, pc, op, ref, auto, cpc, clist, lidle, starget, cands, before, res, used>>

EmptyInst ==
  [alive |-> FALSE, closing |-> 0, destroyed |-> FALSE, vigils |-> 0, idle |-> FALSE, cancelled |-> FALSE,
   wactive |-> 0, cwm |-> "none", dead |-> FALSE,
   mem |-> [k \in Keys |-> NoObj], waiting |-> [k \in Keys |-> NoObj],
   obj |-> [o \in ObjIds |-> [val |-> "v0", del |-> FALSE, filed |-> FALSE]]]

KeyOf(o) == IF o \in Keys THEN o ELSE op[o].k
Count(f) == Cardinality({k \in Keys : f[k] # NoObj})
T(c) == IF c.t = "S" THEN starget ELSE c.i
Has(d) == d \in Dev

Init ==
  /\ shut = FALSE /\ map = 0 /\ ninst = 0
  /\ I = [i \in Inst |-> EmptyInst]
  /\ file = [k \in Keys |-> IF k \in InitKeys THEN "v0" ELSE Absent]
  /\ fexists = (InitKeys # {})
  /\ pc = [r \in Reqs |-> "idle"] /\ op = [r \in Reqs |-> [op |-> "none", k |-> NoObj]]
  /\ ref = [r \in Reqs |-> 0] /\ auto = [r \in Reqs |-> FALSE]
  /\ cpc = [c \in Callers |-> "idle"] /\ clist = [c \in Callers |-> {}]
  /\ lidle = [i \in Inst |-> FALSE] /\ starget = 0
  /\ cands = [k \in Keys |-> {"init"}]
  /\ before = [r \in Reqs |-> [k \in Keys |-> {}]]
  /\ res = [r \in Reqs |-> "none"]
  /\ used = {}
  /\ last = [a |-> "Init", p |-> "", i |-> 0]

Obs(a, p, i) == last' = [a |-> a, p |-> p, i |-> i]

-----------------------------------------------------------------------------
(* ghost: which final values of a key are consistent with the acknowledged history *)

OpKeys(o) == IF o.op = "destroy" THEN Keys ELSE {o.k}

\* r's acknowledged operation took effect: it supersedes what was acknowledged before r was called
Effect(r) == [k \in Keys |-> IF k \in OpKeys(op[r]) THEN (cands[k] \ before[r][k]) \cup {r} ELSE cands[k]]

ValueOf(c, k) == IF c = "init" THEN (IF k \in InitKeys THEN "v0" ELSE Absent)
                 ELSE IF op[c].op = "set" THEN c ELSE Absent
Allowed(k) == {ValueOf(c, k) : c \in cands[k]}

-----------------------------------------------------------------------------
(* requests *)

\* the gateway handler starts: SummonSwamp up to the verif gate in IsClosing (existing instance) or, for a new
\* instance, through New (load), the map store and BeginVigil up to the operation's first gate
RSummon(r, o) ==
  /\ pc[r] = "idle" /\ o \in Menu
  /\ op' = [op EXCEPT ![r] = o]
  /\ before' = [before EXCEPT ![r] = cands]
  /\ IF shut
       THEN \* SummonSwamp: "hydra is shutting down" -> gRPC error, nothing acknowledged
            /\ pc' = [pc EXCEPT ![r] = "done"] /\ res' = [res EXCEPT ![r] = "rejected"]
            /\ UNCHANGED <<map, ninst, I, ref>>
       ELSE IF o.op \in {"del", "shift"} /\ map = 0 /\ ~fexists
       THEN \* IsExistSwamp = false: SwampDoesNotExist / empty response, no summon
            /\ pc' = [pc EXCEPT ![r] = "done"] /\ res' = [res EXCEPT ![r] = "noswamp"]
            /\ UNCHANGED <<map, ninst, I, ref>>
       ELSE IF map = 0
       THEN \* createNewSwamp: swamp.New loads the file; h.swamps.Store; then BeginVigil (not for Destroy)
            /\ ninst < MaxInst
            /\ LET n == ninst + 1 IN
               /\ ninst' = n /\ map' = n /\ ref' = [ref EXCEPT ![r] = n]
               /\ I' = [I EXCEPT ![n] = [EmptyInst EXCEPT
                          !.alive = TRUE,
                          !.vigils = IF o.op = "destroy" THEN 0 ELSE 1,
                          !.mem = [k \in Keys |-> IF file[k] # Absent THEN k ELSE NoObj],
                          !.obj = [x \in ObjIds |-> IF x \in Keys /\ file[x] # Absent
                                                     THEN [val |-> file[x], del |-> FALSE, filed |-> TRUE]
                                                     ELSE [val |-> "v0", del |-> FALSE, filed |-> FALSE]]]]
            /\ pc' = [pc EXCEPT ![r] = IF o.op = "destroy" THEN "d_flag" ELSE "op"]
            /\ UNCHANGED res
       ELSE \* existing instance: must not be closing (a summoner of a closing swamp waits in
            \* WaitForGracefulClose until the instance has left the map: the call is simply served later)
            /\ I[map].closing = 0
            /\ ref' = [ref EXCEPT ![r] = map]
            /\ I' = [I EXCEPT ![map].idle = FALSE]            \* IsClosing() stores lastInteractionTime
            /\ pc' = [pc EXCEPT ![r] = "begin"]
            /\ UNCHANGED <<map, ninst, res>>
  /\ Obs("RSummon", r, 0)
  /\ UNCHANGED <<shut, file, fexists, auto, cpc, clist, lidle, starget, cands, used>>

\* SummonSwamp returns, BeginVigil, up to the first gate of the operation
RBegin(r) ==
  /\ pc[r] = "begin"
  /\ LET i == ref[r] IN
     IF op[r].op = "destroy"
       THEN /\ pc' = [pc EXCEPT ![r] = "d_flag"] /\ UNCHANGED <<I, used>>
       ELSE IF I[i].closing = 1 /\ ~Has("Gap")
       THEN \* strict: BeginVigil, re-check the flag, CeaseVigil and summon again
            /\ pc' = [pc EXCEPT ![r] = "resummon"] /\ UNCHANGED <<I, used>>
       ELSE /\ I' = [I EXCEPT ![i].vigils = @ + 1]
            /\ pc' = [pc EXCEPT ![r] = "op"]
            /\ used' = IF I[i].closing = 1 THEN used \cup {"Gap"} ELSE used
  /\ Obs("RBegin", r, ref[r])
  /\ UNCHANGED <<shut, map, ninst, file, fexists, op, ref, auto, cpc, clist, lidle, starget, cands, before, res>>

\* strict design only: summon again (after a failed flag re-check, or an explicit Destroy that lost to Close)
RResummon(r) ==
  /\ pc[r] = "resummon"
  /\ LET isD == op[r].op = "destroy" IN
     IF shut
       THEN /\ pc' = [pc EXCEPT ![r] = "done"] /\ res' = [res EXCEPT ![r] = "rejected"]
            /\ UNCHANGED <<map, ninst, I, ref>>
       ELSE IF map = 0
       THEN /\ ninst < MaxInst
            /\ LET n == ninst + 1 IN
               /\ ninst' = n /\ map' = n /\ ref' = [ref EXCEPT ![r] = n]
               /\ I' = [I EXCEPT ![n] = [EmptyInst EXCEPT
                          !.alive = TRUE, !.vigils = IF isD THEN 0 ELSE 1,
                          !.mem = [k \in Keys |-> IF file[k] # Absent THEN k ELSE NoObj],
                          !.obj = [x \in ObjIds |-> IF x \in Keys /\ file[x] # Absent
                                                     THEN [val |-> file[x], del |-> FALSE, filed |-> TRUE]
                                                     ELSE [val |-> "v0", del |-> FALSE, filed |-> FALSE]]]]
            /\ pc' = [pc EXCEPT ![r] = IF isD THEN "d_flag" ELSE "op"] /\ UNCHANGED res
       ELSE /\ I[map].closing = 0
            /\ ref' = [ref EXCEPT ![r] = map]
            /\ I' = [I EXCEPT ![map].idle = FALSE]
            /\ pc' = [pc EXCEPT ![r] = "begin"]
            /\ UNCHANGED <<map, ninst, res>>
  /\ Obs("RResummon", r, 0)
  /\ UNCHANGED <<shut, file, fexists, op, auto, cpc, clist, lidle, starget, cands, before, used>>

\* Set: CreateTreasure, Save -> SaveFunction (the record enters beaconKey and the waiting list), guard released,
\* the handler's deferred CeaseVigil and the reply (no gate can be placed while the record guard is held)
ROpSave(r) ==
  /\ pc[r] = "op" /\ op[r].op = "set"
  /\ LET i == ref[r]  k == op[r].k
         o == IF I[i].mem[k] # NoObj THEN I[i].mem[k] ELSE r
     IN
     I' = [I EXCEPT ![i].idle = FALSE,
                    ![i].vigils = @ - 1,
                    ![i].obj[o] = IF I[i].mem[k] # NoObj THEN [@ EXCEPT !.val = r]
                                  ELSE [val |-> r, del |-> FALSE, filed |-> FALSE],
                    ![i].mem[k] = o,
                    \* new record: waiting.Delete(key); waiting.Add(t).  modified record: waiting.Add(t), a no-op
                    \* when the key is already listed
                    ![i].waiting[k] = IF I[i].mem[k] = NoObj THEN o
                                      ELSE IF @ = NoObj THEN o ELSE @]
  /\ pc' = [pc EXCEPT ![r] = "done"]
  /\ res' = [res EXCEPT ![r] = "ok"]
  /\ cands' = Effect(r)
  /\ Obs("ROpSave", r, ref[r])
  /\ UNCHANGED <<shut, map, ninst, file, fexists, op, ref, auto, cpc, clist, lidle, starget, before, used>>

\* deleteHandler: a record that is in the file gets a delete marker in the waiting list, one that was never
\* written is just dropped from it
DelEffect(i, k) ==
  LET o == I[i].mem[k] IN
  [I EXCEPT ![i].idle = FALSE,
            ![i].obj[o].del = IF I[i].obj[o].filed \/ ~Has("Resurrect") THEN TRUE ELSE @,
            ![i].waiting[k] = IF I[i].obj[o].filed THEN (IF @ = NoObj THEN o ELSE @) ELSE NoObj,
            ![i].mem[k] = NoObj]

\* Delete: DeleteTreasure up to the auto-destroy check (or, key not found, through to the reply)
ROpDel(r) ==
  /\ pc[r] = "op" /\ op[r].op = "del"
  /\ LET i == ref[r]  k == op[r].k IN
     IF I[i].mem[k] = NoObj
       THEN /\ I' = [I EXCEPT ![i].idle = FALSE, ![i].vigils = @ - 1]
            /\ pc' = [pc EXCEPT ![r] = "done"] /\ res' = [res EXCEPT ![r] = "notfound"]
       ELSE /\ I' = DelEffect(i, k)
            /\ pc' = [pc EXCEPT ![r] = "adcheck"] /\ UNCHANGED res
  /\ Obs("ROpDel", r, ref[r])
  /\ UNCHANGED <<shut, map, ninst, file, fexists, op, ref, auto, cpc, clist, lidle, starget, cands, before, used>>

\* ShiftByKeys: CloneAndDeleteTreasuresByKeys up to the auto-destroy check (missing keys are ignored)
ROpShift(r) ==
  /\ pc[r] = "op" /\ op[r].op = "shift"
  /\ LET i == ref[r]  k == op[r].k IN
     IF I[i].mem[k] = NoObj
       THEN /\ I' = [I EXCEPT ![i].idle = FALSE] /\ res' = [res EXCEPT ![r] = "notfound"]
       ELSE /\ I' = DelEffect(i, k) /\ UNCHANGED res
  /\ pc' = [pc EXCEPT ![r] = "adcheck"]
  /\ Obs("ROpShift", r, ref[r])
  /\ UNCHANGED <<shut, map, ninst, file, fexists, op, ref, auto, cpc, clist, lidle, starget, cands, before, used>>

\* `if s.beaconKey.Count() == 0`: not empty -> return, deferred CeaseVigil, reply
RAdCheck(r) ==
  /\ pc[r] = "adcheck"
  /\ LET i == ref[r] IN
     IF Count(I[i].mem) = 0
       THEN /\ pc' = [pc EXCEPT ![r] = "ad_cease"] /\ UNCHANGED <<I, res, cands>>
       ELSE /\ I' = [I EXCEPT ![i].vigils = @ - 1]
            /\ pc' = [pc EXCEPT ![r] = "done"]
            /\ IF res[r] = "notfound" THEN UNCHANGED <<res, cands>>
               ELSE res' = [res EXCEPT ![r] = "ok"] /\ cands' = Effect(r)
  /\ Obs("RAdCheck", r, ref[r])
  /\ UNCHANGED <<shut, map, ninst, file, fexists, op, ref, auto, cpc, clist, lidle, starget, before, used>>

\* auto-destroy: s.CeaseVigil() then s.Destroy()
RAdCease(r) ==
  /\ pc[r] = "ad_cease"
  /\ I' = [I EXCEPT ![ref[r]].vigils = @ - 1]
  /\ auto' = [auto EXCEPT ![r] = TRUE]
  /\ pc' = [pc EXCEPT ![r] = "d_flag"]
  /\ Obs("RAdCease", r, ref[r])
  /\ UNCHANGED <<shut, map, ninst, file, fexists, op, ref, cpc, clist, lidle, starget, cands, before, res, used>>

\* what a finished Destroy call returns into
AfterDestroy(r, II) ==
  /\ pc' = [pc EXCEPT ![r] = "done"]
  /\ I' = IF auto[r] THEN [II EXCEPT ![ref[r]].vigils = @ - 1] ELSE II      \* the handler's deferred CeaseVigil
  /\ IF res[r] = "notfound" THEN UNCHANGED <<res, cands>>
     ELSE res' = [res EXCEPT ![r] = "ok"] /\ cands' = Effect(r)

\* Destroy: closing := 1, idempotency guard
RDFlag(r) ==
  /\ pc[r] = "d_flag"
  /\ LET i == ref[r]
         closeOwns == I[i].closing = 1 /\ ~I[i].destroyed      \* Close() raised the flag first and tears the instance down
     IN
     IF I[i].destroyed
       THEN AfterDestroy(r, [I EXCEPT ![i].closing = 1]) /\ UNCHANGED used
       ELSE IF closeOwns /\ auto[r] /\ ~Has("StaleDestroy")
       THEN \* strict: an auto-destroy that finds Close() already tearing the instance down just returns (the swamp is
            \* being closed, nothing is lost): BeginVigil again, the handler's deferred CeaseVigil follows
            /\ AfterDestroy(r, [I EXCEPT ![i].vigils = @ + 1])
            /\ UNCHANGED used
       ELSE /\ I' = [I EXCEPT ![i].closing = 1, ![i].destroyed = TRUE]
            /\ pc' = [pc EXCEPT ![r] = "d_drain"] /\ UNCHANGED <<res, cands>>
            /\ used' = IF closeOwns /\ auto[r] THEN used \cup {"StaleDestroy"} ELSE used
  /\ Obs("RDFlag", r, ref[r])
  /\ UNCHANGED <<shut, map, ninst, file, fexists, op, ref, auto, cpc, clist, lidle, starget, before>>

\* Vigil.WaitForActiveVigilsClosed
RDDrain(r) ==
  /\ pc[r] = "d_drain"
  /\ I[ref[r]].vigils <= 0
  /\ pc' = [pc EXCEPT ![r] = "d_delete"]
  /\ Obs("RDDrain", r, ref[r])
  /\ UNCHANGED <<shut, map, ninst, I, file, fexists, op, ref, auto, cpc, clist, lidle, starget, cands, before, res, used>>

\* the content of the waiting list as the chronicler would write it
Flush(i, f) == [k \in Keys |-> IF I[i].waiting[k] = NoObj THEN f[k]
                               ELSE IF I[i].obj[I[i].waiting[k]].del THEN Absent ELSE I[i].obj[I[i].waiting[k]].val]

\* s.mu.Lock; cancel; chronicler.Destroy (file removed); sendClosedEvent (map entry of the NAME removed); return
RDDelete(r) ==
  /\ pc[r] = "d_delete"
  /\ LET i == ref[r]
         keep == auto[r] /\ Count(I[i].mem) > 0       \* the swamp is not empty any more
     IN
     /\ IF keep /\ ~Has("AutoDrop")
          THEN \* strict: an auto-destroy whose reason has vanished closes the swamp instead (flush, no removal)
               /\ file' = IF I[i].dead THEN file ELSE Flush(i, file)
               /\ fexists' = (fexists \/ (~I[i].dead /\ Count(I[i].waiting) > 0))
               /\ AfterDestroy(r, [I EXCEPT ![i].cancelled = TRUE, ![i].waiting = [k \in Keys |-> NoObj]])
               /\ UNCHANGED used
          ELSE /\ file' = [k \in Keys |-> Absent] /\ fexists' = FALSE
               /\ AfterDestroy(r, [I EXCEPT ![i].cancelled = TRUE, ![i].dead = TRUE])
               /\ used' = IF keep THEN used \cup {"AutoDrop"} ELSE used
     /\ map' = 0
  /\ Obs("RDDelete", r, ref[r])
  /\ UNCHANGED <<shut, ninst, op, ref, auto, cpc, clist, lidle, starget, before>>

-----------------------------------------------------------------------------
(* time: enough wall-clock time without interaction has passed for the idle condition to hold.  The code
   relies on a request reaching BeginVigil within closeAfterIdle+1s of IsClosing(): time does not pass for a
   request that stands between the two. *)
TimePasses(i) ==
  /\ I[i].alive /\ ~I[i].cancelled /\ ~I[i].idle
  /\ \A r \in Reqs : ~(pc[r] = "begin" /\ ref[r] = i)
  /\ I' = [I EXCEPT ![i].idle = TRUE]
  /\ Obs("TimePasses", "", i)
  /\ UNCHANGED <<shut, map, ninst, file, fexists, pc, op, ref, auto, cpc, clist, lidle, starget, cands, before, res, used>>

-----------------------------------------------------------------------------
(* close listener *)

\* tick: currentTime / lastInteractionTime are read before the lock
LRead(i) ==
  /\ cpc[Lc(i)] = "idle" /\ I[i].alive /\ ~I[i].cancelled
  /\ lidle' = [lidle EXCEPT ![i] = I[i].idle]
  /\ cpc' = [cpc EXCEPT ![Lc(i)] = "lock"]
  /\ Obs("LRead", "L", i)
  /\ UNCHANGED <<shut, map, ninst, I, file, fexists, pc, op, ref, auto, clist, starget, cands, before, res, used>>

LLock(i) ==
  /\ cpc[Lc(i)] = "lock" /\ I[i].cwm = "none"
  /\ I' = [I EXCEPT ![i].cwm = "L"]
  /\ cpc' = [cpc EXCEPT ![Lc(i)] = "check"]
  /\ Obs("LLock", "L", i)
  /\ UNCHANGED <<shut, map, ninst, file, fexists, pc, op, ref, auto, clist, lidle, starget, cands, before, res, used>>

LCheck(i) ==
  /\ cpc[Lc(i)] = "check"
  /\ LET others == I[i].wactive = 0 /\ I[i].vigils <= 0 /\ I[i].closing = 0
         idleNow == IF Has("Stale") THEN lidle[i] ELSE I[i].idle
     IN
     /\ IF others /\ idleNow
          THEN cpc' = [cpc EXCEPT ![Lc(i)] = "c_enter"] /\ UNCHANGED I
          ELSE cpc' = [cpc EXCEPT ![Lc(i)] = "idle"] /\ I' = [I EXCEPT ![i].cwm = "none"]
     /\ used' = IF others /\ lidle[i] /\ ~I[i].idle /\ Has("Stale") THEN used \cup {"Stale"} ELSE used
  /\ Obs("LCheck", "L", i)
  /\ UNCHANGED <<shut, map, ninst, file, fexists, pc, op, ref, auto, clist, lidle, starget, cands, before, res>>

-----------------------------------------------------------------------------
(* Close (called by the listener under closeWriteMutex, or by the stopper without it) *)

CloseReturn(c, II) ==
  IF c.t = "L" THEN /\ cpc' = [cpc EXCEPT ![c] = "idle"] /\ I' = [II EXCEPT ![c.i].cwm = "none"]
  ELSE /\ cpc' = [cpc EXCEPT ![c] = "done"]
       /\ I' = IF II[T(c)].cwm = "S" THEN [II EXCEPT ![T(c)].cwm = "none"] ELSE II

\* closeMutex: already closing -> return; closing := 1
\* (strict: the stopper's Close takes closeWriteMutex like the listener does, so it cannot overtake a write tick)
CFlag(c) ==
  /\ c.t \in {"L", "S"} /\ cpc[c] = "c_enter"
  /\ LET i == T(c)
         lockIt == c.t = "S" /\ ~Has("StopTick")
     IN
     /\ lockIt => I[i].cwm = "none"
     /\ IF I[i].closing = 1
          THEN CloseReturn(c, I) /\ UNCHANGED used
          ELSE /\ I' = [I EXCEPT ![i].closing = 1, ![i].cwm = IF lockIt THEN "S" ELSE @]
               /\ cpc' = [cpc EXCEPT ![c] = IF Has("Gap") THEN "c_collect" ELSE "c_drain"]
               /\ used' = IF c.t = "S" /\ I[i].cwm = "W" THEN used \cup {"StopTick"} ELSE used
  /\ Obs("CFlag", c.t, T(c))
  /\ UNCHANGED <<shut, map, ninst, file, fexists, pc, op, ref, auto, clist, lidle, starget, cands, before, res>>

\* strict design only: Close drains the vigils after raising the flag
CDrain(c) ==
  /\ c.t \in {"L", "S"} /\ cpc[c] = "c_drain"
  /\ I[T(c)].vigils <= 0
  /\ cpc' = [cpc EXCEPT ![c] = "c_collect"]
  /\ Obs("CDrain", c.t, T(c))
  /\ UNCHANGED <<shut, map, ninst, I, file, fexists, pc, op, ref, auto, clist, lidle, starget, cands, before, res, used>>

\* fileWriterHandler(true): isFilesystemWritingActive := 1; Count()=0 -> return; collect the waiting list
CCollect(c) ==
  /\ c.t \in {"L", "S"} /\ cpc[c] = "c_collect"
  /\ LET i == T(c)
         lst == {<<k, I[i].waiting[k]>> : k \in {x \in Keys : I[i].waiting[x] # NoObj}}
     IN
     /\ I' = [I EXCEPT ![i].wactive = 1]
     /\ clist' = [clist EXCEPT ![c] = lst]
     /\ cpc' = [cpc EXCEPT ![c] = IF lst = {} THEN "c_chron" ELSE "delete"]
     /\ used' = IF I[i].vigils > 0 THEN used \cup {"Gap"} ELSE used
  /\ Obs("CCollect", c.t, T(c))
  /\ UNCHANGED <<shut, map, ninst, file, fexists, pc, op, ref, auto, lidle, starget, cands, before, res>>

\* chronicler.Close (flush); cancel the instance's goroutines; sendClosedEvent: the map entry of the NAME is removed
CChron(c) ==
  /\ c.t \in {"L", "S"} /\ cpc[c] = "c_chron"
  /\ map' = 0
  /\ CloseReturn(c, [I EXCEPT ![T(c)].cancelled = TRUE])
  /\ Obs("CChron", c.t, T(c))
  /\ UNCHANGED <<shut, ninst, file, fexists, pc, op, ref, auto, clist, lidle, starget, cands, before, res, used>>

-----------------------------------------------------------------------------
(* fileWriterHandler body, shared by Close (L, S) and the write ticker (W) *)

\* `for _, t := range treasuresToWrite { waiting.Delete(t.GetKey()) }`
FDelete(c) ==
  /\ cpc[c] = "delete"
  /\ LET i == T(c)
         ks == {e[1] : e \in clist[c]}
         moved == {e \in clist[c] : I[i].waiting[e[1]] # e[2]}    \* the list holds another object for the key now
     IN
     /\ I' = [I EXCEPT ![i].waiting = [k \in Keys |->
                 IF k \in ks /\ (Has("Swap") \/ <<k, @[k]>> \in clist[c]) THEN NoObj ELSE @[k]]]
     /\ used' = IF Has("Swap") /\ \E e \in moved : I[i].waiting[e[1]] # NoObj THEN used \cup {"Swap"} ELSE used
  /\ cpc' = [cpc EXCEPT ![c] = "write"]
  /\ Obs("FDelete", c.t, T(c))
  /\ UNCHANGED <<shut, map, ninst, file, fexists, pc, op, ref, auto, clist, lidle, starget, cands, before, res>>

\* chronicler.Write(list) + Sync: every collected object is encoded as it is NOW (DELETE if marked deleted);
\* no-op after chronicler.Destroy.  FilePointerCallback (not while closing): the record currently stored
\* under the key gets its file name.
FWrite(c) ==
  /\ cpc[c] = "write"
  /\ LET i == T(c)
         ks == {e[1] : e \in clist[c]}
         objOf(k) == (CHOOSE e \in clist[c] : e[1] = k)[2]
     IN
     /\ IF I[i].dead THEN UNCHANGED <<file, fexists>>
        ELSE /\ file' = [k \in Keys |-> IF k \in ks
                            THEN (IF I[i].obj[objOf(k)].del THEN Absent ELSE I[i].obj[objOf(k)].val)
                            ELSE file[k]]
             /\ fexists' = TRUE
     /\ LET II == IF I[i].dead \/ I[i].closing = 1 \/ c.t # "W" THEN I
                  ELSE [I EXCEPT ![i].obj = [o \in ObjIds |->
                           IF KeyOf(o) \in ks /\ I[i].mem[KeyOf(o)] = o THEN [@[o] EXCEPT !.filed = TRUE] ELSE @[o]]]
        IN
        IF c.t = "W"
          THEN /\ I' = [II EXCEPT ![i].wactive = 0, ![i].cwm = "none"]     \* deferred stores, closeWriteMutex released
               /\ cpc' = [cpc EXCEPT ![c] = "idle"]
          ELSE /\ I' = II /\ cpc' = [cpc EXCEPT ![c] = "c_chron"]
  /\ clist' = [clist EXCEPT ![c] = {}]
  /\ used' = IF ~I[T(c)].dead /\ \E e \in clist[c] : ~I[T(c)].obj[e[2]].del /\ I[T(c)].mem[e[1]] # e[2]
             THEN used \cup {"Resurrect"} ELSE used       \* a record deleted after the collect is written as live
  /\ Obs("FWrite", c.t, T(c))
  /\ UNCHANGED <<shut, map, ninst, pc, op, ref, auto, lidle, starget, cands, before, res>>

-----------------------------------------------------------------------------
(* write ticker *)

WLock(i) ==
  /\ WithTicks
  /\ cpc[Wc(i)] = "idle" /\ I[i].alive /\ ~I[i].cancelled /\ I[i].cwm = "none"
  /\ I' = [I EXCEPT ![i].cwm = "W"]
  /\ cpc' = [cpc EXCEPT ![Wc(i)] = "check"]
  /\ Obs("WLock", "W", i)
  /\ UNCHANGED <<shut, map, ninst, file, fexists, pc, op, ref, auto, clist, lidle, starget, cands, before, res, used>>

\* writing active, closing or nothing to write -> unlock; else fileWriterHandler(false) up to the collect
WCheck(i) ==
  /\ cpc[Wc(i)] = "check"
  /\ IF I[i].wactive = 1 \/ I[i].closing = 1 \/ Count(I[i].waiting) = 0
       THEN /\ I' = [I EXCEPT ![i].cwm = "none"] /\ cpc' = [cpc EXCEPT ![Wc(i)] = "idle"]
       ELSE /\ I' = [I EXCEPT ![i].wactive = 1] /\ cpc' = [cpc EXCEPT ![Wc(i)] = "collect"]
  /\ Obs("WCheck", "W", i)
  /\ UNCHANGED <<shut, map, ninst, file, fexists, pc, op, ref, auto, clist, lidle, starget, cands, before, res, used>>

WCollect(i) ==
  /\ cpc[Wc(i)] = "collect"
  /\ LET lst == {<<k, I[i].waiting[k]>> : k \in {x \in Keys : I[i].waiting[x] # NoObj}} IN
     /\ clist' = [clist EXCEPT ![Wc(i)] = lst]
     /\ cpc' = [cpc EXCEPT ![Wc(i)] = "delete"]
  /\ Obs("WCollect", "W", i)
  /\ UNCHANGED <<shut, map, ninst, I, file, fexists, pc, op, ref, auto, lidle, starget, cands, before, res, used>>

-----------------------------------------------------------------------------
(* server stop *)

\* server.Stop phase 1: MarkShuttingDown
SMark ==
  /\ WithStop /\ cpc[Sc] = "idle"
  /\ shut' = TRUE
  /\ cpc' = [cpc EXCEPT ![Sc] = "drainreq"]
  /\ Obs("SMark", "S", 0)
  /\ UNCHANGED <<map, ninst, I, file, fexists, pc, op, ref, auto, clist, lidle, starget, cands, before, res, used>>

\* phase 3: grpcServer.GracefulStop waits for the in-flight calls; phase 5: tryToCloseAllSwamps
SClose ==
  /\ cpc[Sc] = "drainreq"
  /\ \A r \in Reqs : pc[r] \in {"idle", "done"}
  /\ IF map = 0 THEN cpc' = [cpc EXCEPT ![Sc] = "done"] /\ UNCHANGED starget
     ELSE cpc' = [cpc EXCEPT ![Sc] = "c_enter"] /\ starget' = map
  /\ Obs("SClose", "S", map)
  /\ UNCHANGED <<shut, map, ninst, I, file, fexists, pc, op, ref, auto, clist, lidle, cands, before, res, used>>

-----------------------------------------------------------------------------
Next ==
  \/ \E r \in Reqs : \/ \E o \in Menu : RSummon(r, o)
                     \/ RBegin(r) \/ RResummon(r) \/ ROpSave(r) \/ ROpDel(r) \/ ROpShift(r)
                     \/ RAdCheck(r) \/ RAdCease(r) \/ RDFlag(r) \/ RDDrain(r) \/ RDDelete(r)
  \/ \E i \in Inst : TimePasses(i) \/ LRead(i) \/ LLock(i) \/ LCheck(i) \/ WLock(i) \/ WCheck(i) \/ WCollect(i)
  \/ \E c \in Callers : CFlag(c) \/ CDrain(c) \/ CCollect(c) \/ CChron(c) \/ FDelete(c) \/ FWrite(c)
  \/ SMark \/ SClose

Spec == Init /\ [][Next]_vars

-----------------------------------------------------------------------------
(* Properties (C16) *)

TypeOK ==
  /\ map \in 0..MaxInst /\ ninst \in 0..MaxInst
  /\ \A k \in Keys : file[k] \in Vals \cup {Absent}
  /\ \A r \in Reqs : pc[r] \in {"idle", "begin", "resummon", "op", "adcheck", "ad_cease", "d_flag", "d_drain", "d_delete", "done"}
  /\ used \subseteq Dev

\* everything has come to rest and the swamp is not open: the next summon reads the file
Terminal ==
  /\ \A r \in Reqs : pc[r] = "done"
  /\ map = 0
  /\ \A i \in Inst : I[i].alive => I[i].cancelled      \* an instance that has left the map but still runs will close and flush
  /\ \A c \in Callers : cpc[c] \in {"idle", "done"}

Durable == \A k \in Keys : file[k] \in Allowed(k)

\* after everything quiesces and the swamp is re-opened, every acknowledged write that was not
\* overwritten/removed by a later (or concurrent) acknowledged operation is present
AckDurable == Terminal => Durable

\* as-built: every loss is caused by a named deviation
Attributed == (Terminal /\ ~Durable) => used # {}

=============================================================================
