------------------------------- MODULE Lock -------------------------------
(***************************************************************************)
(* The business lock of the server (app/core/hydra/lock/lock.go, used by   *)
(* the Lock / Unlock handlers of app/server/gateway/gateway.go).           *)
(*                                                                         *)
(* Per key there is a FIFO queue of callers.  The head of the queue owns   *)
(* the lock.  A caller is told that it has become the head through its     *)
(* `ready` channel (closed under the queue mutex by enqueue, when the      *)
(* queue was empty, or by the remove of its predecessor) and then leaves   *)
(* its select: Lock returns the caller's id.  A granted caller has a TTL   *)
(* watchdog that removes it when the TTL fires (untimed here: any time     *)
(* after the grant).  A waiting caller whose context is cancelled removes  *)
(* itself.  Unlock(key, id) removes the caller with that id, whoever calls *)
(* it.  The queues live in a map keyed by the lock key.                    *)
(*                                                                         *)
(* One action = one critical section of q.mu, or one branch of the select: *)
(*   Enq(p,k)       Lock(ctx,k,ttl): getQueue + enqueue                    *)
(*   Acquire(p)     select: <-c.ready       (Lock returns the id)          *)
(*   CancelCtx(p)   the caller's context is cancelled (environment)        *)
(*   Abort(p)       select: <-ctx.Done()    (remove itself, Lock fails)    *)
(*   Unlock(p,k,id) Unlock(k,id) by a caller that is not blocked in Lock   *)
(*   Expire(p)      the TTL watchdog of p's grant fires: remove            *)
(*                                                                         *)
(* Ids: the id is the only capability (it is generated inside Lock and     *)
(* handed out only by a successful return), so "an id you do not hold" is  *)
(* a stale id (released / expired earlier), the id of a live grant on a    *)
(* DIFFERENT key, or an id that was never issued (0).  Passing the live    *)
(* holder's own (key, id) is that holder's unlock; the id of a caller that *)
(* is still waiting is known to nobody.                                    *)
(*                                                                         *)
(* Dev: "QueuesNeverPruned" - the per-key queue object stays in the map    *)
(* after the queue has become empty (C28).                                 *)
(* "T_NoWake", "T_StaleRemovesHead" are NOT deviations of the code: they   *)
(* are deliberately broken variants used only to show that the properties  *)
(* are not vacuous (TLC must find a counterexample for each).              *)
(***************************************************************************)
EXTENDS Integers, Sequences, FiniteSets, TLC

CONSTANTS Procs, Keys,
          Budget,   \* API calls (Lock / Unlock) each process may make; 0 = unlimited (trace validation)
          Dev

VARIABLES queue,      \* [Keys -> Seq([id, owner])]
          qmap,       \* keys that have a queue object in the map
          nextId,     \* ids handed to enqueue so far (ids are never reused)
          pc,         \* [Procs -> {"idle","waiting","holding"}]
          key,        \* [Procs -> key of the current Lock call / grant, "" if none]
          cur,        \* [Procs -> id of the current Lock call / grant, 0 if none]
          ready,      \* [Procs -> the caller's ready channel is closed]
          cancelled,  \* [Procs -> the context of the current Lock call is cancelled]
          stale,      \* ids that were granted and later released or expired
          calls,      \* [Procs -> API calls made]
          wd,         \* ids whose TTL watchdog goroutine (timer, caller struct) is alive
          last        \* last action (observation only)

vars == <<queue, qmap, nextId, pc, key, cur, ready, cancelled, stale, calls, wd, last>>

Lbl(a, p, k, id, res) == last' = [a |-> a, p |-> p, k |-> k, id |-> id, res |-> res]

Init ==
  /\ queue = [k \in Keys |-> <<>>] /\ qmap = {} /\ nextId = 0
  /\ pc = [p \in Procs |-> "idle"] /\ key = [p \in Procs |-> ""] /\ cur = [p \in Procs |-> 0]
  /\ ready = [p \in Procs |-> FALSE] /\ cancelled = [p \in Procs |-> FALSE]
  /\ stale = {} /\ calls = [p \in Procs |-> 0] /\ wd = {}
  /\ last = [a |-> "Init", p |-> "", k |-> "", id |-> 0, res |-> 0]

MayCall(p) == Budget = 0 \/ calls[p] < Budget

IdxOf(q, id) == IF \E i \in DOMAIN q : q[i].id = id THEN CHOOSE i \in DOMAIN q : q[i].id = id ELSE 0
RemoveAt(q, i) == [j \in 1..(Len(q) - 1) |-> IF j < i THEN q[j] ELSE q[j + 1]]

\* queue.remove(id) on key k: returns (in `found`) whether the caller was there; wakes the new head if the head left;
\* the map entry is dropped with the last caller (strict design)
Remove(k, id, found) ==
  LET q == queue[k]
      i == IF "T_StaleRemovesHead" \in Dev /\ id \in stale /\ q # <<>> THEN 1 ELSE IdxOf(q, id)
  IN /\ found = (i # 0)
     /\ IF i = 0
          THEN UNCHANGED <<queue, ready, qmap>>
          ELSE LET nq == RemoveAt(q, i) IN
               /\ queue' = [queue EXCEPT ![k] = nq]
               /\ ready' = IF i = 1 /\ Len(nq) > 0 /\ "T_NoWake" \notin Dev THEN [ready EXCEPT ![nq[1].owner] = TRUE] ELSE ready
               /\ qmap' = IF nq = <<>> /\ "QueuesNeverPruned" \notin Dev THEN qmap \ {k} ELSE qmap

Enq(p, k) ==
  /\ pc[p] = "idle" /\ MayCall(p)
  /\ LET id == nextId + 1 IN
     /\ nextId' = id
     /\ queue' = [queue EXCEPT ![k] = Append(@, [id |-> id, owner |-> p])]
     /\ qmap' = qmap \cup {k}
     /\ pc' = [pc EXCEPT ![p] = "waiting"]
     /\ key' = [key EXCEPT ![p] = k] /\ cur' = [cur EXCEPT ![p] = id]
     /\ ready' = [ready EXCEPT ![p] = (queue[k] = <<>>)]
     /\ cancelled' = [cancelled EXCEPT ![p] = FALSE]
     /\ calls' = [calls EXCEPT ![p] = @ + 1]
     /\ Lbl("Enq", p, k, id, IF queue[k] = <<>> THEN 1 ELSE 0)
  /\ UNCHANGED <<stale, wd>>

Acquire(p) ==
  /\ pc[p] = "waiting" /\ ready[p]
  /\ pc' = [pc EXCEPT ![p] = "holding"]
  /\ wd' = wd \cup {cur[p]}                      \* the auto-unlock watchdog of this grant starts
  /\ Lbl("Acquire", p, key[p], cur[p], cur[p])
  /\ UNCHANGED <<queue, qmap, nextId, key, cur, ready, cancelled, stale, calls>>

CancelCtx(p) ==
  /\ pc[p] = "waiting" /\ ~cancelled[p]
  /\ cancelled' = [cancelled EXCEPT ![p] = TRUE]
  /\ Lbl("CancelCtx", p, key[p], cur[p], 0)
  /\ UNCHANGED <<queue, qmap, nextId, pc, key, cur, ready, stale, calls, wd>>

\* (AbortBody: the effect alone; trace validation does not see the cancellation itself)
AbortBody(p) ==
  /\ pc[p] = "waiting"
  /\ \E f \in BOOLEAN : Remove(key[p], cur[p], f) /\ f
  /\ pc' = [pc EXCEPT ![p] = "idle"]
  /\ key' = [key EXCEPT ![p] = ""] /\ cur' = [cur EXCEPT ![p] = 0]
  /\ Lbl("Abort", p, key[p], cur[p], 1)
  /\ UNCHANGED <<nextId, cancelled, stale, calls, wd>>

Abort(p) == cancelled[p] /\ AbortBody(p)

\* (key, id) pairs a caller that is not blocked may pass to Unlock
Unlockable(p) ==
  (IF pc[p] = "holding" THEN {<<key[p], cur[p]>>} ELSE {})                                   \* its own grant
  \cup {<<k, id>> : k \in Keys, id \in stale \cup {0}}                                       \* stale / never issued
  \cup UNION {{<<k, cur[q]>> : q \in {r \in Procs : pc[r] = "holding" /\ key[r] # k}} : k \in Keys}   \* live grant, other key (incl. own id with the wrong key)

Unlock(p, k, id) ==
  /\ pc[p] # "waiting" /\ MayCall(p)
  /\ <<k, id>> \in Unlockable(p)
  /\ \E f \in BOOLEAN :
       /\ IF k \in qmap THEN Remove(k, id, f) ELSE (f = FALSE /\ UNCHANGED <<queue, ready, qmap>>)
       /\ LET own == pc[p] = "holding" /\ k = key[p] /\ id = cur[p] IN
          /\ pc' = IF own THEN [pc EXCEPT ![p] = "idle"] ELSE pc
          /\ key' = IF own THEN [key EXCEPT ![p] = ""] ELSE key
          /\ cur' = IF own THEN [cur EXCEPT ![p] = 0] ELSE cur
          /\ stale' = IF own THEN stale \cup {id} ELSE stale
       /\ Lbl("Unlock", p, k, id, IF f THEN 1 ELSE 0)
  /\ calls' = [calls EXCEPT ![p] = @ + 1]
  /\ UNCHANGED <<nextId, cancelled, wd>>

\* the TTL of p's grant fires; afterwards p's id is just a stale id
Expire(p) ==
  /\ pc[p] = "holding"
  /\ \E f \in BOOLEAN : Remove(key[p], cur[p], f) /\ f
  /\ pc' = [pc EXCEPT ![p] = "idle"]
  /\ key' = [key EXCEPT ![p] = ""] /\ cur' = [cur EXCEPT ![p] = 0]
  /\ stale' = stale \cup {cur[p]}
  /\ Lbl("Expire", p, key[p], cur[p], 1)
  /\ UNCHANGED <<nextId, cancelled, calls, wd>>

\* the watchdog of a grant that has left its queue (unlocked: `done` is closed; or expired: its own remove) goes away,
\* and with it the timer and the caller struct it keeps alive
Queued == UNION {{queue[k][i].id : i \in DOMAIN queue[k]} : k \in Keys}
WdExit(id) ==
  /\ id \in wd /\ id \notin Queued
  /\ wd' = wd \ {id}
  /\ Lbl("WdExit", "", "", id, 0)
  /\ UNCHANGED <<queue, qmap, nextId, pc, key, cur, ready, cancelled, stale, calls>>

Next ==
  \/ \E p \in Procs, k \in Keys : Enq(p, k)
  \/ \E p \in Procs : Acquire(p) \/ CancelCtx(p) \/ Abort(p) \/ Expire(p)
  \/ \E p \in Procs : \E kid \in Unlockable(p) : Unlock(p, kid[1], kid[2])
  \/ \E id \in wd : WdExit(id)

\* nothing in flight: allowed to stutter, so that TLC's deadlock check means "somebody is blocked for good"
AtRest == (\A p \in Procs : pc[p] = "idle") /\ wd = {} /\ UNCHANGED vars

\* The select takes an enabled branch; every TTL eventually fires.  Nobody has to unlock or cancel.
Fairness == /\ \A p \in Procs : WF_vars(Acquire(p) \/ Abort(p)) /\ WF_vars(Expire(p))
            /\ WF_vars(\E id \in wd : WdExit(id))

Spec == Init /\ [][Next \/ AtRest]_vars /\ Fairness

-----------------------------------------------------------------------------
(* Properties (C14) *)

TypeOK ==
  /\ pc \in [Procs -> {"idle", "waiting", "holding"}]
  /\ qmap \subseteq Keys /\ nextId \in Nat /\ wd \subseteq 1..nextId

Holders(k) == {p \in Procs : pc[p] = "holding" /\ key[p] = k}

\* at most one caller holds a key
MutualExclusion == \A k \in Keys : Cardinality(Holders(k)) <= 1

\* the holder is the head of its key's queue: no foreign / stale / duplicate unlock, no cancellation and
\* no other caller's TTL has taken its lock away
HolderIsHead == \A p \in Procs : pc[p] = "holding" =>
                   /\ queue[key[p]] # <<>> /\ Head(queue[key[p]]).owner = p /\ Head(queue[key[p]]).id = cur[p]

\* callers in flight are exactly the queue entries; the head (and only the head) has been told to go
QueueConsistent ==
  /\ \A k \in Keys : \A i \in DOMAIN queue[k] :
        LET e == queue[k][i] IN pc[e.owner] # "idle" /\ key[e.owner] = k /\ cur[e.owner] = e.id /\ (ready[e.owner] <=> i = 1)
  /\ \A p \in Procs : pc[p] # "idle" => \E i \in DOMAIN queue[key[p]] : queue[key[p]][i].owner = p
  /\ \A k \in Keys : \A i, j \in DOMAIN queue[k] : i < j => queue[k][i].id < queue[k][j].id      \* arrival order

\* grants follow arrival order among the callers still waiting
GrantFifoStep ==
  \A p \in Procs : (pc[p] = "waiting" /\ pc'[p] = "holding") =>
        \A q \in Procs \ {p} : (pc[q] = "waiting" /\ key[q] = key[p]) => cur[p] < cur[q]
GrantFifo == [][GrantFifoStep]_vars

\* an unlock with an id that is not the caller's own live grant changes nothing
ForeignUnlockHarmlessStep ==
  (last'.a = "Unlock" /\ ~(pc[last'.p] = "holding" /\ last'.k = key[last'.p] /\ last'.id = cur[last'.p]))
        => (queue' = queue /\ pc' = pc /\ last'.res = 0)
ForeignUnlockHarmless == [][ForeignUnlockHarmlessStep]_vars

\* a lock is released only by its holder's unlock, its TTL, (or never): a holder stops holding only through these
ReleasedStep ==
  \A p \in Procs : (pc[p] = "holding" /\ pc'[p] # "holding") =>
        (last'.p = p /\ last'.a \in {"Unlock", "Expire"})
ReleasedOnlyByOwnerOrTtl == [][ReleasedStep]_vars

\* once the head is gone somebody has been told: a non-empty queue always has a head that holds or has been woken
HeadToldToGo == \A k \in Keys : queue[k] # <<>> => ready[Head(queue[k]).owner]

\* no waiter stays blocked (every holder's TTL fires at the latest)
NoStuckWaiter == \A p \in Procs : (pc[p] = "waiting") ~> (pc[p] # "waiting")

(* C28 *)
\* no per-key state is kept for a key nobody holds or waits for
NoResidue == \A k \in Keys : k \in qmap => queue[k] # <<>>
\* no watchdog (goroutine + timer + caller struct) is kept for a grant that is over: one exists only for current
\* grants, and the one of a finished grant goes away without waiting for its TTL
WatchdogOfGrant == \A p \in Procs : pc[p] = "holding" => cur[p] \in wd
NoWatchdogResidue == \A id \in 1..(Cardinality(Procs) * Budget) : (id \in wd /\ id \notin Queued) ~> (id \notin wd)
\* at a point of rest (nobody can take a step on his own) the only watchdogs are those of current grants
WdQuiescent == \A id \in wd : id \in Queued
\* and a key somebody holds or waits for has its queue
QueuePresent == \A k \in Keys : queue[k] # <<>> => k \in qmap

=============================================================================
