SPECIFICATION MCSpec
CONSTANTS
  p1 = p1
  p2 = p2
  p3 = p3
  Procs = {p1, p2}
  Dev = {}
  PathNames = {"get", "getbykeys", "count", "exists", "getall", "idx_cold_key", "idx_cold_time", "idx_warm", "set_upd", "set_new", "inc", "patch", "del", "shift", "filewriter"}
  Persistent = TRUE
CONSTRAINT Collect
INVARIANTS RaceFree CommittedRead
POSTCONDITION Report
CHECK_DEADLOCK FALSE
