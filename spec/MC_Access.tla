---------------------------- MODULE MC_Access ----------------------------
(* Model-checking harness for Access: explores every combination of API paths for the given processes and
   accumulates (TLCSet register 3, one worker) every pair of code sites found inside conflicting accesses at the
   same time - the predicted racing pairs.  The postcondition prints them; DumpPaths prints the step tables so
   that the conflicting pairs that never race (the protected pairs) can be listed too. *)
EXTENDS Access, Json

CONSTANTS p1, p2, p3

Desc(p, q) == [fa |-> Cur(p).fn, aa |-> Cur(p).acc, pa |-> path[p], fb |-> Cur(q).fn, ab |-> Cur(q).acc, pb |-> path[q],
               locs |-> Cur(p).locs \cap Cur(q).locs]

MCInit == AInit /\ TLCSet(3, {}) /\ TLCSet(4, {})

\* what a process that cannot enter its next step is waiting for
Blocked(p) == [fn |-> Cur(p).fn, path |-> path[p], wants |-> LockSet(Cur(p)) \ held[p], holds |-> held[p]]
DeadDesc == {Blocked(p) : p \in {q \in Procs : ~Done(q)}}
MCSpec == MCInit /\ [][ANext]_avars
Symm == Permutations(Procs)

\* state constraint used only for its side effect
Collect == /\ TLCSet(3, TLCGet(3) \cup {Desc(pq[1], pq[2]) : pq \in RacingNow})
           /\ (NoDeadlock \/ TLCSet(4, TLCGet(4) \cup {DeadDesc}))

\* every pair of code sites that touch a common location with at least one write (computed once, statically)
AllSteps == UNION {{[fn |-> Path(n)[i].fn, acc |-> Path(n)[i].acc, locs |-> Path(n)[i].locs] : i \in 1..Len(Path(n))} : n \in PathNames}
Conflicting == {<<a.fn, a.acc, b.fn, b.acc>> : <<a, b>> \in {ab \in AllSteps \X AllSteps : Conflict(ab[1], ab[2])}}

Report == PrintT(ToJson([racing |-> TLCGet(3), conflicting |-> Conflicting, deadlocks |-> TLCGet(4)])) /\ TRUE

\* the step tables, one JSON line per path (evaluated once)
DumpPaths == \A n \in AllPathNames :
               PrintT(ToJson([path |-> n, steps |-> [i \in 1..Len(Path(n)) |->
                   [fn |-> Path(n)[i].fn, locs |-> Path(n)[i].locs, acc |-> Path(n)[i].acc,
                    locks |-> {<<l[1], l[2]>> : l \in Path(n)[i].locks}]]]))
=============================================================================
