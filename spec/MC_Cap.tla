------------------------------ MODULE MC_Cap ------------------------------
(* Model-checking harness for Cap: 2-3 concurrent cap-bearing batches, 3 records, Max in {1,2}. *)
EXTENDS Cap

CONSTANTS Level    \* 0: every kind of batch; 11 / 12: witness alphabets for CountThenLock / CountOverIndex

PT(ps) == [kind |-> "pt", n |-> 0, patches |-> ps, create |-> FALSE, seedm |-> FALSE]
PTC(ps, seedm) == [kind |-> "pt", n |-> 0, patches |-> ps, create |-> TRUE, seedm |-> seedm]
PE(n) == [kind |-> "pe", n |-> n, patches |-> <<>>, create |-> FALSE, seedm |-> FALSE]
SH(n) == [kind |-> "sh", n |-> n, patches |-> <<>>, create |-> FALSE, seedm |-> FALSE]

MCReqs ==
  CASE Level = 11 -> {PT(<< <<1, "in">> >>), PT(<< <<2, "in">> >>)}
    [] Level = 12 -> {PE(1)}
    [] OTHER -> {PT(<< <<1, "in">> >>), PT(<< <<2, "in">> >>), PT(<< <<1, "in">>, <<2, "in">> >>), PT(<< <<1, "out">>, <<3, "in">> >>),
                 PT(<< <<3, "in">>, <<3, "out">>, <<2, "in">> >>), PE(1), PE(2), SH(1),
                 \* creates: key 4 never exists initially; the seed matches / does not match; the ops touch / do not touch the field
                 PTC(<< <<4, "keep">> >>, TRUE), PTC(<< <<4, "in">>, <<1, "in">> >>, FALSE), PTC(<< <<4, "out">> >>, TRUE)}

R(m, x, e) == [live |-> TRUE, m |-> m, x |-> x, e |-> e]

\* initial swamps: nobody matches; or (Max permitting) k3 matches, with a lease or without any expiry
MCInit ==
  /\ \E r3 \in {R(FALSE, TRUE, TRUE), R(TRUE, FALSE, TRUE), R(TRUE, FALSE, FALSE)} :
       rec = [k \in Keys |-> IF k = 3 THEN r3 ELSE IF k = 4 THEN Dead ELSE R(FALSE, TRUE, TRUE)]
  /\ mu = ""
  /\ pc = [p \in Procs |-> "idle"] /\ req = [p \in Procs |-> NoReq] /\ pre = [p \in Procs |-> -1]
  /\ budget = [p \in Procs |-> 0] /\ todo = [p \in Procs |-> <<>>] /\ sel = [p \in Procs |-> <<>>]
  /\ out = [p \in Procs |-> <<>>] /\ last = NoLast /\ used = {} /\ nops = 0

MCReturn(p) ==
  /\ pc[p] = "ret"
  /\ pc' = [pc EXCEPT ![p] = "done"]
  /\ UNCHANGED <<rec, mu, req, pre, budget, todo, sel, out, last, used, nops>>

MCNext == Steps(MCReqs) \/ \E p \in Procs : MCReturn(p)
MCSpec == MCInit /\ [][MCNext]_vars

\* witness schedules must be realisable with the gate cap.precount.done (between the pre-count and LockCapMu):
\* a batch that holds capMu runs to its end
Busy(q) == mu = q
Moved(q) == pc'[q] # pc[q] \/ todo'[q] # todo[q]
Coarse == \A q \in Procs : Busy(q) => Moved(q)
=============================================================================
