\* strict design: every C11 invariant must hold (Level/MaxOps are replaced by the check)
SPECIFICATION MCSpec
CONSTANTS
  Keys = {1, 2, 3}
  Claimers = {"c1", "c2"}
  Interferers = {"i1"}
  Dev = {}
  NOW = 10
  MaxOps = 3
  Level = 0
CONSTRAINT Bounded
INVARIANTS Disjoint MatchedAtClaim NoResurrection AtMostN IndexOrder NoGhost LockOK
