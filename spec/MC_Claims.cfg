\* strict design: every C11 invariant must hold
SPECIFICATION MCSpec
CONSTANTS
  Keys = {1, 2, 3}
  Claimers = {"c1", "c2"}
  Interferers = {"i1"}
  Dev = {}
  NOW = 10
  MaxOps = 3
  Level = 1
  ClaimReqs <- MCClaimReqs
  IntOps <- MCIntOps
CONSTRAINT Bounded
INVARIANTS Disjoint MatchedAtClaim NoResurrection AtMostN IndexOrder NoGhost LockOK
