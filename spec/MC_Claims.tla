---------------------------- MODULE MC_Claims ----------------------------
(* Model-checking harness for Claims: 2 claimers + 1 interferer, 3 records, HowMany in {1,2}. *)
EXTENDS Claims

CONSTANTS MaxOps,      \* bound on the number of calls
          Level        \* 1 = small request alphabet (quick tier), 2 = full alphabet (thorough tier)

NoF   == [mode |-> "none", useG |-> FALSE, G |-> {}, useS |-> FALSE, S |-> ""]
AndA  == [mode |-> "and", useG |-> TRUE, G |-> {"a"}, useS |-> FALSE, S |-> ""]
AndAS == [mode |-> "and", useG |-> TRUE, G |-> {"a"}, useS |-> TRUE, S |-> "c"]
AndZ  == [mode |-> "and", useG |-> TRUE, G |-> {"z"}, useS |-> TRUE, S |-> "c"]   \* indexable leg matches nothing
OrB   == [mode |-> "or", useG |-> TRUE, G |-> {"b"}, useS |-> FALSE, S |-> ""]
ResS  == [mode |-> "and", useG |-> FALSE, G |-> {}, useS |-> TRUE, S |-> "c"]    \* bypass: residual only

Ns == {1, 2}

SE(n) == [kind |-> "se", n |-> n, max |-> 0, idx |-> "exp", desc |-> FALSE, f |-> NoF, lo |-> -1, hi |-> -1,
          newst |-> "", lease |-> 0, cond |-> ""]
SM(n, x, f) == [kind |-> "sm", n |-> n, max |-> 0, idx |-> x, desc |-> FALSE, f |-> f, lo |-> -1, hi |-> -1,
                newst |-> "", lease |-> 0, cond |-> ""]
PE(n, f, lease, cond) == [kind |-> "pe", n |-> n, max |-> 0, idx |-> "exp", desc |-> FALSE, f |-> f, lo |-> -1, hi |-> -1,
                          newst |-> "c", lease |-> lease, cond |-> cond]
Del(k) == [kind |-> "del", k |-> k, e |-> -1, g |-> "", s |-> ""]
Patch(k, e, g, s) == [kind |-> "patch", k |-> k, e |-> e, g |-> g, s |-> s]
Put(k, e, g, s) == [kind |-> "put", k |-> k, e |-> e, g |-> g, s |-> s]

\* Level 0: one request of each kind that exercises every step (quick tier)
\* Level 1: HowMany in {1,2}, filters with and without an indexable leg
\* Level 2: every filter shape, both indexes, leases, conditions (thorough tier)
MCClaimReqs ==
  CASE Level = 0 -> {SE(1), SM(2, "key", AndA), PE(1, NoF, 11, "")}
    [] Level = 11 -> {SM(2, "key", AndZ)}                   \* witness alphabets, one per deviation
    [] Level = 12 -> {SM(2, "key", AndA)}
    [] Level = 13 -> {SE(1), SM(1, "key", NoF)}
    [] Level = 14 -> {PE(1, NoF, 11, "")}
    [] Level = 18 -> {SM(1, "key", ResS)}                    \* guard order: a writer changes k1 while the walk has not reached it
    [] Level = 17 -> {SE(1)}                                \* the patcher fetched k1 before the claim shifted it out
    [] Level = 16 -> {SE(1)}                                \* a save of the oldest record is between delete and add
    [] Level = 15 -> {PE(1, NoF, 11, "c"), SE(1)}           \* the patch condition fails: ghost in the expiration index
    [] Level = 1 -> {SE(n) : n \in Ns} \cup {SM(n, "key", f) : n \in Ns, f \in {NoF, AndA, AndZ}}
                    \cup {PE(n, f, 11, "") : n \in Ns, f \in {NoF, AndA}}
    [] OTHER     -> {SE(n) : n \in Ns}
                    \cup {SM(n, x, f) : n \in Ns, x \in {"key", "exp"}, f \in {NoF, AndA, AndAS, AndZ, OrB, ResS}}
                    \cup {PE(n, f, l, c) : n \in Ns, f \in {NoF, AndA, AndAS, AndZ, ResS}, l \in {0, 11}, c \in {"", "p"}}

MCIntOps ==
  CASE Level = 0 -> {Del(1), Patch(1, -1, "b", ""), Patch(1, 12, "", "")}
    [] Level \in {11, 13} -> {}
    [] Level = 18 -> {Patch(1, -1, "", "c")}
    [] Level \in {12, 16, 17} -> {Patch(1, -1, "b", "")}
    [] Level \in {14, 15} -> {Del(1)}
    [] Level = 1 -> {Del(k) : k \in Keys} \cup {Patch(k, -1, "b", "") : k \in Keys} \cup {Patch(k, 12, "", "") : k \in Keys}
                    \cup {Put(3, 3, "a", "p")}
    [] OTHER     -> {Del(k) : k \in Keys} \cup {Patch(k, -1, "b", "") : k \in Keys}
                    \cup {Patch(k, e, "", "") : k \in Keys, e \in {0, 12}}
                    \cup {Patch(k, -1, "", "c") : k \in Keys} \cup {Put(3, 3, "a", "p")}

R(e, g, s) == [live |-> TRUE, exp |-> e, grp |-> g, st |-> s]

\* initial swamp: two expired records of group "a"; the third is absent, or expired in group "b", or not expired
MCInit ==
  /\ mode \in {"mem", "disk"}
  /\ \E r3 \in (IF Level = 0 \/ Level > 10 THEN {R(3, "b", "p")} ELSE {Dead, R(3, "b", "p"), R(11, "a", "p")}) :
       /\ rec = [k \in Keys |-> CASE k = 1 -> R(1, "a", "p") [] k = 2 -> R(2, "a", "p") [] OTHER -> r3]
       /\ ix = [k \in Keys |-> CASE k = 1 -> 1 [] k = 2 -> 2 [] OTHER -> r3.exp]
       /\ alive = {k \in Keys : k # 3 \/ r3.live}
  /\ held = [k \in Keys |-> {}] /\ lock = [x \in Idx |-> ""]
  /\ pc = [p \in Procs |-> "idle"] /\ req = [p \in Procs |-> NoReq]
  /\ cand = [p \in Procs |-> {}] /\ walk = [p \in Procs |-> {}] /\ res = [p \in Procs |-> <<>>]
  /\ todo = [p \in Procs |-> <<>>] /\ out = [p \in Procs |-> <<>>]
  /\ owner = [k \in Keys |-> ""] /\ bad = {} /\ used = {} /\ nops = 0

\* a claimer makes one call; the interferer may make another one while calls are left
MCReturn(p) ==
  /\ pc[p] = "ret"
  /\ pc' = [pc EXCEPT ![p] = IF p \in Interferers /\ nops < MaxOps THEN "idle" ELSE "done"]
  /\ UNCHANGED <<mode, rec, ix, held, lock, req, cand, walk, res, todo, out, owner, alive, bad, used, nops>>
MCNext == Steps(MCClaimReqs, MCIntOps) \/ \E p \in Procs : MCReturn(p)
MCSpec == MCInit /\ [][MCNext]_vars

\* Witness schedules must be realisable with the gates the code offers (beacon.select.enter = pc "lock",
\* beacon.select.exit = end of the walk with the lock held, patchexpired.selected = pc "fin" before the first
\* patch): everything between two gates runs without interruption, an interferer's call runs to completion.
\* A process that is waiting for a lock is not busy.
WalkOver(q) == walk[q] = {} \/ Len(res[q]) >= EffN(req[q])
Busy(q) ==
  \/ pc[q] = "walk" /\ ~WalkOver(q)
  \/ pc[q] = "fin" /\ req[q].kind \in {"se", "sm"}
  \/ pc[q] = "fin" /\ req[q].kind = "pe" /\ todo[q] # res[q] /\ ~(todo[q] = <<>> /\ lock["expA"] # "")
  \/ pc[q] = "do" /\ req[q].kind # "patch"        \* (a patch can be parked at gate patchfields.fetched)
  \/ pc[q] = "rx" /\ lock["expA"] = "" /\ lock["expD"] = ""     \* (pc "gap" = gate beacon.add.enter: interruptible)
Moved(q) == pc'[q] # pc[q] \/ walk'[q] # walk[q] \/ todo'[q] # todo[q]
Coarse == \A q \in Procs : Busy(q) => Moved(q)

\* Scenario generator (not a property): a state in which a writer has changed the first record of a walk out of the
\* claim's filter while the walker already holds the selection lock and has not visited that record yet.  TLC's
\* shortest path to it is replayed with the writer parked at gate patchfields.guarded (it holds the record guard):
\* the real walk must wait for the guard and judge the record in its new state.
NotGuardScenario ==
  ~(\E c \in Claimers, i \in Interferers :
       /\ pc[c] = "walk" /\ 1 \in walk[c] /\ res[c] = <<>>
       /\ req[i].kind = "patch" /\ pc[i] = "ret" /\ rec[1].st = "c")

\* ... and the writer must already be inside its call (parked holding the guard) when the walker takes the lock
GuardScenarioOrder ==
  (\E c \in Claimers : pc[c] = "lock" /\ pc'[c] = "walk") => \A i \in Interferers : pc[i] = "do"

\* every process makes at most one call at a time; the total number of calls is bounded
Bounded == nops <= MaxOps
\* cut the search below a state in which an invariant is already broken (as-built runs)
view == <<mode, rec, ix, held, lock, pc, req, cand, walk, res, todo, out, owner, alive, bad, used>>
=============================================================================
