---------------------------- MODULE MC_Claims ----------------------------
(* Model-checking harness for Claims: 2 claimers + 1 interferer, 3 records, HowMany in {1,2}. *)
EXTENDS Claims

CONSTANTS MaxOps,      \* bound on the number of calls
          Level        \* 1 = small request alphabet (quick tier), 2 = full alphabet (thorough tier)

NoF   == [mode |-> "none", useG |-> FALSE, G |-> {}, useS |-> FALSE, S |-> ""]
AndA  == [mode |-> "and", useG |-> TRUE, G |-> {"a"}, useS |-> FALSE, S |-> ""]
AndAS == [mode |-> "and", useG |-> TRUE, G |-> {"a"}, useS |-> TRUE, S |-> "c"]
AndZ  == [mode |-> "and", useG |-> TRUE, G |-> {"z"}, useS |-> TRUE, S |-> "c"]   \* indexable leg matches nothing
OrB   == [mode |-> "or", useG |-> TRUE, G |-> {"b"}, useS |-> FALSE, S |-> ""]
ResS  == [mode |-> "and", useG |-> FALSE, G |-> {}, useS |-> TRUE, S |-> "c"]    \* bypass: residual only

Filters == IF Level = 1 THEN {NoF, AndA, AndZ} ELSE {NoF, AndA, AndAS, AndZ, OrB, ResS}
Ns == {1, 2}

SE(n) == [kind |-> "se", n |-> n, max |-> 0, idx |-> "exp", desc |-> FALSE, f |-> NoF, lo |-> -1, hi |-> -1,
          newst |-> "", lease |-> 0, cond |-> ""]
SM(n, x, f) == [kind |-> "sm", n |-> n, max |-> 0, idx |-> x, desc |-> FALSE, f |-> f, lo |-> -1, hi |-> -1,
                newst |-> "", lease |-> 0, cond |-> ""]
PE(n, f, lease, cond) == [kind |-> "pe", n |-> n, max |-> 0, idx |-> "exp", desc |-> FALSE, f |-> f, lo |-> -1, hi |-> -1,
                          newst |-> "c", lease |-> lease, cond |-> cond]

MCClaimReqs ==
  {SE(n) : n \in Ns}
  \cup {SM(n, x, f) : n \in Ns, x \in (IF Level = 1 THEN {"key"} ELSE {"key", "exp"}), f \in Filters}
  \cup {PE(n, f, l, c) : n \in Ns, f \in (IF Level = 1 THEN {NoF, AndA} ELSE Filters \ {OrB}),
                         l \in (IF Level = 1 THEN {11} ELSE {0, 11}), c \in (IF Level = 1 THEN {""} ELSE {"", "p"})}

MCIntOps ==
  {[kind |-> "del", k |-> k, e |-> -1, g |-> "", s |-> ""] : k \in Keys}
  \cup {[kind |-> "patch", k |-> k, e |-> -1, g |-> "b", s |-> ""] : k \in Keys}      \* moves the record out of grp "a"
  \cup {[kind |-> "patch", k |-> k, e |-> e, g |-> "", s |-> ""] : k \in Keys, e \in (IF Level = 1 THEN {12} ELSE {0, 12})}
  \cup (IF Level = 1 THEN {} ELSE {[kind |-> "patch", k |-> k, e |-> -1, g |-> "", s |-> "c"] : k \in Keys})
  \cup {[kind |-> "put", k |-> 3, e |-> 3, g |-> "a", s |-> "p"]}

R(e, g, s) == [live |-> TRUE, exp |-> e, grp |-> g, st |-> s]

\* initial swamp: two expired records of group "a"; the third is absent, or expired in group "b", or not expired
MCInit ==
  /\ mode \in {"mem", "disk"}
  /\ \E r3 \in {Dead, R(3, "b", "p"), R(11, "a", "p")} :
       /\ rec = [k \in Keys |-> CASE k = 1 -> R(1, "a", "p") [] k = 2 -> R(2, "a", "p") [] OTHER -> r3]
       /\ ix = [k \in Keys |-> CASE k = 1 -> 1 [] k = 2 -> 2 [] OTHER -> r3.exp]
       /\ alive = {k \in Keys : k # 3 \/ r3.live}
  /\ held = [k \in Keys |-> {}] /\ lock = [x \in Idx |-> ""]
  /\ pc = [p \in Procs |-> "idle"] /\ req = [p \in Procs |-> NoReq]
  /\ cand = [p \in Procs |-> {}] /\ walk = [p \in Procs |-> <<>>] /\ res = [p \in Procs |-> <<>>]
  /\ todo = [p \in Procs |-> <<>>] /\ out = [p \in Procs |-> <<>>]
  /\ owner = [k \in Keys |-> ""] /\ bad = {} /\ used = {} /\ nops = 0

MCSpec == MCInit /\ [][Next]_vars

\* every process makes at most one call at a time; the total number of calls is bounded
Bounded == nops <= MaxOps
\* cut the search below a state in which an invariant is already broken (as-built runs)
view == <<mode, rec, ix, held, lock, pc, req, cand, walk, res, todo, out, owner, alive, bad, used>>
=============================================================================
