SPECIFICATION Spec
CONSTANTS
  Algs = {"gzip", "lz4", "snappy", "zstd"}
  Dev = {}
INVARIANTS RoundTrip NoHiddenCorruption
CHECK_DEADLOCK FALSE
