\* strict design: every entry point, every leftover temp file, every crash point
SPECIFICATION Spec
CONSTANTS
  Keys = {1, 2}
  EntryPoints = {"inline", "close", "load", "forced", "cli", "api"}
  NoCleanup = {"cli", "api"}
  Dev = {}
  MaxAppends = 3
  MaxRuns = 2
  StaleTemps <- MCStaleTemps
CONSTRAINT Bounded
VIEW view
INVARIANTS CompactionPreserves CrashAtomic IntactDuringRun TempOnlyLive RenameOnlyDurable
