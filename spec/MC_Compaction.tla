--------------------------- MODULE MC_Compaction ---------------------------
EXTENDS Compaction, Json
\* Model-checking harness for Compaction: the leftover temp files a run may find, and the scenario export.

PutSeqs == UNION {[1..n -> {<<k, v>> : k \in Keys, v \in 1..2}] : n \in 0..2}
WholeTemps == {[ex |-> TRUE, hdr |-> 2, ents |-> s, dur |-> Len(s)] : s \in PutSeqs}
TornTemps == {[ex |-> TRUE, hdr |-> 2, ents |-> Append(s, t), dur |-> Len(s) + 1] : s \in PutSeqs, t \in {TornHdr, TornPay}}
MCStaleTemps == {NoFile, NewFile, [NewFile EXCEPT !.hdr = 1]} \cup WholeTemps \cup TornTemps
=============================================================================
