SPECIFICATION Spec
CONSTANTS
  MaxBlocks = 2
  Dev = {}
INVARIANTS ReadSound IntactReadsFull PayloadCrcAlwaysErr ReadBounded
CHECK_DEADLOCK FALSE
