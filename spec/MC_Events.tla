----------------------------- MODULE MC_Events -----------------------------
(***************************************************************************)
(* Model checking of Events: writers issue operations, subscribers come    *)
(* and go, the system commits, sends and returns as the (strict or         *)
(* as-built) design does; the properties are evaluated on the history.     *)
(***************************************************************************)
EXTENDS Events

CONSTANTS MaxOps, Vals, OpNames

VARIABLES st, ops
mcvars == <<st, ops>>

Big == 1000

MCInit == st = [Init0 EXCEPT !.hist = TRUE] /\ ops = 0

\* the message the system hands to a stream for writer w's committed change
MsgOf(w) ==
  LET p == st.pend[w] IN
  [k |-> p.k, kind |-> p.kind, val |-> p.val,
   et |-> IF "TimeNanosAsSeconds" \in Dev THEN p.tcm * Big ELSE p.tcm,
   etn |-> IF "TimeNanosAsSeconds" \in Dev THEN p.tcm ELSE 0]

MCNext ==
  \/ \E s \in Subs : st' \in (DoSub(st, s) \cup DoUnsub(st, s)) /\ UNCHANGED ops
  \/ \E w \in Writers, op \in OpNames, k \in Keys, v \in Vals :
       /\ ops < MaxOps
       /\ st' \in DoCall(st, w, op, IF op = "read" THEN 0 ELSE k, v, 0)
       /\ ops' = ops + 1
  \/ \E w \in Writers : st' \in DoCommit(Dev, [st EXCEPT !.now = Len(st.commits) + 1], w) /\ UNCHANGED ops
  \/ \E w \in Writers, s \in Subs : st' \in DoSendBegin(Dev, st, w, s, MsgOf(w)) /\ UNCHANGED ops
  \/ \E w \in Writers, s \in Subs : st' \in DoSendEnd(st, w, s) /\ UNCHANGED ops
  \/ \E w \in Writers :
       st' \in DoRet(st, w, StatusOf(st.pend[w].op, st.pend[w].kind), Big * Big) /\ UNCHANGED ops

MCSpec == MCInit /\ [][MCNext]_mcvars

InvSendsSerial == SendsSerial(st)
InvOnlyChanges == OnlyChanges(st)
InvEvents == NoSpuriousNoDuplicate(st)
InvTime == TimeInWindow(st)
\* exactly once: when nothing is in flight every commit has reached every stream it owed (that is still subscribed)
InvDelivered ==
  (\A w \in Writers : st.pend[w].ph = "idle") =>
    \A i \in DOMAIN st.commits : \A s \in st.commits[i].subs :
      \E j \in DOMAIN st.recv[s] : Matches(st.commits[i], st.recv[s][j]) /\ st.recv[s][j].t = st.commits[i].t * (IF "TimeNanosAsSeconds" \in Dev THEN Big ELSE 1)
\* the system can always finish what it started (no request is stuck)
NoStuck == \A w \in Writers : st.pend[w].ph # "idle" => ENABLED MCNext
=============================================================================
