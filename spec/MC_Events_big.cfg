SPECIFICATION MCSpec
CONSTANTS
  Keys = {1, 2}
  Writers = {"w1", "w2"}
  Subs = {"s1", "s2"}
  Dev = {}
  MaxOps = 3
  Vals = {1, 2}
  OpNames = {"set", "del", "read"}
INVARIANTS InvSendsSerial InvOnlyChanges InvEvents InvTime InvDelivered
CHECK_DEADLOCK FALSE
