\* strict design, full case space: RoutesAgree must hold
SPECIFICATION Spec
CONSTANTS
  Dev = {}
  Size = "full"
INVARIANT RoutesAgreeInv
CHECK_DEADLOCK FALSE
