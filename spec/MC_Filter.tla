----------------------------- MODULE MC_Filter -----------------------------
(***************************************************************************)
(* Exhaustive check of the design in Filter.tla over a small case space:   *)
(* every pair of documents over a small value set against every query of   *)
(* a small family (single legs, AND with residual, all-indexable OR, AND    *)
(* with an OR sub-group, labels, [*] and #len paths, paging, time window).  *)
(*                                                                          *)
(*   Dev = {}    RoutesAgree must hold: the planner + bucket execution of   *)
(*               the strict design give exactly the reference answers.      *)
(*   Dev = {d}   for every named deviation d the invariant must FAIL        *)
(*               (non-vacuity: TLC finds the witness).                      *)
(* One state per case (Init enumerates the space; the only step stutters).  *)
(***************************************************************************)
EXTENDS Filter

CONSTANTS Dev, Size      \* Size: "small" (quick tier) or "full"

VARIABLE cs

AVals == IF Size = "small" THEN {VInt(5), VFloat(55), VStr("5"), VTime(5), VArr(<<VUint(5)>>), VMissing}
         ELSE {VInt(5), VUint(5), VFloat(55), VStr("5"), VTime(5), VArr(<<VInt(5)>>), VArr(<<VUint(5), VStr("x")>>), VMissing}
BVals == {VInt(5), VInt(0)}
CRanks == IF Size = "small" THEN {0, 1} ELSE {0, 1, 2}
BKinds == {"map", "raw"}
DocsFor(key, kr) == {[key |-> key, kr |-> kr, bk |-> bk, a |-> a, b |-> b, c |-> c, u |-> c, e |-> 0] :
                       bk \in BKinds, a \in AVals, b \in BVals, c \in CRanks}
\* the second document ranges over a thinner set
Docs2 == {[key |-> "a2", kr |-> 3, bk |-> "map", a |-> a, b |-> VInt(5), c |-> c, u |-> c, e |-> 0] :
            a \in (IF Size = "small" THEN {VInt(5), VMissing} ELSE AVals), c \in (IF Size = "small" THEN {1} ELSE CRanks)}
Contents == {{d1, d2} : d1 \in DocsFor("a1", 1), d2 \in Docs2}

PA == <<Seg("a", "f")>>   PB == <<Seg("b", "f")>>   PAW == <<Seg("a", "w")>>   PALEN == <<Seg("a", "f"), Seg("", "len")>>
L(p, op, cv, lb) == [p |-> p, op |-> op, cv |-> cv, in |-> <<>>, label |-> lb]
G(logic, legs, subs) == [logic |-> logic, legs |-> legs, subs |-> subs]
ALegs == {L(PA, "EQ", cv, lb) : cv \in {CInt(5), CUint(5), CFloat(55), VStr("5")}, lb \in {"", "L1"}}
         \cup {L(PAW, "EQ", CInt(5), ""), L(PAW, "EQ", CUint(5), "L1"), L(PALEN, "EQ", CInt(1), "")}
         \cup {[p |-> PA, op |-> "I64IN", cv |-> VInt(0), in |-> <<VInt(5), VInt(0)>>, label |-> "L1"]}
BRes == L(PB, "NE", CInt(0), "L2")
Filters ==
  {G("AND", <<l>>, <<>>) : l \in ALegs}
  \cup {G("AND", <<BRes, l>>, <<>>) : l \in ALegs}
  \cup {G("OR", <<L(PA, "EQ", CInt(5), "L1"), l>>, <<>>) : l \in ALegs}
  \cup {G("AND", <<BRes>>, <<G("OR", <<L(PA, "EQ", VStr("5"), "L3"), l>>, <<>>)>>) : l \in ALegs}
  \cup {G("OR", <<BRes>>, <<G("AND", <<l>>, <<>>)>>) : l \in ALegs}
AllQ ==
  {[f |-> f, idx |-> idx, desc |-> FALSE, from |-> from, limit |-> limit, max |-> 0, ft |-> ft, tt |-> 0, excl |-> {}] :
     f \in Filters, idx \in {"key", "ctime"}, from \in {0, 1}, limit \in {0, 1}, ft \in {0, 2}}
\* only unpaged and (From 1, Limit 1) queries
Thin == {q \in AllQ : q.from # q.limit}
Queries == AllQ \ Thin

Init == cs \in Contents \X Queries
Next == UNCHANGED cs
Spec == Init /\ [][Next]_cs

\* C08 on the model: both routes give the reference answers
RoutesAgreeInv ==
  /\ ScanAnswers(cs[1], cs[2], Dev) = Answer(cs[1], cs[2])
  /\ BucketAnswers(cs[1], cs[2], Dev) = Answer(cs[1], cs[2])

\* the named deviations account for every difference between the transcribed evaluator and the canonical rule
Refs == {CInt(5), CInt(0), CInt(-1), CInt16(5), CUint(5), CUint(0), CFloat(50), CFloat(55), CFloat32(55), VStr("5"), VStr(""), VBool(TRUE)}
Scalars == {VInt(5), VInt(0), VInt(-1), VUint(5), VUint(0), VFloat(50), VFloat(55), VFloat(-5), VBool(TRUE), VBool(FALSE),
            VStr("5"), VStr(""), VTime(5), VTime(0), VNil, VArr(<<VInt(5)>>), VMap(<<>>)}
ASSUME \A v \in Scalars, r \in Refs :
         /\ Eq(v, r, AllDevs) = BuiltEq(v, r)
         /\ (Eq(v, r, {}) # BuiltEq(v, r)) => v.k \in {"float", "time"}
ASSUME \A v \in Scalars : \A in \in {<<VInt(5)>>, <<VInt(0), VInt(-1)>>} :
         In(v, "I64IN", in, AllDevs) = BuiltIn(v, "I64IN", in)
=============================================================================
