\* strict design, 3 callers, <= 7 API calls: all C15 properties must hold
SPECIFICATION Spec
CONSTANTS
  p1 = p1
  p2 = p2
  p3 = p3
  Procs = {p1, p2, p3}
  MaxOps = 7
  Dev = {}
CONSTRAINT Bounded
VIEW view
INVARIANTS TypeOK Exclusive HolderIsHead QueueInArrivalOrder HeadCanProceed
PROPERTIES GrantFifo
