---------------------------- MODULE MC_Guard ----------------------------
EXTENDS Guard, Json, TLCExt
\* Model-checking harness for Guard: constants, state constraint, edge export.
CONSTANTS p1, p2, p3

\* Every explored transition as one JSON line (used with -workers 1): the conformance driver
\* replays one path per edge of the reachable state graph on the real guard.
StateRec(q, c, pcs, cr, st) ==
  [queue |-> [i \in DOMAIN q |-> q[i].id], owners |-> [i \in DOMAIN q |-> q[i].owner],
   counter |-> c, pc |-> pcs, cur |-> cr, stale |-> st]
ExportEdge ==
  PrintT(ToJson([from |-> StateRec(queue, counter, pc, cur, stale), act |-> last',
                 to |-> StateRec(queue', counter', pc', cur', stale')]))
=============================================================================
