\* as-built before the repair: the counter restarts, TLC must find the witness
SPECIFICATION Spec
CONSTANTS
  p1 = p1
  p2 = p2
  p3 = p3
  Procs = {p1, p2, p3}
  MaxOps = 7
  Dev = {"IdReuse"}
CONSTRAINT Bounded
VIEW view
INVARIANTS TypeOK Exclusive HolderIsHead QueueInArrivalOrder HeadCanProceed
PROPERTIES GrantFifo
