\* exports every transition of the strict state graph (run with -workers 1)
SPECIFICATION Spec
CONSTANTS
  p1 = p1
  p2 = p2
  p3 = p3
  Procs = {p1, p2, p3}
  MaxOps = 5
  Dev = {}
CONSTRAINT Bounded
VIEW view
ACTION_CONSTRAINT ExportEdge
