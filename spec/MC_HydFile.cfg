\* strict design, no crash, no fault: C01
SPECIFICATION MCSpec
CONSTANTS
  k1 = k1
  k2 = k2
  v1 = v1
  v2 = v2
  Nil = Nil
  Keys = {k1, k2}
  Vals = {v1, v2}
  BadKeys = {}
  CntLimit = 3
  Named = TRUE
  Dev = {}
  MaxWrites = 4
  MaxCalls = 4
  MaxCrash = 0
  MaxFault = 0
SYMMETRY Sym
INVARIANTS TypeOK Consistent LWW RejectNotMangle NoSpuriousError NoTornFailure FlushBoundary DurableReadable AlwaysRecoverable
CHECK_DEADLOCK FALSE
