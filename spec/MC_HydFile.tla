---------------------------- MODULE MC_HydFile ----------------------------
EXTENDS HydFile
\* Exhaustive model-checking harness for HydFile.
CONSTANTS MaxWrites, MaxCalls, MaxCrash, MaxFault, Named,
          BadKeys      \* subset of Keys whose writes cannot be encoded (class "over_e")

MCEntry(op, k, v) == [op |-> op, k |-> k, v |-> v, kc |-> IF k \in BadKeys THEN "over_e" ELSE "ok",
                      rep |-> 1, ak |-> k, av |-> Nil]
MCEntries == {MCEntry("ins", k, v) : k \in Keys, v \in Vals} \cup {MCEntry("del", k, Nil) : k \in Keys}

\* every placement of block flushes: fl is chosen freely (covers every block-size configuration)
MCNext ==
  \/ cnt.writes < MaxWrites /\ \E e \in MCEntries, fl \in BOOLEAN : WriteEntry(e, fl, TRUE)
  \/ cnt.calls < MaxCalls /\ (Open(Named) \/ Sync \/ Close \/ CloseWedged)
  \/ FileStep
  \/ cnt.crashes < MaxCrash /\ \E tear \in {"none", "part"} : Crash(tear)
  \/ cnt.faults < MaxFault /\ \E mode \in {"err", "short"} : Fault(mode)

MCSpec == Init /\ [][MCNext]_vars
Sym == Permutations(Keys) \cup Permutations(Vals)
SymV == Permutations(Vals)
=============================================================================
