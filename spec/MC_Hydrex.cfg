\* strict design: 2 index names x 2 domains x 3 keys x 2 values, <= 4 calls
SPECIFICATION Spec
CONSTANTS
  Indexes = {"i1", "i2"}
  Domains = {"d1", "d2"}
  Keys = {"k1", "k2", "k3"}
  Vals = {"v1", "v2"}
  MaxOps = 4
  Dev = {}
VIEW view
INVARIANTS TypeOK ReverseIsInverse DomainKeysAreLastSaved DomainIsLastSaved
CHECK_DEADLOCK FALSE
