---------------------------- MODULE MC_Hydrex ----------------------------
EXTENDS Hydrex
\* Model-checking harness for Hydrex (constants in the cfg files).
=============================================================================
