\* as-built: existing keys are skipped, TLC must find a witness against DomainIsLastSaved
SPECIFICATION Spec
CONSTANTS
  Indexes = {"i1", "i2"}
  Domains = {"d1", "d2"}
  Keys = {"k1", "k2", "k3"}
  Vals = {"v1", "v2"}
  MaxOps = 4
  Dev = {"ValueNotUpdated"}
VIEW view
INVARIANTS TypeOK ReverseIsInverse DomainKeysAreLastSaved DomainIsLastSaved
CHECK_DEADLOCK FALSE
