\* strict design, update-time index, 3 keys, attribute values {0,1,2} (ties), every request
SPECIFICATION Spec
CONSTANTS
  Keys = {1, 2, 3}
  Kinds = {"updated"}
  Dev = {}
  CVals = {1}
  UVals = {0, 1, 2}
  EVals = {0}
  VVals = {1}
  VTs = {"int64"}
  MaxFrom = 3
  MaxLimit = 3
  MaxT = 3
INVARIANTS TypeOK ReadsCorrect SlicesSorted
