--------------------------- MODULE MC_IndexRead ---------------------------
\* Model-checking harness for IndexRead (constants come from the cfg / from checks/c07.py).
EXTENDS IndexRead
=============================================================================
