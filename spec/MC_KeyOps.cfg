\* strict design, 3 clients x 2 requests, one key, every kind of request, immediate-write mode
SPECIFICATION MCSpec
CONSTANTS
  p1 = p1
  p2 = p2
  p3 = p3
  Procs = {p1, p2, p3}
  Keys = {"k1", "k2"}
  Dev = {}
  Mode = "pi"
  MaxObj = 4
  TrackAbs = TRUE
  OpsPer = 2
  Alphabet <- AlphaMixed1
VIEW mview
SYMMETRY Symm
INVARIANTS Linearizable NoLostUpdate Exclusive NoStuck
CHECK_DEADLOCK FALSE
