---------------------------- MODULE MC_KeyOps ----------------------------
(* Exhaustive model checking harness for KeyOps: every client issues OpsPer requests chosen from an
   alphabet; all interleavings of the requests' steps are explored. *)
EXTENDS KeyOps

CONSTANTS OpsPer,     \* requests per client
          Alphabet    \* set of request records

VARIABLES cnt,        \* [Procs -> requests started]
          acks        \* [Keys -> sum of the deltas of acknowledged increments / patches]

mvars == <<sh, ps, abs, used, cnt, acks>>
mview == <<sh, ps, abs, cnt, acks>>

O(op, k, a, c, cv, cr, ow, ty) == [op |-> op, k |-> k, a |-> a, c |-> c, cv |-> cv, cr |-> cr, ow |-> ow, ty |-> ty]

\* counters only: the "no acknowledged increment or patch is lost" reading of C09
AlphaCounter1 == {O("inc", "k1", 1, "", 0, 0, 0, "")}
AlphaCounter2 == {O("inc", "k1", 1, "", 0, 0, 0, ""), O("patch", "k2", 1, "", 0, 1, 0, "")}
AlphaCounterCond == {O("inc", "k1", 1, "", 0, 0, 0, ""), O("inc", "k1", 2, "lt", 2, 0, 0, "")}
\* one key, every kind of request
AlphaMixed1 == {O("inc", "k1", 1, "", 0, 0, 0, ""), O("set", "k1", 5, "", 0, 1, 0, "i64"), O("set", "k1", 7, "", 0, 0, 1, "i64"),
                O("del", "k1", 0, "", 0, 0, 0, ""), O("shift", "k1", 0, "", 0, 0, 0, ""), O("get", "k1", 0, "", 0, 0, 0, "")}
AlphaMixedMap == {O("patch", "k2", 1, "", 0, 1, 0, ""), O("patch", "k2", 2, "", 0, 0, 0, ""), O("set", "k2", 5, "", 0, 1, 1, "map"),
                  O("del", "k2", 0, "", 0, 0, 0, ""), O("shift", "k2", 0, "", 0, 0, 0, ""), O("get", "k2", 0, "", 0, 0, 0, "")}
\* two keys
AlphaTwoKeys == {O("inc", "k1", 1, "", 0, 0, 0, ""), O("del", "k1", 0, "", 0, 0, 0, ""), O("set", "k1", 5, "", 0, 1, 0, "i64"),
                 O("patch", "k2", 1, "", 0, 1, 0, ""), O("shift", "k2", 0, "", 0, 0, 0, "")}

MCInit == KInit /\ cnt = [p \in Procs |-> 0] /\ acks = [k \in Keys |-> 0]

MCBegin(p) ==
  /\ cnt[p] < OpsPer
  /\ \E o \in Alphabet : Begin(p, o)
  /\ cnt' = [cnt EXCEPT ![p] = @ + 1]
  /\ UNCHANGED acks

MCEnd(p) ==
  /\ End(p)
  /\ LET o == ps[p].o  r == ps[p].res IN
     acks' = IF r.st \in {"INC", "CREATED", "PATCHED"} THEN [acks EXCEPT ![o.k] = @ + o.a] ELSE acks
  /\ UNCHANGED cnt

MCNext == \E p \in Procs : MCBegin(p) \/ MCEnd(p) \/ (Step(p) /\ UNCHANGED <<cnt, acks>>)
MCSpec == MCInit /\ [][MCNext]_mvars

CounterOnly == \A o \in Alphabet : o.op \in {"inc", "patch"} /\ (o.op = "patch" => o.cr = 1)

\* no acknowledged increment or patch is lost: when nothing is in flight the stored counter is the sum of
\* the acknowledged deltas
NoLostUpdate ==
  (CounterOnly /\ Quiescent) => \A k \in Keys : (IF View(sh, k).t = "none" THEN 0 ELSE View(sh, k).v) = acks[k]

\* every request terminates: from any state some client can move unless all are finished
AllDone == \A p \in Procs : cnt[p] = OpsPer /\ ps[p].pc = "idle"
NoStuck == AllDone \/ ENABLED MCNext

Symm == Permutations(Procs)

\* compact counterexample output
Alias == [req |-> [p \in Procs |-> <<ps[p].pc, ps[p].o.op, ps[p].o.k, ps[p].b, ps[p].gid, ps[p].res.st, ps[p].res.v, ps[p].ares.st, ps[p].ares.v>>],
          beacon |-> sh.beacon, creating |-> sh.creating, content |-> [x \in 1..sh.nobj |-> <<sh.content[x].t, sh.content[x].v>>],
          gq |-> [x \in 1..sh.nobj |-> sh.gq[x]], abs |-> abs, acks |-> acks]
=============================================================================
