--------------------------- MODULE MC_Lifecycle ---------------------------
(* Model-checking harness for Lifecycle: operation menus (cfg files cannot hold records): Menu <- MenuXxx *)
EXTENDS Lifecycle

M(o, k) == [op |-> o, k |-> k]
MenuFull    == {M("set", "k1"), M("set", "k2"), M("del", "k1"), M("del", "k2"), M("shift", "k1"), M("destroy", "none")}
MenuSetDel  == {M("set", "k1"), M("set", "k2"), M("del", "k1"), M("del", "k2")}
MenuSetOnly == {M("set", "k1"), M("set", "k2")}
MenuShift   == {M("set", "k1"), M("set", "k2"), M("shift", "k1"), M("shift", "k2")}
MenuDestroy == {M("set", "k1"), M("del", "k1"), M("destroy", "none")}
\* two-operation menus: the smallest models that contain the witness of a deviation
MenuDelSet2 == {M("del", "k1"), M("set", "k2")}      \* last-record delete against an insert
MenuDelSet1 == {M("del", "k1"), M("set", "k1")}      \* delete against a re-create
MenuSetDelK2 == {M("set", "k2"), M("del", "k2")}     \* insert, then delete of the unwritten record
MenuSetK1   == {M("set", "k1")}
=============================================================================
