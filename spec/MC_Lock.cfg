\* strict design: 3 callers x 2 keys, 2 API calls each; safety, deadlock, liveness (3.35 M states)
SPECIFICATION Spec
CONSTANTS
  Procs = {"p1", "p2", "p3"}
  Keys = {"k1", "k2"}
  Budget = 2
  MaxTotal = 99
  Dev = {}
INVARIANTS TypeOK MutualExclusion HolderIsHead QueueConsistent HeadToldToGo NoResidue QueuePresent
PROPERTIES GrantFifo ForeignUnlockHarmless ReleasedOnlyByOwnerOrTtl NoStuckWaiter
