---------------------------- MODULE MC_Lock ----------------------------
EXTENDS Lock, Json
CONSTANT MaxTotal   \* bound on the total number of API calls for the edge export (CONSTRAINT Cap)
\* Model-checking harness for Lock: edge export for the replay driver.

StateRec(q, qm, pcs, ks, cr, rd, cn, st, ni, cl, wds) ==
  [queue |-> [k \in Keys |-> [i \in DOMAIN q[k] |-> q[k][i].id]],
   owners |-> [k \in Keys |-> [i \in DOMAIN q[k] |-> q[k][i].owner]],
   qmap |-> qm, pc |-> pcs, key |-> ks, cur |-> cr, ready |-> rd, cancelled |-> cn, stale |-> st,
   nextId |-> ni, calls |-> cl, wd |-> wds]

\* every explored transition as one JSON line (run with -workers 1)
ExportEdge ==
  PrintT(ToJson([from |-> StateRec(queue, qmap, pc, key, cur, ready, cancelled, stale, nextId, calls, wd),
                 act |-> last',
                 to |-> StateRec(queue', qmap', pc', key', cur', ready', cancelled', stale', nextId', calls', wd')]))

\* bound for the edge export (total API calls)
TotalCalls == LET S[P \in SUBSET Procs] == IF P = {} THEN 0 ELSE LET p == CHOOSE x \in P : TRUE IN calls[p] + S[P \ {p}] IN S[Procs]
Cap == TotalCalls <= MaxTotal

\* partial-order reduction by hand: WdExit touches only `wd`, which no other action reads, so it commutes with every
\* other step; let it happen as soon as it is enabled (without this the exhaustive runs are four times larger)
EagerWdExit == (\E id \in wd : id \notin Queued) => last'.a = "WdExit"

\* symmetry reduction for the export (the replayed paths lose nothing but renamings): processes make their
\* first call in the order p1, p2, ..., and the very first Lock is on k1
Rank(p) == CHOOSE i \in 1..Cardinality(Procs) : p = "p" \o ToString(i)
OrderedFirstCalls ==
  /\ (last'.a \in {"Enq", "Unlock"} /\ calls' # calls /\ calls'[last'.p] = 1) => \A q \in Procs : Rank(q) < Rank(last'.p) => calls[q] > 0
  /\ (last'.a = "Enq" /\ nextId = 0) => last'.k = "k1"
=============================================================================
