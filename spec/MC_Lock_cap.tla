---- MODULE MC_Lock_cap ----
EXTENDS MC_Lock
Cap == TotalCalls <= 4
====
