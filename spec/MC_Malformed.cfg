SPECIFICATION MCSpec
INVARIANTS CleanOutcome Alive CountersReturn CanStop
PROPERTIES NoSideEffect
CHECK_DEADLOCK FALSE
