SPECIFICATION MCSpec
INVARIANTS CleanOutcome Alive CountersReturn CanStop Usable
PROPERTIES NoSideEffect
CHECK_DEADLOCK FALSE
