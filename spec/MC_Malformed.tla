--------------------------- MODULE MC_Malformed ---------------------------
(***************************************************************************)
(* Model-checking / case-generation harness for Malformed.                 *)
(*  - RPC table: the JSON file written by `malformed rpcs` (read once from *)
(*    IOEnv.RPC_FILE), or a small built-in table when no file is given.    *)
(*  - PanicOK / Dead deviations: the committed (rpc, shape) pairs, passed  *)
(*    as a JSON list of [rpc, shape] pairs in IOEnv.PAIRS_FILE.            *)
(*  - GenCases prints every applicable case with the outcome classes the   *)
(*    strict design allows (one JSON object per line, run with workers=1). *)
(***************************************************************************)
EXTENDS Integers, Sequences, FiniteSets, TLC, Json, IOUtils

SeqRange(s) == {s[i] : i \in DOMAIN s}

BuiltIn ==
  { [name |-> "SetLike",    stream |-> FALSE, mut |-> TRUE,  feats |-> {"name", "key", "list", "sub", "enum", "int", "island"}],
    [name |-> "GetLike",    stream |-> FALSE, mut |-> FALSE, feats |-> {"name", "keys", "list", "island"}],
    [name |-> "StreamLike", stream |-> TRUE,  mut |-> FALSE, feats |-> {"name", "enum", "int", "from", "island"}],
    [name |-> "BulkLike",   stream |-> TRUE,  mut |-> TRUE,  feats |-> {"name", "list", "island"}],
    [name |-> "NoName",     stream |-> FALSE, mut |-> FALSE, feats |-> {"int"}],
    [name |-> "RegisterLike", stream |-> FALSE, mut |-> TRUE, feats |-> {"name", "pattern", "int", "enum"}] }

HasEnv(k) == k \in DOMAIN IOEnv /\ IOEnv[k] # ""

TableRpcs ==
  IF HasEnv("RPC_FILE")
    THEN LET t == JsonDeserialize(IOEnv.RPC_FILE)
         IN {[name |-> t[i].name, stream |-> t[i].stream, mut |-> t[i].mut, feats |-> SeqRange(t[i].feats)] : i \in DOMAIN t}
    ELSE BuiltIn

PairsOf(kind) ==
  IF HasEnv("PAIRS_FILE")
    THEN LET t == JsonDeserialize(IOEnv.PAIRS_FILE)
         IN {<<t[i].rpc, t[i].shape>> : i \in {j \in DOMAIN t : t[j].kind = kind}}
    ELSE {}
TablePanicOK == PairsOf("panic_ok")
TableDead == PairsOf("dead")
TableCreates ==
  IF HasEnv("PAIRS_FILE")
    THEN LET t == JsonDeserialize(IOEnv.PAIRS_FILE) IN {t[i].rpc : i \in {j \in DOMAIN t : t[j].kind = "creates"}}
    ELSE {}

AllShapes ==
  {"valid", "empty_req", "name_empty", "name_one", "name_two", "name_four", "name_slashes", "name_trailing", "name_wild",
   "name_nul", "name_long", "keys_empty", "keys_blank", "keys_huge", "keys_dup", "key_empty", "key_huge", "list_empty",
   "nil_sub", "enum_oob", "neg_ints", "max_ints", "min_ints", "neg_from", "huge_from", "island_zero", "island_huge"}

VARIABLES pc, cur, locked, vigils, store, out, alive, wedged

M == INSTANCE Malformed WITH Rpcs <- TableRpcs, Shapes <- AllShapes, Pres <- {"exists", "missing"},
                             PanicOK <- TablePanicOK, Dead <- TableDead, Creates <- TableCreates, Wedge <- PairsOf("wedge")

MCSpec == M!Spec
GenInit == M!Init
GenNext == UNCHANGED <<pc, cur, locked, vigils, store, out, alive, wedged>>
CleanOutcome == M!CleanOutcome
Alive == M!Alive
CountersReturn == M!CountersReturn
CanStop == M!CanStop
Usable == M!Usable
NoSideEffect == M!NoSideEffect

\* case generation: evaluated once as an ASSUME
GenCases(on) ==
  on => \A c \in M!Cases :
    PrintT(ToJson([rpc |-> c.rpc.name, shape |-> c.shape, pre |-> c.pre, allowed |-> M!Allowed(c),
                   maychange |-> M!MayChange(c, "answer"), stream |-> c.rpc.stream]))
ASSUME GenCases("GEN" \in DOMAIN IOEnv /\ IOEnv.GEN = "1")
=============================================================================
