\* case generation only: one state, the cases are printed by the ASSUME (env GEN=1)
INIT GenInit
NEXT GenNext
CHECK_DEADLOCK FALSE
