SPECIFICATION Spec
CONSTANTS
  Keys = {1, 2, 3}
  Vals = {1, 2}
  ChunkCap = 2
  Dev = {}
  MaxOps = 8
  StaleTargets <- MCStaleTargets
CONSTRAINT Bounded
VIEW view
INVARIANTS Preserves LegacyIntactOnFailure NoEarlyDelete
CHECK_DEADLOCK FALSE
