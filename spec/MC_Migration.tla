---------------------------- MODULE MC_Migration ----------------------------
EXTENDS Migration
\* what may lie at the target path: nothing, a readable leftover holding an old record of key 1, or a torn one
Ghost == [k \in Keys |-> IF k = 1 THEN <<2, 0>> ELSE Absent]
MCStaleTargets == {NoV2, [ex |-> TRUE, recs |-> Ghost, name |-> 1, bad |-> FALSE], [ex |-> TRUE, recs |-> Ghost, name |-> 1, bad |-> TRUE]}
=============================================================================
