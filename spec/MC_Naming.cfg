\* strict design: every C20 property holds for every supported configuration
SPECIFICATION MCSpec
CONSTANTS
  Dev = {}
  Queries = {}
  MaxOps = 2
  Depths = {1,2,3,4,5,6,7,8,9,10}
  Fpls = {2, 16, 256, 1000, 4096, 65536}
  TableIds = {1,2,3,4}
INVARIANTS InRange Consistent Total Injective RouteOwns LevelsFromHash
CHECK_DEADLOCK FALSE
