---------------------------- MODULE MC_Naming ----------------------------
(***************************************************************************)
(* Exhaustive configuration space for Naming: one or two hash values per   *)
(* class of leading zero hex digits (0..15, and the all-zero hash), folder *)
(* depth Depths (1..10), folders per level Fpls ({2,16,256,1000,4096,      *)
(* 65536}), island counts {1,7,1000,65535} with 1..3 server ranges (one    *)
(* table has a gap).                                                       *)
(* Two queries per behaviour, the second for the same configuration, so    *)
(* every PAIR of hash values meets in one location map.                    *)
(***************************************************************************)
EXTENDS Naming

Zeros(k) == [i \in 1..k |-> 0]
Up(k)    == [i \in 1..(16 - k) |-> ((i - 1) % 15) + 1]
Down(k)  == [i \in 1..(16 - k) |-> 15 - ((i - 1) % 15)]
\* <<class, variant>> names a hash; its digits:
HashOf(c, v) == IF c = 16 THEN Zeros(16) ELSE Zeros(c) \o (IF v = 1 THEN Up(c) ELSE Down(c))
Hashes == {<<c, v>> : c \in 0..15, v \in 1..2} \cup {<<16, 1>>}

CONSTANTS Depths,     \* 1..10
          Fpls,       \* {2, 16, 256, 1000, 4096, 65536}
          TableIds    \* subset of 1..4
AllTables == << [N |-> 1,     ranges |-> << <<1, 1>> >>],
            [N |-> 7,     ranges |-> << <<1, 3>>, <<4, 7>> >>],
            [N |-> 1000,  ranges |-> << <<1, 500>>, <<501, 900>> >>],
            [N |-> 65535, ranges |-> << <<1, 20000>>, <<20001, 40000>>, <<40001, 65535>> >>] >>
Tables == {AllTables[i] : i \in TableIds}

Q(h, t, d, f) ==
  [canon |-> ToString(h), valid |-> 1, hc |-> HashOf(h[1], 3 - h[2]), hp |-> HashOf(h[1], h[2]),
   N |-> t.N, ranges |-> t.ranges, depth |-> d, fpl |-> f]

\* the first query picks the configuration, the second one keeps it
First  == cfg = <<>> /\ \E h \in Hashes, t \in Tables, d \in Depths, f \in Fpls : Address(Q(h, t, d, f))
Second == cfg # <<>> /\ \E h \in Hashes : Address(Q(h, [N |-> cfg[1], ranges |-> cfg[2]], cfg[3], cfg[4]))
MCNext == ops < MaxOps /\ (First \/ Second)
MCSpec == Init /\ [][MCNext]_vars
=============================================================================
