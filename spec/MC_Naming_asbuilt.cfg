\* as-built: slices may start beyond the hex string, TLC must find a witness against Total
SPECIFICATION MCSpec
CONSTANTS
  Dev = {"SliceBeyondHash"}
  Queries = {}
  MaxOps = 2
  Depths = {1,2,3,4,5,6,7,8,9,10}
  Fpls = {2, 16, 256, 1000, 4096, 65536}
  TableIds = {1,2,3,4}
INVARIANTS InRange Consistent Total Injective RouteOwns LevelsFromHash
CHECK_DEADLOCK FALSE
