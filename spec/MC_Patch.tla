----------------------------- MODULE MC_Patch -----------------------------
(***************************************************************************)
(* Model-checking harness for Patch.                                       *)
(*                                                                         *)
(* A patch is a small state machine: evaluate the condition, then apply    *)
(* the ops one at a time; the first failing op rolls the document back     *)
(* (per-key atomicity).  TLC runs that machine for every selected case of  *)
(* PatchCases (one initial state per case) under the switches Dev and      *)
(* checks the C13 properties as invariants.  With Dev \cap Deviations = {} *)
(* all of them must hold; with a deviation switched on TLC must find the   *)
(* violation (non-vacuity of the invariants and of the deviation).         *)
(***************************************************************************)
EXTENDS PatchCases

VARIABLES cf, cb, ci, cj,   \* the case
          doc,          \* current document
          pc,           \* 0: condition not evaluated yet; k >= 1: op k is next
          st            \* "run" | "ok" | "cnm" | "fail"
vars == <<cf, cb, ci, cj, doc, pc, st>>

Body == BodyOf(cf, cb, ci)
Ops  == OpsOf(cf, ci, cj)
Cond == CondOf(cf, ci)

Init == \E fam \in SelFams : \E b \in 1..NB(fam) : \E i \in 1..NI(fam) : \E j \in 1..NJ(fam) :
          /\ Selected(fam, b, i, j)
          /\ cf = fam /\ cb = b /\ ci = i /\ cj = j /\ doc = BodyOf(fam, b, i) /\ pc = 0 /\ st = "run"

StepCond ==
  /\ st = "run" /\ pc = 0
  /\ LET c == EvalCond(Dev, doc, Cond) IN
     st' = IF c.r = "err" THEN "fail" ELSE IF c.r = "notmet" THEN "cnm"
           ELSE IF Len(Ops) = 0 THEN "ok" ELSE "run"
  /\ pc' = 1 /\ UNCHANGED <<cf, cb, ci, cj, doc>>

StepOp ==
  /\ st = "run" /\ pc >= 1 /\ pc <= Len(Ops)
  /\ LET r == ApplyOp(Dev, doc, Ops[pc]) IN
     IF r.ok THEN /\ doc' = r.d /\ pc' = pc + 1 /\ st' = IF pc = Len(Ops) THEN "ok" ELSE "run"
             ELSE /\ doc' = Body /\ pc' = pc /\ st' = "fail"      \* all commit or none do
  /\ UNCHANGED <<cf, cb, ci, cj>>

Next == StepCond \/ StepOp
Spec == Init /\ [][Next]_vars

Done == st \in {"ok", "cnm", "fail"}

-----------------------------------------------------------------------------
(* invariants *)

\* the step machine and the function ApplyS agree (the op list is a fold)
InvAgreesWithApply ==
  Done => LET r == ApplyS(Dev, Body, Ops, Cond) IN r.st = st /\ r.d = doc

InvSuccessWellFormed == st = "ok" => WellFormed(doc)
InvFailureLeavesBody == st \in {"cnm", "fail"} => doc = Body
InvNaNUnordered      == Done => NaNUnordered(Dev, Body, Ops, Cond)
InvIncKeepsCode      == Done => IncKeepsCode(Dev, Body, Ops, Cond)
InvUntouched         == Done => UntouchedIdentical(Dev, Body, Ops, Cond)

\* a body written by patch [o1] and then patched by [o2] equals the body patched by [o1, o2]:
\* later ops see what earlier ops of the same patch wrote ("ops execute in declaration order")
RECURSIVE Stored(_)
Stored(d) == CASE d.k = "M" -> [d EXCEPT !.q = 0, !.f = [i \in DOMAIN d.f |-> Fld(d.f[i].n, Stored(d.f[i].d))]]
               [] d.k = "A" -> [d EXCEPT !.q = 0, !.e = [i \in DOMAIN d.e |-> Stored(d.e[i])]]
               [] OTHER -> d
InvSequential ==
  (Done /\ Len(Ops) = 2 /\ Cond.op = "NONE") =>
     LET r1  == ApplyS(Dev, Body, <<Ops[1]>>, NoCond)
         r12 == ApplyS(Dev, Body, Ops, NoCond) IN
     (r1.st = "ok" /\ WellFormed(r1.d)) =>
        LET r2 == ApplyS(Dev, Stored(r1.d), <<Ops[2]>>, NoCond) IN
        /\ r12.st = r2.st
        /\ (r2.st = "ok" => Stored(r12.d) = Stored(r2.d))

\* REMOVE_VAL removes the first element whose encoded bytes equal the value
NEq(a, v) == Cardinality({i \in DOMAIN a.e : SameBytes(a.e[i], v)})
InvRemoveValRemoves ==
  (Done /\ Len(Ops) = 1 /\ Ops[1].k = "REMOVE_VAL" /\ PathOK(Ops[1].p) /\ ~IsX(Ops[1].v) /\ st = "ok") =>
     LET rs == Resolve({}, Body, Ops[1].p.s) IN
     (rs.st = "found" /\ Get(Body, rs.loc).k = "A") =>
        LET a0 == Get(Body, rs.loc)  a1 == Get(doc, rs.loc) IN
        NEq(a1, Ops[1].v) = IF NEq(a0, Ops[1].v) = 0 THEN 0 ELSE NEq(a0, Ops[1].v) - 1

\* "[]" is valid only as the final segment of an APPEND / PREPEND path
InvMarkerOnlyAppend ==
  st = "ok" =>
     \A k \in DOMAIN Ops : PathOK(Ops[k].p) =>
        /\ MarkerOK(Ops[k].p)
        /\ (Last(Ops[k].p.s).t = "p" => Ops[k].k \in {"APPEND", "PREPEND"})
=============================================================================
