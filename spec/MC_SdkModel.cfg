\* strict design: every accepted model round-trips; tag names do not interfere
SPECIFICATION Spec
CONSTANTS
  Dev = {}
  Models <- MCModels
INVARIANTS RoundTrip StepsAreOutcome OneContent TagIsolation
CHECK_DEADLOCK FALSE
