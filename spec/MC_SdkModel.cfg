SPECIFICATION Spec
CONSTANTS
  Dev = {}
INVARIANTS RoundTrip StepsAreOutcome OneContent TagIsolation RecordsIndependent
CHECK_DEADLOCK FALSE
