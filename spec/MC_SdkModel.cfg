SPECIFICATION Spec
CONSTANTS
  Dev = {}
INVARIANTS RoundTrip StepsAreOutcome OneContent TagIsolation
CHECK_DEADLOCK FALSE
