---------------------------- MODULE MC_SdkModel ----------------------------
(***************************************************************************)
(* Model space for SdkModel: catalog models of <= 4 fields (the key field  *)
(* plus <= 3 others with distinct tag heads) and profile models of <= 3    *)
(* fields.  Tag heads: the reserved words, names CONTAINING a reserved     *)
(* word (keywords, monkey, values, createdAtX, updatedByWho) and neutral   *)
(* names.  One and two extra fields: every order, every omitempty flag,    *)
(* zero / non-zero value per field.  Three extra fields: MAXK3 = 1 adds    *)
(* every combination in declaration order and reversed, omitempty all off  *)
(* / all on, every zero / non-zero valuation.                              *)
(***************************************************************************)
EXTENDS SdkModel, IOUtils

Opt(h, t) == [head |-> h, ty |-> t]
ReservedOpts == {Opt("value", "S"), Opt("value", "I"), Opt("value", "L"), Opt("value", "T"), Opt("expireAt", "T"), Opt("createdAt", "T"),
                 Opt("createdBy", "S"), Opt("updatedAt", "T"), Opt("updatedBy", "S")}
SubOpts      == {Opt("keywords", "S"), Opt("keywords", "L"), Opt("monkey", "S"), Opt("values", "S"), Opt("values", "I"),
                 Opt("values", "L"), Opt("createdAtX", "T"), Opt("createdAtX", "S"), Opt("updatedByWho", "S")}
NeutralOpts  == {Opt("name", "S"), Opt("count", "I"), Opt("tags", "L"), Opt("when", "T")}
Opts == ReservedOpts \cup SubOpts \cup NeutralOpts

KeyField == [head |-> "key", om |-> 0, ty |-> "S", val |-> "k"]
Tok(i) == "v" \o ToString(i)
\* field at position i (1-based in the whole model) built from an option
Fld(o, i, om, nz) == [head |-> o.head, om |-> om, ty |-> o.ty, val |-> IF nz = 1 THEN Tok(i) ELSE "z"]

Bits == {0, 1}
Extra1 == {<<Fld(a, 2, oa, na)>> : a \in Opts, oa \in Bits, na \in Bits}
Extra2 == {<<Fld(a, 2, oa, na), Fld(b, 3, ob, nb)>> :
             a \in Opts, b \in Opts, oa \in Bits, ob \in Bits, na \in Bits, nb \in Bits}
Triples(unused) == {t \in {{a, b, c} : a \in Opts, b \in Opts, c \in Opts} : Cardinality({o.head : o \in t}) = 3}
\* the two orders of a triple: any fixed enumeration of it and its reverse
Seq3(t) == LET a == CHOOSE x \in t : TRUE
               b == CHOOSE x \in t \ {a} : TRUE
               c == CHOOSE x \in t \ {a, b} : TRUE
           IN {<<a, b, c>>, <<c, b, a>>}
\* (an operator with a parameter, so that TLC does not evaluate it when it is not used)
Extra3(unused) == UNION {{<<Fld(s[1], 2, om, n1), Fld(s[2], 3, om, n2), Fld(s[3], 4, om, n3)>> :
                    s \in Seq3(t), om \in Bits, n1 \in Bits, n2 \in Bits, n3 \in Bits} : t \in Triples(0)}

WithK3 == "MAXK3" \in DOMAIN IOEnv /\ IOEnv.MAXK3 = "1"
CatalogModels ==
  {m \in {<<KeyField>> \o e : e \in {<<>>} \cup Extra1 \cup Extra2 \cup (IF WithK3 THEN Extra3(0) ELSE {})} : AcceptedCatalog(m)}

\* profile models: any tag head is just a name there
ProfOpts == {Opt("key", "S"), Opt("value", "I"), Opt("keywords", "L"), Opt("createdAt", "T"), Opt("name", "S"), Opt("when", "T")}
Prof1 == {<<Fld(a, 1, oa, na)>> : a \in ProfOpts, oa \in Bits, na \in Bits}
Prof2 == {<<Fld(a, 1, oa, na), Fld(b, 2, ob, nb)>> :
            a \in ProfOpts, b \in ProfOpts, oa \in Bits, ob \in Bits, na \in Bits, nb \in Bits}
ProfileModels == Prof1 \cup {p \in Prof2 : p[1].head # p[2].head}

MCModels == {<<"catalog", m>> : m \in CatalogModels} \cup {<<"profile", m>> : m \in ProfileModels}

\* a small part of the space that holds a witness for every named deviation (as-built runs)
WitnessModels == {km \in MCModels : Heads(km[2]) \subseteq {"key", "name", "values", "keywords", "tags"}}

Spec == InitWith(MCModels) /\ [][Next]_vars
WitnessSpec == InitWith(WitnessModels) /\ [][Next]_vars

OtherNames == {"zeta", "values", "createdAtX"}
TagIsolation == stage = "model" => TagIsolationFor(mdl[1], mdl[2], OtherNames)
\* a second record under a key that differs only by white space / case neither collides nor changes
RecordsIndependent == (stage = "model" /\ mdl[1] = "catalog") => RecordsIndependentFor(mdl[2])
=============================================================================
