SPECIFICATION WitnessSpec
CONSTANTS
  Dev = {"SubstringTags", "NilBodyField"}
INVARIANTS RoundTrip StepsAreOutcome OneContent TagIsolation RecordsIndependent
CHECK_DEADLOCK FALSE
