SPECIFICATION WitnessSpec
CONSTANTS
  Dev = {"SubstringTags", "NilBodyField"}
INVARIANTS RoundTrip StepsAreOutcome OneContent TagIsolation
CHECK_DEADLOCK FALSE
