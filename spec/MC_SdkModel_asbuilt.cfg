\* as-built: substring tag matching + nil body fields, TLC must find a witness
SPECIFICATION Spec
CONSTANTS
  Dev = {"SubstringTags", "NilBodyField"}
  Models <- MCModels
INVARIANTS RoundTrip StepsAreOutcome OneContent TagIsolation
CHECK_DEADLOCK FALSE
