\* strict design: sanctuary a, parts x/y (9 patterns, 4 names), <= 5 calls
SPECIFICATION Spec
CONSTANTS
  Sancts = {"a"}
  Parts = {"x", "y"}
  SetIds <- MCSetIds
  MaxOps = 5
  Dev = {}
CONSTRAINT Bounded
INVARIANTS Functional MostSpecific Persisted
