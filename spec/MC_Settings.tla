--------------------------- MODULE MC_Settings ---------------------------
EXTENDS Settings
\* Model-checking harness for Settings: two settings values (one persistent, one in-memory).
MCSetIds == {<<0, 11, 21, 1001>>, <<1, 12, 0, 0>>}
=============================================================================
