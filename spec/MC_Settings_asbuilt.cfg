\* as-built: map-order lookup, TLC must find a witness
SPECIFICATION Spec
CONSTANTS
  Sancts = {"a"}
  Parts = {"x", "y"}
  SetIds <- MCSetIds
  MaxOps = 5
  Dev = {"MapOrderLookup"}
CONSTRAINT Bounded
INVARIANTS Functional MostSpecific Persisted
