---------------------------- MODULE MC_Summon ----------------------------
EXTENDS Summon, Json, Sequences
\* Model-checking harness for Summon: edge export for the replay driver.

StateRec(a, b, c, d, e, f, g, h, i, j, k, l, m, n, o) ==
  [pc |-> a, w |-> b, seen |-> c, ret |-> d, ctxc |-> e, calls |-> f, slotmap |-> g, nobj |-> h,
   ready |-> i, count |-> j, mu |-> k, parked |-> l, smap |-> m, ninst |-> n, ist |-> o]

LiveIn(st) == {x \in Insts : st[x] \in {"open", "closing"}}

\* every explored transition as one JSON line (run with -workers 1)
ExportEdge ==
  PrintT(ToJson([from |-> StateRec(pc, w, seen, ret, ctxc, calls, slotmap, nobj, ready, count, mu, parked, smap, ninst, ist),
                 act |-> last',
                 to |-> StateRec(pc', w', seen', ret', ctxc', calls', slotmap', nobj', ready', count', mu', parked', smap', ninst', ist'),
                 twolive |-> (Cardinality(LiveIn(ist')) > 1)]))
\* symmetry reduction for the export: summoners make their first call in the order s1, s2, ...
Rank(p) == CHOOSE i \in 1..Cardinality(Procs) : p = "s" \o ToString(i)
OrderedStarts == (last'.a = "Start" /\ calls'[last'.p] = 1) => \A q \in Procs : Rank(q) < Rank(last'.p) => calls[q] > 0
=============================================================================
