---------------------------- MODULE MC_SwampKV ----------------------------
(***************************************************************************)
(* Model-checking harness for SwampKV: small request alphabets (one per    *)
(* RPC family plus a mixed one), the properties of C06 / C05 / C30 stated  *)
(* over the design, and the export of the alphabets for the conformance    *)
(* driver (the same requests are replayed on the real Gateway).            *)
(***************************************************************************)
EXTENDS SwampKV, Json

CONSTANTS Family,   \* which alphabet: "set" "del" "inc" "u32" "mixed" "reload" "expiry", or "c06" = each of the five C06 families
          MaxOps

VARIABLE fam        \* the family this behaviour draws its requests from

Strict == INSTANCE SwampKV WITH Dev <- {}
Keys4 == <<"k1", "k2", "k3", "k4">>

-----------------------------------------------------------------------------
(* request constructors (same shape as the driver's abstract requests) *)

It(k, t, v) == [k |-> k, t |-> t, v |-> v, u |-> <<>>, ca |-> 0, cb |-> 0, ua |-> 0, ub |-> 0, ea |-> 0]
ItU(k, u) == [It(k, "u32s", 0) EXCEPT !.u = u]
ItM(k, t, v, ca, cb, ea) == [It(k, t, v) EXCEPT !.ca = ca, !.cb = cb, !.ea = ea]
SetQ(c, o, items) == [op |-> "Set", create |-> c, over |-> o, items |-> items]
Upsert(items) == SetQ(TRUE, TRUE, items)
KeysQ(op, ks) == [op |-> op, keys |-> ks]
KeyQ(op, k) == [op |-> op, k |-> k]
Plain(op) == [op |-> op]
NoCond == [op |-> "none", v |-> 0]
Cnd(o, v) == [op |-> o, v |-> v]
NoMeta == [on |-> FALSE, ca |-> FALSE, cb |-> 0, ua |-> FALSE, ub |-> 0, ea |-> 0]
Mt(ca, cb, ua, ub, ea) == [on |-> TRUE, ca |-> ca, cb |-> cb, ua |-> ua, ub |-> ub, ea |-> ea]
IncQ(t, k, by, cond, mn, mx) == [op |-> "Inc", t |-> t, k |-> k, by |-> by, cond |-> cond, mn |-> mn, mx |-> mx]
Pr(k, u) == [k |-> k, u |-> u]
PushQ(ps) == [op |-> "U32Push", pairs |-> ps]
DelQ(ps) == [op |-> "U32Delete", pairs |-> ps]
HasQ(k, x) == [op |-> "U32Has", k |-> k, x |-> x]
ShiftExpQ(n) == [op |-> "ShiftExpired", n |-> n]
ByExpQ(ord) == [op |-> "GetByIndex", idx |-> "exp", ord |-> ord]
ReloadQ(how) == [op |-> "CloseReload", how |-> how]
PatchMetaQ(k, ea, clear, ub) == [op |-> "PatchMeta", k |-> k, ea |-> ea, create |-> clear, x |-> ub]
PatchExpQ(n, ea, clear, ub) == [op |-> "PatchExpired", n |-> n, ea |-> ea, create |-> clear, x |-> ub]
FilterQ(fop, ea) == [op |-> "FilterExp", fop |-> fop, ea |-> ea]

Probes == {Plain("GetAll"), Plain("Count"), Plain("IsSwampExist")}

ASet ==
  {SetQ(c, o, <<It("k1", "str", 1)>>) : c, o \in BOOLEAN}
  \cup {Upsert(<<It("k1", "str", 2)>>), Upsert(<<It("k1", "void", 0)>>), Upsert(<<It("k1", "none", 0)>>),
        Upsert(<<It("k1", "i8", 0)>>), Upsert(<<ItM("k1", "str", 1, 2, 1, 12)>>), Upsert(<<ItM("k1", "str", 1, 0, 0, 13)>>),
        SetQ(TRUE, FALSE, <<It("k1", "str", 2), It("k2", "bool", 1)>>),
        SetQ(FALSE, TRUE, <<It("k2", "bool", 0), It("k1", "bytes", 1)>>),
        KeysQ("Get", <<"k1", "k2">>), KeysQ("Delete", <<"k1">>), Plain("Destroy")}
  \cup Probes

ADel ==
  {Upsert(<<It("k1", "i8", 5), It("k2", "str", 0)>>), Upsert(<<It("k2", "f64", 2)>>), Upsert(<<ItM("k3", "bytes", 0, 1, 2, 11)>>),
   KeysQ("Delete", <<"k1">>), KeysQ("Delete", <<"k2", "k1">>), KeysQ("Delete", <<"k1", "k2", "k3">>), KeysQ("Delete", <<"k9">>),
   KeysQ("ShiftByKeys", <<"k1">>), KeysQ("ShiftByKeys", <<"k3", "k2", "k9">>),
   KeysQ("GetByKeys", <<"k2", "k1", "k9">>), KeysQ("AreKeysExist", <<"k1", "k2", "k9">>), KeyQ("IsKeyExist", "k1"),
   KeysQ("Get", <<"k2", "k3">>), Plain("Destroy")}
  \cup Probes

AInc ==
  {IncQ("i8", "k1", 1, NoCond, NoMeta, NoMeta), IncQ("i8", "k1", -2, NoCond, NoMeta, NoMeta),
   IncQ("i8", "k1", 3, Cnd("gt", 0), NoMeta, NoMeta), IncQ("i8", "k1", 1, Cnd("eq", 0), Mt(TRUE, 1, FALSE, 0, 12), Mt(FALSE, 0, TRUE, 2, 0)),
   IncQ("i8", "k1", 1, Cnd("lt", 0), Mt(FALSE, 1, FALSE, 0, 12), Mt(FALSE, 0, TRUE, 2, 13)),
   IncQ("u16", "k1", 2, Cnd("ge", 2), NoMeta, NoMeta), IncQ("f64", "k2", 1, Cnd("ne", 0), NoMeta, Mt(FALSE, 0, FALSE, 1, 0)),
   IncQ("f64", "k2", 1, Cnd("le", 3), NoMeta, NoMeta),
   Upsert(<<It("k1", "void", 0)>>), Upsert(<<It("k1", "i8", 5)>>), Upsert(<<It("k1", "str", 1)>>),
   KeysQ("Get", <<"k1", "k2">>), KeysQ("Delete", <<"k1">>), KeyQ("IsKeyExist", "k1")}
  \cup Probes

AU32 ==
  {PushQ(<<Pr("k1", <<1>>)>>), PushQ(<<Pr("k1", <<2, 1, 2>>)>>), PushQ(<<Pr("k1", <<>>)>>), PushQ(<<Pr("k2", <<3>>), Pr("k1", <<3>>)>>),
   DelQ(<<Pr("k1", <<1>>)>>), DelQ(<<Pr("k1", <<1, 2, 3>>)>>), DelQ(<<Pr("k2", <<3>>), Pr("k1", <<2>>)>>), DelQ(<<Pr("k1", <<9>>)>>),
   KeyQ("U32Size", "k1"), HasQ("k1", 1), HasQ("k2", 3),
   Upsert(<<ItU("k1", <<2, 3>>)>>), Upsert(<<It("k1", "str", 1)>>), Upsert(<<It("k1", "void", 0)>>),
   KeysQ("Get", <<"k1", "k2">>), KeysQ("ShiftByKeys", <<"k1">>)}
  \cup Probes

AMixed ==
  {Upsert(<<It("k1", "str", 1)>>), Upsert(<<It("k1", "void", 0)>>), SetQ(FALSE, TRUE, <<It("k1", "i8", 2)>>), Upsert(<<ItU("k2", <<1>>)>>),
   IncQ("i8", "k1", 1, NoCond, NoMeta, NoMeta), IncQ("i8", "k1", 1, Cnd("gt", 1), Mt(FALSE, 1, FALSE, 0, 0), NoMeta),
   PushQ(<<Pr("k1", <<1>>)>>), DelQ(<<Pr("k1", <<1>>)>>), DelQ(<<Pr("k2", <<1>>)>>), KeyQ("U32Size", "k1"),
   KeysQ("Delete", <<"k1">>), KeysQ("ShiftByKeys", <<"k2", "k1">>), KeysQ("Get", <<"k1", "k2">>), Plain("Destroy")}
  \cup Probes

\* C05: every content type with a zero-like and a non-zero value, metadata, then close + reload + reads
ZeroAndNot ==
  {Upsert(<<It("k1", t, v)>>) : t \in ScalarTypes, v \in {0, 1}}
  \cup {Upsert(<<ItU("k1", <<4, 2>>)>>), PushQ(<<Pr("k1", <<>>)>>), Upsert(<<It("k1", "void", 0)>>)}
AReload ==
  ZeroAndNot
  \cup {Upsert(<<ItM("k2", "str", 0, 1, 1, 12)>>), Upsert(<<ItM("k2", "i64", 7, 2, 2, 3)>>),
        IncQ("i8", "k1", 1, NoCond, Mt(TRUE, 1, FALSE, 0, 12), NoMeta), IncQ("i8", "k1", -1, NoCond, NoMeta, NoMeta),
        IncQ("i8", "k1", 1, Cnd("gt", 50), NoMeta, Mt(FALSE, 0, TRUE, 2, 13)),
        DelQ(<<Pr("k1", <<4>>)>>), KeysQ("Delete", <<"k2">>), KeysQ("Delete", <<"k1">>),
        ReloadQ("idle"), KeysQ("Get", <<"k1", "k2">>), Plain("GetAll"), ByExpQ("asc")}

\* C30: set / slide / clear expiry (past, future, pre-epoch through increment metadata), every expiry-aware read
AExpiry ==
  {Upsert(<<ItM("k1", "bytes", 5, 0, 0, 2)>>), Upsert(<<ItM("k2", "bytes", 5, 0, 0, 3)>>), Upsert(<<ItM("k1", "bytes", 5, 0, 0, 12)>>),
   Upsert(<<ItM("k3", "i8", 1, 0, 0, 1)>>), Upsert(<<It("k2", "bytes", 5)>>), Upsert(<<It("k4", "bytes", 5)>>),
   Upsert(<<ItM("k3", "i8", 1, 0, 0, -2)>>),
   IncQ("i8", "k3", 1, NoCond, Mt(FALSE, 0, FALSE, 0, 1), Mt(FALSE, 0, FALSE, 0, 13)),
   IncQ("i8", "k3", 1, Cnd("gt", 50), NoMeta, Mt(FALSE, 0, FALSE, 0, 2)),
   PatchMetaQ("k1", 13, FALSE, 0), PatchMetaQ("k2", 1, FALSE, 2), PatchMetaQ("k1", 0, TRUE, 0), PatchMetaQ("k4", -1, FALSE, 0),
   PatchMetaQ("k3", 2, FALSE, 0),
   PatchExpQ(0, 14, FALSE, 1), PatchExpQ(1, 0, TRUE, 0), PatchExpQ(0, 4, FALSE, 0),
   ShiftExpQ(0), ShiftExpQ(1), ByExpQ("asc"), ByExpQ("desc"), KeysQ("Get", <<"k1", "k2", "k3", "k4">>),
   FilterQ("lt", 10), FilterQ("ge", 10), FilterQ("empty", 10), FilterQ("notempty", 10), FilterQ("le", 2),
   ReloadQ("idle")}
  \cup Probes

\* C05: delete / re-create / delete of a filed key between two flushes
AResurrect == {Upsert(<<It("k1", "str", 1)>>), Upsert(<<ItM("k2", "i64", 7, 2, 2, 3)>>), KeysQ("Delete", <<"k1">>),
               ReloadQ("idle"), KeysQ("Get", <<"k1", "k2">>)}

Alphabet(f) ==
  CASE f = "resurrect" -> AResurrect [] f = "set" -> ASet [] f = "del" -> ADel [] f = "inc" -> AInc [] f = "u32" -> AU32
    [] f = "mixed" -> AMixed [] f = "reload" -> AReload [] f = "expiry" -> AExpiry

\* small cores of the alphabets: ALL histories of length 4 over them are replayed on the real Gateway
Core(f) ==
  CASE f = "set" -> {SetQ(TRUE, TRUE, <<It("k1", "str", 1)>>), SetQ(FALSE, TRUE, <<It("k1", "str", 1)>>), SetQ(TRUE, FALSE, <<It("k1", "str", 1)>>),
                     Upsert(<<It("k1", "void", 0)>>), Upsert(<<ItM("k1", "str", 1, 2, 1, 12)>>),
                     KeysQ("Get", <<"k1", "k2">>), KeysQ("Delete", <<"k1">>), Plain("IsSwampExist")}
    [] f = "del" -> {Upsert(<<It("k1", "i8", 5), It("k2", "str", 0)>>), Upsert(<<It("k2", "f64", 2)>>), KeysQ("Delete", <<"k2", "k1">>),
                     KeysQ("Delete", <<"k1">>), KeysQ("ShiftByKeys", <<"k3", "k2", "k9">>), KeysQ("AreKeysExist", <<"k1", "k2", "k9">>),
                     Plain("GetAll"), Plain("Count")}
    [] f = "inc" -> {IncQ("i8", "k1", 1, NoCond, NoMeta, NoMeta), IncQ("i8", "k1", 3, Cnd("gt", 0), NoMeta, NoMeta),
                     IncQ("i8", "k1", 1, Cnd("lt", 0), Mt(FALSE, 1, FALSE, 0, 12), Mt(FALSE, 0, TRUE, 2, 13)),
                     IncQ("u16", "k1", 2, Cnd("ge", 2), NoMeta, NoMeta), Upsert(<<It("k1", "void", 0)>>),
                     KeysQ("Get", <<"k1", "k2">>), KeysQ("Delete", <<"k1">>), Plain("Count")}
    [] f = "u32" -> {PushQ(<<Pr("k1", <<1>>)>>), PushQ(<<Pr("k1", <<2, 1, 2>>)>>), DelQ(<<Pr("k1", <<1>>)>>), DelQ(<<Pr("k1", <<1, 2, 3>>)>>),
                     KeyQ("U32Size", "k1"), Upsert(<<It("k1", "str", 1)>>), KeysQ("Get", <<"k1", "k2">>), Plain("IsSwampExist")}
    [] f = "mixed" -> {Upsert(<<It("k1", "str", 1)>>), Upsert(<<It("k1", "void", 0)>>), IncQ("i8", "k1", 1, Cnd("gt", 1), Mt(FALSE, 1, FALSE, 0, 0), NoMeta),
                       PushQ(<<Pr("k1", <<1>>)>>), DelQ(<<Pr("k1", <<1>>)>>), KeysQ("ShiftByKeys", <<"k2", "k1">>), KeysQ("Get", <<"k1", "k2">>), Plain("Count")}
    [] OTHER -> {}

Next == (\E q \in Alphabet(fam) : Call(q)) /\ UNCHANGED fam
Spec == (Init /\ fam \in (IF Family = "c06" THEN {"set", "del", "inc", "u32", "mixed"} ELSE {Family})) /\ [][Next]_<<vars, fam>>
Bounded == ops <= MaxOps
mcview == <<store, pend, open, disk, wq, dq, filed, xb, xk, mode, ops, last.ret, fam>>

\* export of the alphabets for the conformance driver (evaluated by the Gen config)
Families == {"set", "del", "inc", "u32", "mixed", "reload", "expiry", "resurrect"}
ExportAlphabets(dummy) == \A f \in Families : PrintT(ToJson([family |-> f, reqs |-> Alphabet(f), core |-> Core(f)]))

-----------------------------------------------------------------------------
(* state invariants *)

Data(f) == [k \in DOMAIN f |-> Clean(f[k])]

TypeOK == open \in BOOLEAN /\ mode \in {"mem", "p0", "pw"} /\ DOMAIN store \subseteq Range(KeyOrder)
Normalized == \A k \in DOMAIN store : Normal(store[k].c)
ExistsIffNonEmpty == open = ~IsEmpty(store)                 \* "a valid Swamp will always contain at least 1 Treasure"
NoPending == IsEmpty(pend)
NoStaleFlags == \A k \in DOMAIN store : ~store[k].dirty
\* C30: the expiration index always is the current view of the records
IndexFresh == Idx(State) = CurIdx(store)
\* C05: whatever is in memory is, or is queued to be, in the file
DiskFaithful == mode # "mem" => /\ \A k \in DOMAIN store : k \in wq \/ (Has(disk, k) /\ disk[k] = Clean(store[k]))
                                /\ \A k \in DOMAIN disk : Has(store, k) \/ k \in dq

-----------------------------------------------------------------------------
(* properties of every call (action formulas: they are evaluated on every transition) *)

Q == last'.q
R == last'.r
B == store
A == store'
Ok == last'.ret /\ R.err = ""

Want(it) == IF it.t \in ScalarTypes THEN CScalar(it.t, it.v)
            ELSE IF it.t = "u32s" /\ it.u # <<>> THEN CSlice(PushSeq(<<>>, it.u)) ELSE CVoid

\* C06 Returns: every call terminates
Returns == [][last'.ret]_vars

OneResponsePerSwamp == [][(Q.op = "Set" /\ Ok) => R.nsw = 1]_vars

\* statuses tell the truth about what happened to each key (keys of one request are distinct in the alphabets)
SetStatusTruth ==
  [][(Q.op = "Set" /\ Ok /\ R.sw = "") =>
       /\ Len(R.st) = Len(Q.items)
       /\ \A i \in DOMAIN Q.items :
            LET k == Q.items[i].k
                s == R.st[i]
            IN /\ s = "NEW" => (~Has(B, k) /\ Has(A, k))
               /\ s = "UPDATED" => (Has(B, k) /\ Has(A, k) /\ ~SameData(A[k], B[k]))
               /\ s = "NOTHING_CHANGED" => (Has(B, k) /\ Has(A, k) /\ SameData(A[k], B[k]))
               /\ s = "NOT_FOUND" => (~Has(B, k) /\ ~Has(A, k))
               /\ s \in {"NEW", "UPDATED", "NOTHING_CHANGED", "NOT_FOUND"}]_vars

\* a written key holds exactly the written value
SetWrites ==
  [][(Q.op = "Set" /\ Ok /\ R.sw = "") =>
       \A i \in DOMAIN Q.items :
          (R.st[i] \in {"NEW", "UPDATED"} \/ (R.st[i] = "NOTHING_CHANGED" /\ Q.over)) => A[Q.items[i].k].c = Want(Q.items[i])]_vars

SwampErrorsNoEffect == [][(Q.op = "Set" /\ Ok /\ R.sw # "") => (Data(A) = Data(B) /\ R.st = <<>>)]_vars

\* a condition-failed increment does not change a value and leaves nothing behind
FailedIncrement ==
  [][(Q.op = "Inc" /\ Ok /\ ~R.inc) =>
       /\ ~Has(B, Q.k) => ~Has(A, Q.k)
       /\ Has(B, Q.k) => (Has(A, Q.k) /\ A[Q.k].c = B[Q.k].c)
       /\ \A k \in DOMAIN B \ {Q.k} : Has(A, k) /\ A[k] = B[k]]_vars

GoodIncrement ==
  [][(Q.op = "Inc" /\ Ok /\ R.inc) =>
       /\ Has(A, Q.k) /\ A[Q.k].c = CScalar(Q.t, R.val)
       /\ R.val = (IF Has(B, Q.k) /\ B[Q.k].c.t = Q.t THEN B[Q.k].c.v ELSE 0) + Q.by]_vars

ReadOps == {"Get", "GetAll", "GetByKeys", "Count", "IsSwampExist", "IsKeyExist", "AreKeysExist", "U32Size", "U32Has", "GetByIndex", "FilterExp"}
ReadsArePure == [][Q.op \in ReadOps => (store' = store /\ pend' = pend /\ open' = open /\ disk' = disk /\ wq' = wq /\ dq' = dq /\ filed' = filed /\ xb' = xb /\ xk' = xk)]_vars

ErrorsNoEffect == [][(last'.ret /\ R.err # "" /\ Q.op \notin {"U32Push", "U32Delete"}) => Data(A) = Data(B)]_vars

CountIsSize == [][(Q.op = "Count" /\ Ok) => (R.n = Cardinality(DOMAIN B) /\ R.n >= 1 /\ R.sx)]_vars

\* keys disappear only through the calls that are documented to remove them
RemovalsAreLegal ==
  [][\A k \in DOMAIN B \ DOMAIN A :
        \/ Q.op \in {"Delete", "ShiftByKeys", "Destroy", "ShiftExpired"}
        \/ (Q.op = "U32Delete" /\ TypeOf(B[k].c) = "u32s")]_vars

SetSemantics ==
  [][(Q.op = "U32Push" /\ Ok) =>
       \A i \in DOMAIN Q.pairs : LET k == Q.pairs[i].k IN
          Has(A, k) /\ TypeOf(A[k].c) = "u32s" /\ \A x \in Range(Q.pairs[i].u) : SeqHas(A[k].c.u, x)]_vars

\* C05: close + reload is the identity on the records
CloseReloadIdentity == [][Q.op = "CloseReload" => Data(A) = Data(B)]_vars

\* C30: expired-shift hands out exactly expired records, oldest first, and never a record without expiry
ShiftExpiredSound ==
  [][(Q.op = "ShiftExpired" /\ Ok) =>
       /\ \A i \in DOMAIN R.tr : Has(B, R.tr[i].k) /\ Expired(B[R.tr[i].k], NOW) /\ ~Has(A, R.tr[i].k)
       /\ \A k \in DOMAIN B : (~Expired(B[k], NOW)) => Has(A, k)
       /\ (Q.n = 0) => \A k \in DOMAIN A : ~Expired(A[k], NOW)]_vars
\* every read shows the stored expiry
ExpiryVisible ==
  [][(Q.op = "Get" /\ Ok) => \A i \in DOMAIN R.tr : R.tr[i].x => R.tr[i].ea = B[R.tr[i].k].ea]_vars

\* every expiry-aware path agrees with Expired(): the claim takes exactly expired records, oldest first
PatchExpiredSound ==
  [][(Q.op = "PatchExpired" /\ Ok) =>
       /\ \A i \in DOMAIN R.pt : Has(B, R.pt[i].k) /\ Expired(B[R.pt[i].k], NOW)
       /\ \A i, j \in DOMAIN R.pt : i < j => B[R.pt[i].k].ea <= B[R.pt[j].k].ea
       /\ (Q.n = 0) => \A k \in DOMAIN B : Expired(B[k], NOW) => \E i \in DOMAIN R.pt : R.pt[i].k = k
       /\ \A k \in DOMAIN B : (~Expired(B[k], NOW)) => (Has(A, k) /\ SameData(A[k], B[k]))
       /\ DOMAIN A = DOMAIN B]_vars
\* the expiry filter and the expiry index see exactly the stored expiry
FilterAgrees ==
  [][(Q.op = "FilterExp" /\ Ok /\ Q.fop = "lt" /\ Q.ea = NOW) =>
       {R.tr[i].k : i \in DOMAIN R.tr} = {k \in DOMAIN B : Expired(B[k], NOW)}]_vars
IndexAgrees ==
  [][(Q.op = "GetByIndex" /\ Ok) =>
       /\ {R.tr[i].k : i \in DOMAIN R.tr} = {k \in DOMAIN B : B[k].ea # 0}
       /\ \A i \in DOMAIN R.tr : R.tr[i].ea = B[R.tr[i].k].ea]_vars
\* clearing the expiry through a patch makes the record never expire; sliding it moves it
PatchMetaEffect ==
  [][(Q.op = "PatchMeta" /\ Ok /\ R.st = <<"PATCHED">>) =>
       A[Q.k].ea = (IF Q.create THEN 0 ELSE IF Q.ea # 0 THEN Q.ea ELSE B[Q.k].ea)]_vars

\* the deviation bookkeeping is sound: an outcome the strict model does not allow always names a deviation
DvSound ==
  [][LET o == [S |-> State', r |-> R, ret |-> last'.ret]
     IN (Proj(o) \notin {Strict!Proj(x) : x \in Strict!Outs(Q, State)}) => last'.dv # {}]_vars

=============================================================================
