SPECIFICATION Spec
CONSTANTS
  Names = {1, 2, 3}
  Long = {3}
  Dev = {}
  MaxSteps = 6
CONSTRAINT Bounded
VIEW view
INVARIANTS NameAgrees ListingExact
