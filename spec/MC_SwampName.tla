--------------------------- MODULE MC_SwampName ---------------------------
EXTENDS SwampName, Json
\* every transition of the state graph as one JSON line (run with -workers 1): the driver replays one
\* path per transition on real files
FS(f) == [n \in Names |-> [ex |-> f[n].ex, ver |-> f[n].ver]]
ExportEdge == PrintT(ToJson([from |-> FS(files), act |-> last', to |-> FS(files')]))
=============================================================================
