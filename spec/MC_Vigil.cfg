\* strict design: 2 operations x 2 rounds, 2 waiters; safety, deadlock (= stuck) and liveness
SPECIFICATION Spec
CONSTANTS
  Ops = {"o1", "o2"}
  Waiters = {"w1", "w2"}
  MaxRounds = 2
  Dev = {}
INVARIANTS TypeOK CounterExact MutexOK NoStuck ParkedOnList ParkedNotNotified
PROPERTIES ReturnedOnZero WaitTerminates
