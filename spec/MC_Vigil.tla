---------------------------- MODULE MC_Vigil ----------------------------
EXTENDS Vigil, Json
\* Model-checking harness for Vigil: edge export for the replay driver.

StateRec(v, m, wt, nt, tk, pk, pcs, rd) ==
  [vigils |-> v, mu |-> m, wait |-> wt, notify |-> nt, ticket |-> tk, parked |-> pk, pc |-> pcs, rounds |-> rd]

StuckIn(pcs) ==
  /\ \A o \in Ops : pcs[o] = "idle"
  /\ \A w \in Waiters : pcs[w] \in {"idle", "done", "parked"}
  /\ \E w \in Waiters : pcs[w] = "parked"

\* every explored transition as one JSON line (run with -workers 1)
ExportEdge ==
  PrintT(ToJson([from |-> StateRec(vigils, mu, wait, notify, ticket, parked, pc, rounds),
                 act |-> last',
                 to |-> StateRec(vigils', mu', wait', notify', ticket', parked', pc', rounds'),
                 stuck |-> StuckIn(pc')]))

\* the code as built: CeaseVigil never takes the mutex (used to enumerate the as-built state graph)
OnlyDev == (last'.a = "CStart") => (last'.dev = "LostWakeup")

\* bound for graphs with unbounded rounds
Bounded == wait <= 6
=============================================================================
