\* as built: decrement + broadcast without the mutex; TLC must find the lost wake-up
SPECIFICATION Spec
CONSTANTS
  Ops = {"o1", "o2"}
  Waiters = {"w1", "w2"}
  MaxRounds = 2
  Dev = {"LostWakeup"}
INVARIANTS TypeOK CounterExact MutexOK NoStuck ParkedOnList ParkedNotNotified
PROPERTIES ReturnedOnZero WaitTerminates
