----------------------------- MODULE Malformed -----------------------------
(***************************************************************************)
(* C26 - malformed requests fail cleanly without side effects.             *)
(*                                                                         *)
(* A request case is <<rpc, shape, pre>>:                                  *)
(*   rpc    one RPC of HydraideService with the features the driver reads  *)
(*          from the protobuf descriptors (which fields a request has) and *)
(*          from a small table (mutating or not, unary or streaming)       *)
(*   shape  "valid" or one structural malformation of the request          *)
(*   pre    the target swamp exists with data ("exists") or not ("missing")*)
(* The handler skeleton every gateway RPC follows is modelled as a small   *)
(* process:  lock the system (unary RPCs)  ->  validate the swamp name     *)
(* (checkSwampName + name.Load)  ->  summon, begin vigil  ->  body  ->     *)
(* cease vigil  ->  unlock  ->  reply.  Outcomes the client can observe:   *)
(*   "error"     a non-OK gRPC status                                      *)
(*   "answer"    OK, and the handler built its response deliberately       *)
(*   "panic_ok"  OK, but the handler panicked and the recovery replied     *)
(*               with the zero response ("OK + empty")                     *)
(*   "dead"      the process died                                          *)
(* Strict design (Dev = {}): a name that is not sanctuary/realm/swamp is   *)
(* rejected with an error before anything is touched, nothing panics.      *)
(* Named deviations (what the code does today):                            *)
(*   PanicOK   set of <<rpc, shape>> pairs for which the handler panics    *)
(*             (name.Load indexes the split name; the recovery returns     *)
(*             (nil, nil)); the deferred unlock / cease-vigil still run    *)
(*   Dead      set of <<rpc, shape>> pairs for which the panic happens on  *)
(*             a goroutine without recovery                                *)
(*   Creates   read-only RPCs that validate the name without the existence *)
(*             check and summon the swamp: a missing swamp is created (and *)
(*             stays) although the request fails                           *)
(*                                                                         *)
(* CleanFailure (the property): the outcome is an error or an answer; on   *)
(* an error, and for every non-mutating RPC, the store is unchanged; after *)
(* the reply no system lock and no vigil is left, so the swamp can close   *)
(* and the server can stop; the process is alive.                          *)
(***************************************************************************)
EXTENDS Integers, Sequences, FiniteSets, TLC

CONSTANTS Rpcs,      \* set of records [name, stream, mut, feats]  (feats: set of feature names)
          Shapes,    \* set of shape names
          Pres,      \* {"exists", "missing"}
          PanicOK,   \* deviation: set of <<rpc name, shape>>
          Dead,      \* deviation: set of <<rpc name, shape>>
          Creates,   \* deviation: set of rpc names that summon (= create) a missing swamp before they fail
          Wedge      \* deviation: set of <<rpc name, shape>> after which the addressed swamp no longer serves requests

VARIABLES pc,        \* "idle" | "locked" | "named" | "body" | "unwound" | "replied" | "stopped"
          cur,       \* the case being served: [rpc, shape, pre]
          locked,    \* safeops system-lock counter
          vigils,    \* active vigils on the target swamp
          store,     \* "S0" (as seeded) or "S1" (changed)
          out,       \* outcome of the current request ("" while running)
          alive,
          wedged     \* the addressed swamp is left in a state in which ordinary requests to it do not return

vars == <<pc, cur, locked, vigils, store, out, alive, wedged>>

-----------------------------------------------------------------------------
(* which shape needs which request feature *)
Needs(shape) ==
  CASE shape \in {"name_empty", "name_one", "name_two", "name_four", "name_slashes", "name_trailing", "name_wild", "name_nul", "name_long"} -> "name"
    [] shape \in {"keys_empty", "keys_blank", "keys_huge", "keys_dup"} -> "keys"
    [] shape \in {"key_empty", "key_huge"} -> "key"
    [] shape = "list_empty" -> "list"
    [] shape = "nil_sub" -> "sub"
    [] shape = "enum_oob" -> "enum"
    [] shape \in {"neg_ints", "max_ints", "min_ints"} -> "int"
    [] shape \in {"neg_from", "huge_from"} -> "from"
    [] shape \in {"island_zero", "island_huge"} -> "island"
    [] OTHER -> ""          \* "valid", "empty_req"

Applicable(rpc, shape) == Needs(shape) = "" \/ Needs(shape) \in rpc.feats

\* the swamp name of the request is not of the form sanctuary/realm/swamp
NameClass(shape) ==
  CASE shape = "name_empty" -> "empty"
    [] shape \in {"name_one", "name_two"} -> "short"
    [] OTHER -> "ok"
\* an empty request has an empty name when the RPC has one
EffNameClass(rpc, shape) ==
  IF shape = "empty_req" /\ "name" \in rpc.feats THEN "empty" ELSE NameClass(shape)

Cases == {c \in [rpc : Rpcs, shape : Shapes, pre : Pres] : Applicable(c.rpc, c.shape)}

\* outcomes the strict design allows for a case, and whether the store may differ afterwards
Allowed(c) == {"error", "answer"}
MayChange(c, o) == c.rpc.mut /\ o = "answer"

-----------------------------------------------------------------------------
Init ==
  /\ pc = "idle" /\ cur = [rpc |-> CHOOSE r \in Rpcs : TRUE, shape |-> "valid", pre |-> "exists"]
  /\ locked = 0 /\ vigils = 0 /\ store = "S0" /\ out = "" /\ alive = TRUE /\ wedged = FALSE

Receive(c) ==
  /\ pc \in {"idle", "replied"} /\ alive
  /\ cur' = c /\ out' = ""
  /\ locked' = IF c.rpc.stream THEN locked ELSE locked + 1
  /\ pc' = "locked"
  /\ UNCHANGED <<vigils, store, alive, wedged>>

Pair == <<cur.rpc.name, cur.shape>>

\* checkSwampName / name.Load
ValidateName ==
  /\ pc = "locked"
  /\ LET nc == EffNameClass(cur.rpc, cur.shape) IN
     IF "name" \notin cur.rpc.feats \/ nc = "ok" THEN pc' = "named" /\ UNCHANGED <<out, alive>>
     ELSE IF Pair \in Dead THEN alive' = FALSE /\ out' = "dead" /\ pc' = "replied"
     ELSE IF Pair \in PanicOK THEN out' = "panic_ok" /\ pc' = "unwound" /\ UNCHANGED alive
     ELSE out' = "error" /\ pc' = "unwound" /\ UNCHANGED alive
  /\ UNCHANGED <<cur, locked, vigils, store, wedged>>

Summon ==
  /\ pc = "named"
  /\ vigils' = vigils + 1 /\ pc' = "body"
  /\ UNCHANGED <<cur, locked, store, out, alive, wedged>>

\* the body answers or rejects; a listed pair panics somewhere in it (the deferred cease-vigil still runs);
\* a panic in the middle of a mutating body may leave a partial write behind
Body ==
  /\ pc = "body"
  /\ \/ /\ Pair \notin PanicOK /\ Pair \notin Dead
        /\ \E o \in {"error", "answer"} :
             /\ out' = o
             /\ store' \in (IF MayChange(cur, o) \/ (cur.rpc.name \in Creates /\ cur.pre = "missing")
                              THEN {store, "S1"} ELSE {store})
        /\ UNCHANGED alive
     \/ /\ Pair \in PanicOK /\ out' = "panic_ok" /\ UNCHANGED alive
        /\ store' \in (IF cur.rpc.mut THEN {store, "S1"} ELSE {store})
     \/ /\ Pair \in Dead /\ out' = "dead" /\ alive' = FALSE /\ UNCHANGED store
  /\ vigils' = vigils - 1 /\ pc' = "unwound"
  \* a listed pair unwinds without giving back something the swamp needs (e.g. an index lock taken without defer)
  /\ wedged' = (wedged \/ Pair \in Wedge)
  /\ UNCHANGED <<cur, locked>>

\* a request that (de)registers settings for a pattern is followed by ordinary requests to a swamp that matches
\* the pattern (the driver's probe): the registered values must never bring the server down at that point
Unwind ==
  /\ pc = "unwound"
  /\ locked' = IF cur.rpc.stream THEN locked ELSE locked - 1
  /\ pc' = "replied"
  /\ IF "pattern" \in cur.rpc.feats /\ Pair \in Dead /\ out # "dead"
       THEN alive' = FALSE /\ out' = "dead"
       ELSE UNCHANGED <<out, alive>>
  /\ UNCHANGED <<cur, vigils, store, wedged>>

\* graceful stop waits for the system lock and the vigils; a wedged swamp cannot be closed
Stop ==
  /\ pc = "replied" /\ alive /\ locked = 0 /\ vigils = 0 /\ ~wedged
  /\ pc' = "stopped"
  /\ UNCHANGED <<cur, locked, vigils, store, out, alive, wedged>>

Next == (\E c \in Cases : Receive(c)) \/ ValidateName \/ Summon \/ Body \/ Unwind \/ Stop
Spec == Init /\ [][Next]_vars

-----------------------------------------------------------------------------
Replied == pc = "replied" /\ out # ""

CleanOutcome == Replied => out \in Allowed(cur)
Alive == alive
CountersReturn == pc \in {"idle", "replied", "stopped"} => locked = 0 /\ vigils = 0
\* the store only differs from the seeded one through an answered mutating request
NoSideEffect ==
  [][(pc = "body" /\ store' # store) => (cur.rpc.mut /\ out' = "answer")]_vars
CanStop == Replied => ENABLED Stop
\* after EVERY case - whatever its outcome, listed finding or not - the addressed swamp still serves ordinary requests
\* (the driver's health probe: new key, every index, delete, count)
Usable == Replied => ~wedged

CleanFailure == CleanOutcome /\ Alive /\ CountersReturn /\ CanStop /\ Usable
=============================================================================
