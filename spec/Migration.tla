----------------------------- MODULE Migration -----------------------------
(***************************************************************************)
(* Migration of a legacy multi-file swamp to the single-file format (C23). *)
(*   app/core/hydra/swamp/chronicler/v2/migrator/migrator.go               *)
(*   app/core/hydra/swamp/chronicler/chronicler.go  (legacy engine)        *)
(*                                                                         *)
(* v1 is the legacy folder: a sequence of chunk files, each a sequence of  *)
(* records <<k, v, d>> (key, value, d = 1 when the record is shadow-       *)
(* deleted), plus the meta file carrying the swamp name.  It is built by   *)
(* the legacy engine's own operations: WriteNew (append to the current     *)
(* chunk, a new chunk when it is full), Modify / DeleteShadow (rewrite in  *)
(* place), DeleteReal (remove the record; an emptied chunk file is         *)
(* removed).  A chunk may be damaged (unreadable: the legacy engine skips  *)
(* it when loading).                                                       *)
(*                                                                         *)
(* A read fault DURING the migration (cfg.rfault: the chunk files the       *)
(* migrator cannot read while it runs - I/O error, file vanishing - though *)
(* the legacy engine can read them before and after) is different from a   *)
(* damaged chunk: the reference stays what the legacy engine loads, so the *)
(* only acceptable outcome is that the migration of that swamp fails.      *)
(*                                                                         *)
(* One migration:  Start(cfg) ; Load ; (Empty | Write ; Verify? ;          *)
(* Delete?) ; result "success", with a Fault possible at every step        *)
(* (result "failed" and the phase).  v2 is the new file (records as a map, *)
(* name).                                                                  *)
(*                                                                         *)
(* Dev: "StaleTargetAppend" - a file already lying at the target path (left *)
(*      over from an interrupted earlier migration) is not replaced: the   *)
(*      writer opens it for appending, so its old records stay (and if it  *)
(*      ends in a torn block the result is unreadable); the migrator's     *)
(*      verification only looks for the presence of the migrated keys.     *)
(***************************************************************************)
EXTENDS Integers, Sequences, FiniteSets, TLC

CONSTANTS Keys, Vals, ChunkCap, Dev, MaxOps,
          StaleTargets     \* files that may lie at the target path before the migration (NoV2 = none)

VARIABLES v1,      \* [ex, chunks, name, bad]  (bad: set of indices of damaged chunks)
          v2,      \* [ex, recs, name]
          orig,    \* v1 when the migration started (history variable)
          phase,   \* "legacy" | "loading" | "writing" | "verifying" | "deleting" | "done"
          cfg,     \* [verify, deleteOld, rfault]
          loaded,  \* the records the migrator read
          result,  \* "none" | "success" | "failed"
          failedIn,
          ops, last

vars == <<v1, v2, orig, phase, cfg, loaded, result, failedIn, ops, last>>
view == <<v1, v2, orig, phase, cfg, loaded, result, failedIn, ops>>

Absent == <<0, 0>>                     \* no record
NoV2 == [ex |-> FALSE, recs |-> [k \in Keys |-> Absent], name |-> 0, bad |-> FALSE]   \* bad: unreadable
Range(s) == {s[i] : i \in DOMAIN s}
Recs(chunks, bad) == {r \in UNION {Range(chunks[i]) : i \in DOMAIN chunks \ bad} : TRUE}
\* what the legacy engine loads: every record of every readable chunk (shadow-deleted ones included)
LoadV1(f) == [k \in Keys |-> IF \E r \in Recs(f.chunks, f.bad) : r[1] = k
                             THEN LET r == CHOOSE r \in Recs(f.chunks, f.bad) : r[1] = k IN <<r[2], r[3]>>
                             ELSE Absent]
Holds(f, k) == \E i \in DOMAIN f.chunks : \E r \in Range(f.chunks[i]) : r[1] = k
IsEmpty(m) == \A k \in Keys : m[k] = Absent

Init ==
  /\ v1 = [ex |-> TRUE, chunks |-> <<>>, name |-> 1, bad |-> {}]
  /\ v2 \in StaleTargets /\ orig = v1 /\ phase = "legacy" /\ cfg = [verify |-> FALSE, deleteOld |-> FALSE, rfault |-> {}]
  /\ loaded = [k \in Keys |-> Absent] /\ result = "none" /\ failedIn = "" /\ ops = 0
  /\ last = "Init"

Tick(a) == ops' = ops + 1 /\ last' = a
Keep == UNCHANGED <<v2, orig, phase, cfg, loaded, result, failedIn>>

MapSeq(s, F(_)) == [i \in DOMAIN s |-> F(s[i])]
DropEmpty(cs) ==
  LET F[i \in 0..Len(cs)] == IF i = 0 THEN <<>> ELSE IF cs[i] = <<>> THEN F[i - 1] ELSE Append(F[i - 1], cs[i])
  IN F[Len(cs)]
SelectRecs(c, P(_)) ==
  LET F[i \in 0..Len(c)] == IF i = 0 THEN <<>> ELSE IF P(c[i]) THEN Append(F[i - 1], c[i]) ELSE F[i - 1]
  IN F[Len(c)]

\* ---- the legacy engine's own history
WriteNew(k, v) ==
  /\ phase = "legacy" /\ ~Holds(v1, k)
  /\ LET n == Len(v1.chunks) IN
     v1' = IF n > 0 /\ Len(v1.chunks[n]) < ChunkCap
           THEN [v1 EXCEPT !.chunks[n] = Append(@, <<k, v, 0>>)]
           ELSE [v1 EXCEPT !.chunks = Append(@, << <<k, v, 0>> >>)]
  /\ Keep /\ Tick("WriteNew")
Rewrite(k, new) ==      \* new = the record that replaces k's record
  v1' = [v1 EXCEPT !.chunks = MapSeq(@, LAMBDA c : MapSeq(c, LAMBDA r : IF r[1] = k THEN new ELSE r))]
Modify(k, v) ==
  /\ phase = "legacy" /\ Holds(v1, k) /\ Rewrite(k, <<k, v, 0>>) /\ Keep /\ Tick("Modify")
DeleteShadow(k) ==
  /\ phase = "legacy" /\ Holds(v1, k)
  /\ LET old == LoadV1([v1 EXCEPT !.bad = {}])[k] IN Rewrite(k, <<k, old[1], 1>>)
  /\ Keep /\ Tick("DeleteShadow")
DeleteReal(k) ==
  /\ phase = "legacy" /\ Holds(v1, k) /\ v1.bad = {}
  /\ v1' = [v1 EXCEPT !.chunks = DropEmpty(MapSeq(@, LAMBDA c : SelectRecs(c, LAMBDA r : r[1] # k)))]
  /\ Keep /\ Tick("DeleteReal")
\* a chunk file gets damaged on disk (the legacy engine would skip it)
DamageChunk(i) ==
  /\ phase = "legacy" /\ i \in DOMAIN v1.chunks /\ i \notin v1.bad
  /\ v1' = [v1 EXCEPT !.bad = @ \cup {i}] /\ Keep /\ Tick("DamageChunk")

\* ---- the migration
Start(c) ==
  /\ phase = "legacy" /\ c.rfault \subseteq DOMAIN v1.chunks
  /\ phase' = "loading" /\ cfg' = c /\ orig' = v1
  /\ UNCHANGED <<v1, v2, loaded, result, failedIn>> /\ Tick("Start")

Finish(r, ph) == phase' = "done" /\ result' = r /\ failedIn' = ph

\* all chunks are read (a damaged chunk makes the real migrator give up - LoadFault -, skipping it like the
\* legacy engine does would be just as good)
Load ==
  /\ phase = "loading" /\ cfg.rfault = {}       \* (with a chunk it cannot read the migrator must give up: LoadFault)
  /\ loaded' = LoadV1(v1)
  /\ IF IsEmpty(LoadV1(v1))
       THEN /\ Finish("success", "")                     \* nothing to migrate: no new file (and no leftover one either)
            /\ v1' = IF cfg.deleteOld THEN [v1 EXCEPT !.ex = FALSE] ELSE v1
            /\ v2' = IF "StaleTargetAppend" \in Dev THEN v2 ELSE NoV2
       ELSE /\ phase' = "writing" /\ UNCHANGED <<v1, v2, result, failedIn>>
  /\ UNCHANGED <<orig, cfg>> /\ Tick("Load")
LoadFault ==
  /\ phase = "loading" /\ Finish("failed", "load")
  /\ UNCHANGED <<v1, v2, orig, cfg, loaded>> /\ Tick("LoadFault")

Write ==
  /\ phase = "writing"
  /\ v2' = IF v2.ex /\ "StaleTargetAppend" \in Dev
           THEN [v2 EXCEPT !.recs = [k \in Keys |-> IF loaded[k] # Absent THEN loaded[k] ELSE @[k]]]   \* appended behind the leftover
           ELSE [ex |-> TRUE, recs |-> loaded, name |-> v1.name, bad |-> FALSE]
  /\ phase' = IF cfg.verify THEN "verifying" ELSE "deleting"
  /\ UNCHANGED <<v1, orig, cfg, loaded, result, failedIn>> /\ Tick("Write")
\* a write error: the half-written file is removed, or (when not even its header could be written) left
\* behind unreadable; the legacy data is what counts
WriteFault(left) ==
  /\ phase = "writing"
  /\ v2' = IF left THEN [NoV2 EXCEPT !.ex = TRUE, !.bad = TRUE] ELSE NoV2
  /\ Finish("failed", "write")
  /\ UNCHANGED <<v1, orig, cfg, loaded>> /\ Tick("WriteFault")

\* a file is already lying at the target path: the migration of this swamp is refused
Refuse ==
  /\ phase \in {"loading", "writing"} /\ v2.ex
  /\ Finish("failed", "write")
  /\ UNCHANGED <<v1, v2, orig, cfg, loaded>> /\ Tick("Refuse")

Verify ==
  /\ phase = "verifying" /\ ~v2.bad
  /\ IF "StaleTargetAppend" \in Dev THEN \A k \in Keys : loaded[k] # Absent => v2.recs[k] # Absent   \* (keys only)
     ELSE v2.recs = loaded
  /\ phase' = "deleting"
  /\ UNCHANGED <<v1, v2, orig, cfg, loaded, result, failedIn>> /\ Tick("Verify")
VerifyFault ==
  /\ phase = "verifying" /\ v2' = NoV2 /\ Finish("failed", "verify")
  /\ UNCHANGED <<v1, orig, cfg, loaded>> /\ Tick("VerifyFault")

\* the legacy files are removed (all, or - when removing fails half-way - some of them) only now
Delete(all) ==
  /\ phase = "deleting"
  /\ v1' = IF ~cfg.deleteOld THEN v1
           ELSE IF all THEN [v1 EXCEPT !.ex = FALSE]
           ELSE [v1 EXCEPT !.chunks = IF @ = <<>> THEN @ ELSE Tail(@)]
  /\ Finish("success", "")
  /\ UNCHANGED <<v2, orig, cfg, loaded>> /\ Tick("Delete")

Next ==
  \/ \E k \in Keys, v \in Vals : WriteNew(k, v) \/ Modify(k, v)
  \/ \E k \in Keys : DeleteShadow(k) \/ DeleteReal(k)
  \/ \E i \in 1..3 : DamageChunk(i)
  \/ \E c \in [verify : BOOLEAN, deleteOld : BOOLEAN, rfault : SUBSET (1..2)] : Start(c)
  \/ Load \/ LoadFault \/ Refuse \/ Write \/ (\E b \in BOOLEAN : WriteFault(b)) \/ Verify \/ VerifyFault
  \/ \E a \in BOOLEAN : Delete(a)
Spec == Init /\ [][Next]_vars
Bounded == ops <= MaxOps

-----------------------------------------------------------------------------
(* Properties (C23) *)
\* a successful migration yields a file that loads to exactly what the legacy engine would load, name kept
Preserves ==
  result = "success" =>
     IF IsEmpty(LoadV1(orig)) THEN ~v2.ex
     ELSE v2.ex /\ ~v2.bad /\ v2.recs = LoadV1(orig) /\ v2.name = orig.name
\* if the migration fails, the legacy data is left intact
LegacyIntactOnFailure == result = "failed" => v1 = orig
\* legacy files are only ever touched after the new file is complete
NoEarlyDelete == v1 # orig /\ phase # "legacy" => result = "success"
=============================================================================
