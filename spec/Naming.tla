------------------------------- MODULE Naming -------------------------------
(***************************************************************************)
(* Swamp addressing (C20):                                                 *)
(*   server  app/name/name.go  GetFolderNumber, GetFullHashPath,           *)
(*           generateHashedDirectoryPath, generateSwampFolderName          *)
(*   SDK     sdk/go/hydraidego/name/name.go GetIslandID,                   *)
(*           sdk/go/hydraidego/client/client.go GetServiceClient(AndHost)  *)
(*                                                                         *)
(* The 64-bit xxhash values are INPUTS, given as 16 hex digits (0..15),    *)
(* most significant first:                                                 *)
(*   hc = hash of sanctuary+realm+swamp (no separators)   -> island        *)
(*   hp = hash of the canonical string "sanctuary/realm/swamp" -> location *)
(* All arithmetic is on digits, so it stays inside TLC's 32-bit integers   *)
(* (N <= 65535: the server's island count is a uint16).                    *)
(*                                                                         *)
(* A query q = [canon, valid, hc, hp, N, ranges, depth, fpl]:              *)
(*   canon   the canonical name string                                     *)
(*   valid   1 iff the three parts obey the documented constraints (at     *)
(*           least one character, no "/"); the SDK documents that "/" in a *)
(*           part "would break routing" and that validation is the         *)
(*           caller's duty, so location uniqueness is demanded for valid   *)
(*           names only                                                    *)
(*   N       island count, ranges = <<from,to>> per server (the client's   *)
(*           routing table), depth / fpl = hash folder depth and folders   *)
(*           per level of the server.                                      *)
(*                                                                         *)
(* Construction routes.  A name value can be reached through many legal    *)
(* API call sequences (Routes below); name objects memoise what they have  *)
(* computed.  The answer to a query has NO route parameter: whichever      *)
(* route built the name object, island, routing and location must be the   *)
(* one Answer(q).  The trace spec demands that every line was taken        *)
(* through all routes and that all of them gave exactly that answer.       *)
(*                                                                         *)
(* Dev: "SliceBeyondHash"  generateHashedDirectoryPath clamps only the END *)
(*      of each slice of the (unpadded) hex string; when a level STARTS    *)
(*      beyond the end of the string the slice expression panics.          *)
(***************************************************************************)
EXTENDS Integers, Sequences, FiniteSets, TLC

CONSTANTS Dev,       \* subset of {"SliceBeyondHash"}
          Queries,   \* the queries a model-checking run may issue (model checking only)
          MaxOps     \* bound on the number of queries (model checking only)

VARIABLES cfg,      \* configuration of the cluster being addressed: <<N, ranges, depth, fpl>>
          where,    \* location -> set of canonical names of VALID names resolved to it (this configuration)
          out,      \* result of the last query
          ops
vars == <<cfg, where, out, ops>>

Min(a, b) == IF a < b THEN a ELSE b
Max(a, b) == IF a > b THEN a ELSE b

\* fmt.Sprintf("%x", v): no leading zeros, at least one digit
RECURSIVE Unpad(_)
Unpad(d) == IF Len(d) > 1 /\ Head(d) = 0 THEN Unpad(Tail(d)) ELSE d

\* v mod N over the digits (Horner), every intermediate value < 16 * N
RECURSIVE HornerMod(_, _, _)
HornerMod(d, N, acc) == IF d = <<>> THEN acc ELSE HornerMod(Tail(d), N, (acc * 16 + Head(d)) % N)
Island(h, N) == HornerMod(h, N, 0) + 1

\* the client's routing table is filled server by server: the last server whose range holds the island
\* (ranges are documented as non-overlapping); 0 = no server (GetServiceClient returns nil)
Route(island, ranges) ==
  LET S == {i \in DOMAIN ranges : ranges[i][1] <= island /\ island <= ranges[i][2]}
  IN IF S = {} THEN 0 ELSE CHOOSE i \in S : \A j \in S : j <= i

RECURSIVE HexLen(_)
HexLen(n) == IF n < 16 THEN 1 ELSE 1 + HexLen(n \div 16)
\* len("%x" of fpl-1), at least 2
CharsPerLevel(fpl) == Max(2, HexLen(fpl - 1))

\* some level would start beyond the end of the hex string
Beyond(s, depth, c) == \E i \in 0..(depth - 1) : i * c > Len(s)

\* level i (0-based) = s[i*c : i*c+c], both ends clamped to the string
Level(s, i, c) == SubSeq(s, Min(i * c, Len(s)) + 1, Min(i * c + c, Len(s)))
Levels(s, depth, c) == [i \in 1..depth |-> Level(s, i - 1, c)]
\* filepath.Join drops empty elements
NonEmpty(sq) == SelectSeq(sq, LAMBDA x : x # <<>>)

PanicLoc == [panic |-> 1, island |-> 0, levels |-> <<>>, leaf |-> <<>>]
\* root/<island>/<level 1>/.../<level depth>/<hex of the whole hash>
Location(hp, island, depth, fpl) ==
  LET s == Unpad(hp)
      c == CharsPerLevel(fpl)
  IN IF "SliceBeyondHash" \in Dev /\ Beyond(s, depth, c)
       THEN PanicLoc
       ELSE [panic |-> 0, island |-> island, levels |-> NonEmpty(Levels(s, depth, c)), leaf |-> s]

\* legal ways to arrive at the same name object, on the SDK package and on the server package:
\*   chain            New().Sanctuary(s).Realm(r).Swamp(w)
\*   asked-prefixes   every intermediate name is asked (island, string, path) before it is extended
\*   asked-prefixes-other-N   ... with other island counts
\*   shared-prefix    one realm-level name, already asked, is the base of another swamp and of this one
\*   reused-builder   a used name object is the receiver of a new chain
\*   load / load-of-get / load-of-sdk-get   Load of the string form (valid names only: Load splits at "/")
\*   same-object-twice  the same question asked twice on one object
RoutesAlways == {"same-object-twice", "sdk:chain", "sdk:asked-prefixes", "sdk:asked-prefixes-other-N", "sdk:shared-prefix",
                 "sdk:reused-builder", "srv:chain", "srv:asked-prefixes", "srv:shared-prefix", "srv:reused-builder"}
RoutesValid  == {"sdk:load", "sdk:load-of-get", "srv:load", "srv:load-of-sdk-get"}
Routes(valid) == IF valid = 1 THEN RoutesAlways \cup RoutesValid ELSE RoutesAlways

Supported(q) == q.N >= 1 /\ q.N <= 65535 /\ q.depth >= 1 /\ q.fpl >= 2

Answer(q) ==
  LET isl == Island(q.hc, q.N)
  IN [srv   |-> isl,                       \* server side: name.GetFolderNumber(N)
      sdk   |-> isl,                       \* SDK side:    name.GetIslandID(N)
      route |-> Route(isl, q.ranges),      \* client.GetServiceClientAndHost
      loc   |-> Location(q.hp, isl, q.depth, q.fpl)]   \* GetFullHashPath with the island of the request

NoWhere == [k \in {} |-> {}]
None == [srv |-> 1, sdk |-> 1, route |-> 0, loc |-> [panic |-> 0, island |-> 1, levels |-> <<>>, leaf |-> <<0>>]]

Init == cfg = <<>> /\ where = NoWhere /\ out = None /\ ops = 0

CfgOf(q) == <<q.N, q.ranges, q.depth, q.fpl>>

\* one query; a query for another configuration starts a new location map (one server = one configuration)
Address(q) ==
  /\ Supported(q)
  /\ LET a == Answer(q)
         w == IF cfg = CfgOf(q) THEN where ELSE NoWhere
     IN /\ out' = a
        /\ cfg' = CfgOf(q)
        /\ where' = IF q.valid = 1 /\ a.loc.panic = 0
                      THEN [k \in DOMAIN w \cup {a.loc} |->
                              (IF k \in DOMAIN w THEN w[k] ELSE {}) \cup (IF k = a.loc THEN {q.canon} ELSE {})]
                      ELSE w
  /\ ops' = ops + 1

Next == \E q \in Queries : Address(q)
Spec == Init /\ [][Next]_vars
Bounded == ops <= MaxOps

-----------------------------------------------------------------------------
(* Properties (C20).  Determinism is built in: every answer is a function of the query.  *)

\* the island number is within 1..N, on both sides
InRange == cfg # <<>> => (out.srv \in 1..cfg[1] /\ out.sdk \in 1..cfg[1])
\* SDK and server compute the same island
Consistent == out.srv = out.sdk
\* computing the location never fails
Total == out.loc.panic = 0
\* two different (valid) names never resolve to the same location
Injective == \A k \in DOMAIN where : Cardinality(where[k]) <= 1
\* the client routes to a server whose range holds the island
RouteOwns == cfg # <<>> /\ out.route # 0 =>
               (cfg[2][out.route][1] <= out.sdk /\ out.sdk <= cfg[2][out.route][2])
\* every folder level is a piece of the hash's hex string, at most CharsPerLevel long
LevelsFromHash ==
  cfg # <<>> /\ out.loc.panic = 0 =>
     /\ Len(out.loc.levels) <= cfg[3]
     /\ \A i \in DOMAIN out.loc.levels : Len(out.loc.levels[i]) \in 1..CharsPerLevel(cfg[4])
=============================================================================
