------------------------------- MODULE Patch -------------------------------
(***************************************************************************)
(* The structural MessagePack patch primitive of HydrAIDE                  *)
(* (app/core/hydra/swamp/treasure/msgpackpatch, entered through            *)
(* swamp.PatchFields / the PatchTreasures RPC), as a pure function         *)
(*                                                                         *)
(*        ApplyS(S, body, ops, cond)  ->  outcome                          *)
(*                                                                         *)
(* transcribed from the documentation:                                     *)
(*   docs/features/structural-msgpack-patch.md  (type preservation,        *)
(*        atomicity, conditions),                                          *)
(*   docs/sdk/go/go-sdk.md "Field-Level Patches" (op / condition / status  *)
(*        reference tables, auto-create),                                  *)
(*   proto/hydraide.proto  PatchOp / PatchCondition / PatchResult comments,*)
(*   and, for the path grammar only, the package comments of path.go       *)
(*   (negative indices, `[]` marker) because no user-facing text defines   *)
(*   the grammar.                                                          *)
(*                                                                         *)
(* Documents are abstract msgpack values:                                  *)
(*   leaf   [k |-> "L", c |-> code, b |-> base, v |-> value, o |-> 0/1]    *)
(*          code is the exact msgpack type code family ("pfix","i8",...),  *)
(*          so <<c,b,v>> determines the encoded bytes; o = 1 marks a leaf  *)
(*          that an INC computed (its bytes are produced by the server).   *)
(*   map    [k |-> "M", f |-> <<[n |-> key, d |-> doc], ...>>, q |-> 0/1]  *)
(*   array  [k |-> "A", e |-> <<doc, ...>>, q |-> 0/1]                     *)
(*          q = 1 marks a container that entered the document as ONE       *)
(*          pre-encoded op value (see deviation OpaqueSplice).             *)
(*   X      [k |-> "X", m |-> kind, d |-> doc]  op value bytes that are    *)
(*          NOT one well-formed msgpack value (d: what a lenient decoder   *)
(*          reads from its prefix, or <<>>).                               *)
(*                                                                         *)
(* Numbers.  TLC has 32-bit integers and no reals, so an integer leaf      *)
(* value is base + v with a symbolic base (0, i32max, i32min, u32max,      *)
(* i64max, i64min, u64max) and a small offset v; a float value is v/2      *)
(* (b = 0) or NaN / +Inf / -Inf (b = 1 / 2 / 3).                           *)
(*                                                                         *)
(* S is the set of switches in force:                                      *)
(*   Deviations - named differences between the code and the documented    *)
(*                semantics (genuine defects; S \cap Deviations = {} is    *)
(*                the strict specification),                               *)
(*   Readings   - points the documentation leaves open; every reading is   *)
(*                an acceptable behaviour of the strict specification.     *)
(* Every result carries t, the set of switches whose value mattered, so a  *)
(* generator can enumerate exactly the acceptable outcomes of a case.      *)
(***************************************************************************)
EXTENDS Integers, Sequences, FiniteSets, TLC

CONSTANT Dev    \* switches used by Apply (model checking configs); generators call ApplyS directly

Deviations == {"NaNEqual",                \* a NaN operand compares "equal" (cmp = 0)
               "MalformedValueSpliced",   \* a malformed op value is spliced into the body, success reported
               "OpaqueSplice",            \* a container written by an earlier op of the same patch is a leaf for later ops
               "RemoveValSkipsContainers",\* REMOVE_VAL never matches a map / array element of the stored body
               "AppendMarkerNoop"}        \* DELETE / REMOVE_VAL on "x[]" report success instead of PATH_INVALID

Readings   == {"SetIndexRejected",        \* proto: "SET ... final segment must be a field name" read literally
               "DeleteOobNoop",           \* DELETE of an out-of-range index: "missing target is a no-op"
               "DeleteThroughLeafNoop",   \* DELETE below a non-container: "missing target is a no-op"
               "IncOverflowWraps",        \* INC result outside the target code's range wraps (two's complement) ...
                                          \*   ... the other reading is: the op fails
               "ExistsOobMissing",        \* condition on an out-of-range index: field is simply missing
               "NeMissingMet",            \* NOT_EQUAL on a missing field holds
               "RemoveValMalformedNoop",  \* REMOVE_VAL with malformed value bytes matches nothing (no-op)
               "LenientTrailing"}         \* INC delta / MERGE map followed by trailing bytes: the prefix is used

AnyFail == {"tm", "pi", "inv", "enc"}     \* TYPE_MISMATCH, PATH_INVALID, invalid op, invalid msgpack

-----------------------------------------------------------------------------
(* codes and values *)

IntCodes   == {"nfix", "i8", "i16", "i32", "i64"}
UintCodes  == {"pfix", "u8", "u16", "u32", "u64"}
FloatCodes == {"f32", "f64"}
StrCodes   == {"fstr", "s8", "s16"}
BinCodes   == {"b8", "b16"}

Class(c) == IF c \in IntCodes THEN "int" ELSE IF c \in UintCodes THEN "uint"
            ELSE IF c \in FloatCodes THEN "float" ELSE "none"

\* comparison kind of a value (condition.go: "class-aware")
CmpKind(d) == IF d.k # "L" THEN "cont"
              ELSE IF Class(d.c) # "none" THEN Class(d.c)
              ELSE IF d.c \in StrCodes THEN "str" ELSE IF d.c \in BinCodes THEN "bin"
              ELSE IF d.c = "bool" THEN "bool" ELSE "other"

Leaf(c, b, v) == [k |-> "L", c |-> c, b |-> b, v |-> v, o |-> 0]
MapOf(fs)     == [k |-> "M", f |-> fs, q |-> 0]
ArrOf(es)     == [k |-> "A", e |-> es, q |-> 0]
Fld(n, d)     == [n |-> n, d |-> d]
NoDoc         == [k |-> "N"]
Bad(m, d)     == [k |-> "X", m |-> m, d |-> d]          \* d = NoDoc when no prefix of the bytes is a value
EmptyMap      == MapOf(<<>>)

\* strings / binaries are ids into StrTab (sequences of abstract characters), ordered lexicographically
StrTab == << <<>>, <<1>>, <<1, 2>>, <<2>> >>
SeqLess(x, y) == \E k \in 1..(Len(y)) : /\ \A i \in 1..(k - 1) : i <= Len(x) /\ x[i] = y[i]
                                       /\ (k > Len(x) \/ x[k] < y[k])
StrLess(i, j) == SeqLess(StrTab[i + 1], StrTab[j + 1])

\* integer bases: 0 zero, 1 i32max, 2 i32min, 3 u32max, 4 i64max, 5 i64min, 6 u64max
Rank(b) == CASE b = 5 -> -2 [] b = 2 -> -1 [] b = 0 -> 0 [] b = 1 -> 1 [] b = 3 -> 2 [] b = 4 -> 3 [] b = 6 -> 4
Num(b, v) == [b |-> b, v |-> v]
NumLt(x, y) == Rank(x.b) < Rank(y.b) \/ (x.b = y.b /\ x.v < y.v)
NumCmp(x, y) == IF NumLt(x, y) THEN "lt" ELSE IF NumLt(y, x) THEN "gt" ELSE "eq"

Lo(c) == CASE c = "pfix" -> Num(0, 0)      [] c = "nfix" -> Num(0, -32)
           [] c = "u8"   -> Num(0, 0)      [] c = "u16"  -> Num(0, 0)
           [] c = "u32"  -> Num(0, 0)      [] c = "u64"  -> Num(0, 0)
           [] c = "i8"   -> Num(0, -128)   [] c = "i16"  -> Num(0, -32768)
           [] c = "i32"  -> Num(2, 0)      [] c = "i64"  -> Num(5, 0)
Hi(c) == CASE c = "pfix" -> Num(0, 127)    [] c = "nfix" -> Num(0, -1)
           [] c = "u8"   -> Num(0, 255)    [] c = "u16"  -> Num(0, 65535)
           [] c = "u32"  -> Num(3, 0)      [] c = "u64"  -> Num(6, 0)
           [] c = "i8"   -> Num(0, 127)    [] c = "i16"  -> Num(0, 32767)
           [] c = "i32"  -> Num(1, 0)      [] c = "i64"  -> Num(4, 0)
InRange(c, x) == ~NumLt(x, Lo(c)) /\ ~NumLt(Hi(c), x)

\* x + d for a delta on base 0 (generators only use such deltas)
NumAdd(x, d) == IF d.b = 0 THEN Num(x.b, x.v + d.v) ELSE IF x.b = 0 THEN Num(d.b, x.v + d.v)
                ELSE Assert(FALSE, "two symbolic bases")
\* two's-complement wrap of x into the range of code c
Span(c) == IF c \in {"u8", "i8"} THEN 256 ELSE 65536
NumWrap(c, x) ==
  IF c \in {"u8", "u16", "i8", "i16"}
    THEN Num(0, ((x.v - Lo(c).v) % Span(c)) + Lo(c).v)
    ELSE IF NumLt(Hi(c), x) THEN Num(Lo(c).b, Lo(c).v + (x.v - Hi(c).v - 1))   \* x.b = Hi(c).b
                            ELSE Num(Hi(c).b, Hi(c).v - (Lo(c).v - x.v - 1))   \* x.b = Lo(c).b

\* floats: b = 0 finite (value v/2), 1 NaN, 2 +Inf, 3 -Inf
FAdd(x, d) == IF x.b = 1 \/ d.b = 1 THEN Num(1, 0)
              ELSE IF x.b = 0 /\ d.b = 0 THEN Num(0, x.v + d.v)
              ELSE IF x.b = 0 THEN Num(d.b, 0) ELSE IF d.b = 0 THEN Num(x.b, 0)
              ELSE IF x.b = d.b THEN Num(x.b, 0) ELSE Num(1, 0)       \* Inf + -Inf = NaN
FOrd(x) == IF x.b = 3 THEN Num(5, 0) ELSE IF x.b = 2 THEN Num(4, 0) ELSE Num(0, x.v)   \* order embedding
IsNaN(d) == d.k = "L" /\ d.c \in FloatCodes /\ d.b = 1

\* INC never keeps a fixint code: the value is part of the code byte; the code comments of
\* numeric.go specify the 64-bit code of the same class (DESIGN.md section 12: specified, not flagged)
IncCode(c) == IF c = "pfix" THEN "u64" ELSE IF c = "nfix" THEN "i64" ELSE c

-----------------------------------------------------------------------------
(* structure helpers *)

IsX(d) == d.k = "X"
Opaque(S, d) == d.k \in {"M", "A"} /\ d.q = 1 /\ "OpaqueSplice" \in S
IsMap(S, d) == d.k = "M" /\ ~Opaque(S, d)
IsArr(S, d) == d.k = "A" /\ ~Opaque(S, d)
\* switches consulted when a node is tested for being a map / an array
TMap(d) == IF d.k = "M" /\ d.q = 1 THEN {"OpaqueSplice"} ELSE {}
TArr(d) == IF d.k = "A" /\ d.q = 1 THEN {"OpaqueSplice"} ELSE {}

\* a value as it enters the document: one pre-encoded blob
Splice(d) == IF d.k \in {"M", "A"} THEN [d EXCEPT !.q = 1] ELSE d

\* equality of encoded bytes = equality of abstract values up to the bookkeeping flags o, q
RECURSIVE Strip(_)
Strip(d) == CASE d.k = "L" -> [d EXCEPT !.o = 0]
              [] d.k = "M" -> [k |-> "M", q |-> 0, f |-> [i \in DOMAIN d.f |-> Fld(d.f[i].n, Strip(d.f[i].d))]]
              [] d.k = "A" -> [k |-> "A", q |-> 0, e |-> [i \in DOMAIN d.e |-> Strip(d.e[i])]]
              [] OTHER -> d
SameBytes(x, y) == ~IsX(x) /\ ~IsX(y) /\ Strip(x) = Strip(y)

RECURSIVE WellFormed(_)
WellFormed(d) == CASE d.k = "L" -> TRUE
                   [] d.k = "M" -> \A i \in DOMAIN d.f : WellFormed(d.f[i].d)
                   [] d.k = "A" -> \A i \in DOMAIN d.e : WellFormed(d.e[i])
                   [] OTHER -> FALSE

Child(d, i) == IF d.k = "M" THEN d.f[i].d ELSE d.e[i]
RECURSIVE Get(_, _)
Get(d, loc) == IF loc = <<>> THEN d ELSE Get(Child(d, Head(loc)), Tail(loc))
RECURSIVE Put(_, _, _)
Put(d, loc, x) ==
  IF loc = <<>> THEN x
  ELSE IF d.k = "M" THEN [d EXCEPT !.f[Head(loc)].d = Put(@, Tail(loc), x)]
                    ELSE [d EXCEPT !.e[Head(loc)]   = Put(@, Tail(loc), x)]

Without(s, i) == [j \in 1..(Len(s) - 1) |-> IF j < i THEN s[j] ELSE s[j + 1]]
Front(s) == SubSeq(s, 1, Len(s) - 1)
Last(s)  == s[Len(s)]

FieldIdx(m, n) == IF \E i \in DOMAIN m.f : m.f[i].n = n
                    THEN CHOOSE i \in DOMAIN m.f : m.f[i].n = n /\ \A j \in 1..(i - 1) : m.f[j].n # n
                    ELSE 0

\* remove the child at loc (loc # <<>>)
RemoveLoc(doc, loc) ==
  LET p == Get(doc, Front(loc))  i == Last(loc) IN
  Put(doc, Front(loc), IF p.k = "M" THEN [p EXCEPT !.f = Without(@, i)] ELSE [p EXCEPT !.e = Without(@, i)])

-----------------------------------------------------------------------------
(* paths:  [bad |-> 0, s |-> <<seg,...>>]  or  [bad |-> n > 0, s |-> <<>>] (a malformed path string)   *)
(* seg = [t |-> "f", n |-> name, i |-> 0] | [t |-> "i", n |-> "", i |-> index] | [t |-> "p", ...] "[]" *)

SegF(n) == [t |-> "f", n |-> n, i |-> 0]
SegI(i) == [t |-> "i", n |-> "", i |-> i]
SegP    == [t |-> "p", n |-> "", i |-> 0]
PathOf(s) == [bad |-> 0, s |-> s]
BadPath(n) == [bad |-> n, s |-> <<>>]

\* grammar: starts with a field name, brackets follow a name
PathOK(p) == p.bad = 0 /\ Len(p.s) > 0 /\ p.s[1].t = "f"
\* "[]" is "valid only as the final segment of an APPEND or PREPEND path": anywhere else the path is invalid
MarkerOK(p) == \A i \in 1..(Len(p.s) - 1) : p.s[i].t # "p"

RRes(st, loc, at, e, why, t) == [st |-> st, loc |-> loc, at |-> at, e |-> e, why |-> why, t |-> t]

\* Resolve: "found" (loc = target), "missing" (loc = deepest existing map, at = first missing segment),
\* "append" (loc = the array the final [] refers to), "err" (e = class, why = "oob" / "kind" / "marker";
\* "marker": a non-final [] was reached - only possible when the path was not validated up front, see
\* deviation AppendMarkerNoop)
RECURSIVE Res(_, _, _, _, _, _)
Res(S, cur, loc, segs, i, t0) ==
  LET seg == segs[i]  final == (i = Len(segs))
      t == t0 \cup (IF seg.t = "f" THEN TMap(cur) ELSE TArr(cur)) IN    \* the walk looks into cur
  CASE seg.t = "f" ->
         IF ~IsMap(S, cur) THEN RRes("err", loc, i, "tm", "kind", t)
         ELSE LET idx == FieldIdx(cur, seg.n) IN
              IF idx = 0 THEN RRes("missing", loc, i, "", "", t)
              ELSE IF final THEN RRes("found", Append(loc, idx), 0, "", "", t)
              ELSE Res(S, cur.f[idx].d, Append(loc, idx), segs, i + 1, t)
    [] seg.t = "i" ->
         IF ~IsArr(S, cur) THEN RRes("err", loc, i, "tm", "kind", t)
         ELSE LET n == Len(cur.e)
                  j == IF seg.i < 0 THEN n + seg.i + 1 ELSE seg.i + 1 IN
              IF j < 1 \/ j > n THEN RRes("err", loc, i, "pi", "oob", t)
              ELSE IF final THEN RRes("found", Append(loc, j), 0, "", "", t)
              ELSE Res(S, cur.e[j], Append(loc, j), segs, i + 1, t)
    [] seg.t = "p" ->
         IF ~final THEN RRes("err", loc, i, "pi", "marker", t0)
         ELSE IF ~IsArr(S, cur) THEN RRes("err", loc, i, "tm", "kind", t)
         ELSE RRes("append", loc, i, "", "", t)
Resolve(S, doc, segs) == Res(S, doc, <<>>, segs, 1, {})

-----------------------------------------------------------------------------
(* op results *)

Fail(E, T) == [ok |-> FALSE, d |-> <<>>, e |-> E, t |-> T]
Ok(d, T)   == [ok |-> TRUE,  d |-> d,    e |-> {}, t |-> T]

\* op values: a malformed value is a failure (strict); as built it is spliced like any other blob
WithVal(S, val, base) ==
  IF ~IsX(val) THEN base
  ELSE IF val.m = "empty" \/ ~base.ok THEN Fail(AnyFail, base.t)
  ELSE IF "MalformedValueSpliced" \in S THEN [base EXCEPT !.t = @ \cup {"MalformedValueSpliced"}]
  ELSE Fail(AnyFail, base.t \cup {"MalformedValueSpliced"})

\* auto-create: segments segs[at..n] must all be field names; node becomes the value of the last one
RECURSIVE Nest(_, _, _)
Nest(segs, i, node) == IF i > Len(segs) THEN node ELSE MapOf(<<Fld(segs[i].n, Nest(segs, i + 1, node))>>)
CreateChain(doc, r, segs, node) ==
  IF \E i \in r.at..Len(segs) : segs[i].t # "f" THEN Fail({"pi"}, r.t)
  ELSE LET p == Get(doc, r.loc) IN
       Ok(Put(doc, r.loc, [p EXCEPT !.f = Append(@, Fld(segs[r.at].n, Nest(segs, r.at + 1, node)))]), r.t)

(* SET: "Replaces or creates the value at path. Auto-creates missing intermediate maps." *)
SetBase(S, doc, segs, node) ==
  LET r == Resolve(S, doc, segs)  onIdx == Last(segs).t = "i" IN
  CASE r.st = "err"     -> Fail({r.e}, r.t)
    [] r.st = "found"   -> IF onIdx /\ "SetIndexRejected" \in S THEN Fail({"pi"}, r.t \cup {"SetIndexRejected"})
                           ELSE Ok(Put(doc, r.loc, node), r.t \cup (IF onIdx THEN {"SetIndexRejected"} ELSE {}))
    [] r.st = "append"  -> Fail({"pi"}, r.t)          \* "[]" is valid only with APPEND / PREPEND
    [] r.st = "missing" -> CreateChain(doc, r, segs, node)
OpSet(S, doc, segs, val) == WithVal(S, val, SetBase(S, doc, segs, Splice(val)))

(* DELETE: "Removes the field/index. Missing target is a no-op." *)
OpDelete(S, doc, segs) ==
  LET r == Resolve(S, doc, segs) IN
  CASE r.st = "err" /\ r.why = "oob" ->
         IF "DeleteOobNoop" \in S THEN Ok(doc, r.t \cup {"DeleteOobNoop"}) ELSE Fail({"pi"}, r.t \cup {"DeleteOobNoop"})
    [] r.st = "err" /\ r.why = "marker" -> Fail({"pi"}, r.t)
    [] r.st = "err" /\ r.why = "kind" ->
         IF "DeleteThroughLeafNoop" \in S THEN Ok(doc, r.t \cup {"DeleteThroughLeafNoop"})
         ELSE Fail({"tm"}, r.t \cup {"DeleteThroughLeafNoop"})
    [] r.st = "found"   -> Ok(RemoveLoc(doc, r.loc), r.t)
    [] r.st = "missing" -> Ok(doc, r.t)
    [] r.st = "append"  -> Ok(doc, r.t)            \* only reached as built (see ApplyOp): nothing to do

(* INC: "adds the numeric Value (delta) to the existing numeric leaf at Path, preserving the target's    *)
(* exact msgpack type code. Missing field auto-creates with the delta's type. Class mismatch is           *)
(* TYPE_MISMATCH."                                                                                         *)
IncFound(S, doc, r, delta) ==
  LET tg == Get(doc, r.loc) IN
  IF tg.k # "L" \/ Class(tg.c) # Class(delta.c) THEN Fail({"tm"}, r.t)
  ELSE LET c   == IncCode(tg.c)
           flt == Class(tg.c) = "float"
           sum == IF flt THEN FAdd(tg, delta) ELSE NumAdd(tg, delta)
           new(x) == [k |-> "L", c |-> c, b |-> x.b, v |-> x.v, o |-> 1] IN
       IF flt \/ InRange(c, sum) THEN Ok(Put(doc, r.loc, new(sum)), r.t)
       ELSE IF "IncOverflowWraps" \in S THEN Ok(Put(doc, r.loc, new(NumWrap(c, sum))), r.t \cup {"IncOverflowWraps"})
       ELSE Fail(AnyFail, r.t \cup {"IncOverflowWraps"})
\* delta: the numeric leaf that is added; node: what is stored when the field is created
IncBase(S, doc, segs, delta, node) ==
  LET r == Resolve(S, doc, segs)
      valErr == IF delta.k # "L" \/ Class(delta.c) = "none" THEN {"tm"} ELSE {}
      resErr == IF r.st = "err" THEN {r.e} ELSE {} IN
  IF valErr \cup resErr # {} THEN Fail(valErr \cup resErr, r.t)
  ELSE CASE r.st = "found"   -> IncFound(S, doc, r, delta)
         [] r.st = "append"  -> Fail({"pi"}, r.t)
         [] r.st = "missing" -> CreateChain(doc, r, segs, node)
OpInc(S, doc, segs, val) ==
  IF ~IsX(val) THEN IncBase(S, doc, segs, val, val)
  ELSE IF val.m = "empty" \/ val.d.k # "L" THEN Fail(AnyFail, {})
  ELSE \* a numeric value followed by trailing bytes: the prefix val.d is what a lenient decoder adds
       LET base == IncBase(S, doc, segs, val.d, val)
           r    == Resolve(S, doc, segs) IN
       IF ~base.ok THEN Fail(AnyFail, base.t)
       ELSE IF r.st = "found"
              THEN IF "LenientTrailing" \in S THEN [base EXCEPT !.t = @ \cup {"LenientTrailing"}]
                   ELSE Fail(AnyFail, base.t \cup {"LenientTrailing"})
              ELSE IF "MalformedValueSpliced" \in S THEN [base EXCEPT !.t = @ \cup {"MalformedValueSpliced"}]
                   ELSE Fail(AnyFail, base.t \cup {"MalformedValueSpliced"})

(* APPEND / PREPEND: "Path must end in []. Auto-creates an empty array on a missing field." *)
(* "Non-array targets yield TYPE_MISMATCH."                                                  *)
AppendBase(S, doc, segs, node, front) ==
  LET r == Resolve(S, doc, segs)  n == Len(segs)
      shapeErr == IF segs[n].t # "p" THEN {"pi"} ELSE {}
      resErr   == IF r.st = "err" THEN {r.e} ELSE {} IN
  IF shapeErr \cup resErr # {} THEN Fail(shapeErr \cup resErr, r.t)
  ELSE CASE r.st = "append" ->
              LET a == Get(doc, r.loc) IN
              Ok(Put(doc, r.loc, [a EXCEPT !.e = IF front THEN <<node>> \o @ ELSE Append(@, node)]), r.t)
         [] r.st = "missing" ->
              \* segs[at..n-1] name the maps to create and, last, the array field
              IF \E i \in r.at..(n - 1) : segs[i].t # "f" THEN Fail({"pi"}, r.t)
              ELSE CreateChain(doc, r, Front(segs), ArrOf(<<node>>))
OpAppend(S, doc, segs, val, front) == WithVal(S, val, AppendBase(S, doc, segs, Splice(val), front))

(* REMOVE_AT: "Path must include an index. Out-of-range yields PATH_INVALID." *)
OpRemoveAt(S, doc, segs) ==
  LET r == Resolve(S, doc, segs)
      shapeErr == IF Last(segs).t # "i" THEN {"pi"} ELSE {}
      resErr   == IF r.st = "err" THEN {r.e} ELSE {} IN
  IF shapeErr \cup resErr # {} THEN Fail(shapeErr \cup resErr, r.t)
  ELSE IF r.st = "found" THEN Ok(RemoveLoc(doc, r.loc), r.t)
  ELSE Fail({"pi"}, r.t)                            \* the array itself is missing: unresolvable reference

(* REMOVE_VAL: "Removes the first array element whose msgpack-encoded bytes equal value. Path points *)
(* at the array. Not present is a no-op."                                                            *)
Matches(S, e, val) ==
  /\ SameBytes(e, val)
  /\ ("RemoveValSkipsContainers" \in S => (e.k = "L" \/ Opaque(S, e)))
RemoveValBase(S, doc, segs, val) ==
  LET r == Resolve(S, doc, segs) IN
  CASE r.st = "err"     -> Fail({r.e}, r.t)
    [] r.st = "missing" -> Ok(doc, r.t)
    [] r.st = "append"  -> Ok(doc, r.t)            \* only reached as built (see ApplyOp): nothing to do
    [] r.st = "found"   ->
         LET a == Get(doc, r.loc) IN
         IF ~IsArr(S, a) THEN Fail({"tm"}, r.t \cup TArr(a))
         ELSE LET hits  == {i \in DOMAIN a.e : Matches(S, a.e[i], val)}
                  cands == {i \in DOMAIN a.e : SameBytes(a.e[i], val)}
                  tt    == r.t \cup TArr(a) \cup (IF \E i \in cands : a.e[i].k # "L" THEN {"RemoveValSkipsContainers", "OpaqueSplice"} ELSE {}) IN
              IF hits = {} THEN Ok(doc, tt)
              ELSE LET i == CHOOSE i \in hits : \A j \in hits : i <= j IN
                   Ok(Put(doc, r.loc, [a EXCEPT !.e = Without(@, i)]), tt)
OpRemoveVal(S, doc, segs, val) ==
  IF ~IsX(val) THEN RemoveValBase(S, doc, segs, val)
  ELSE IF val.m = "empty" THEN Fail(AnyFail, {})
  ELSE LET base == RemoveValBase(S, doc, segs, val) IN      \* an X value matches nothing
       IF ~base.ok THEN Fail(AnyFail, base.t)
       ELSE IF "RemoveValMalformedNoop" \in S THEN [base EXCEPT !.t = @ \cup {"RemoveValMalformedNoop"}]
       ELSE Fail(AnyFail, base.t \cup {"RemoveValMalformedNoop"})

(* MERGE: "Shallow merge of a map into the target map. Conflicting keys overwrite; others are preserved." *)
(* "Non-map target/value yield TYPE_MISMATCH."                                                             *)
RECURSIVE MergeInto(_, _, _)
MergeInto(m, fs, i) ==
  IF i > Len(fs) THEN m
  ELSE LET idx == FieldIdx(m, fs[i].n)  nd == Splice(fs[i].d) IN
       MergeInto(IF idx = 0 THEN [m EXCEPT !.f = Append(@, Fld(fs[i].n, nd))]
                           ELSE [m EXCEPT !.f[idx].d = nd], fs, i + 1)
MergeBase(S, doc, segs, val) ==
  LET r == Resolve(S, doc, segs)
      valErr == IF val.k # "M" THEN {"tm"} ELSE {}
      resErr == IF r.st = "err" THEN {r.e} ELSE {} IN
  IF valErr \cup resErr # {} THEN Fail(valErr \cup resErr, r.t)
  ELSE CASE r.st = "found" ->
              LET tg == Get(doc, r.loc) IN
              IF ~IsMap(S, tg) THEN Fail({"tm"}, r.t \cup TMap(tg))
              ELSE Ok(Put(doc, r.loc, MergeInto(tg, val.f, 1)), r.t \cup TMap(tg))
         [] r.st = "append"  -> Fail({"pi"}, r.t)
         [] r.st = "missing" -> CreateChain(doc, r, segs, MergeInto(EmptyMap, val.f, 1))
OpMerge(S, doc, segs, val) ==
  IF ~IsX(val) THEN MergeBase(S, doc, segs, val)
  ELSE IF val.m = "empty" \/ val.d.k # "M" THEN Fail(AnyFail, {})
  ELSE LET base == MergeBase(S, doc, segs, val.d) IN          \* a map followed by trailing bytes
       IF ~base.ok THEN Fail(AnyFail, base.t)
       ELSE IF "LenientTrailing" \in S THEN [base EXCEPT !.t = @ \cup {"LenientTrailing"}]
       ELSE Fail(AnyFail, base.t \cup {"LenientTrailing"})

\* op = [k |-> kind, p |-> path, v |-> value]   (v ignored by DELETE / REMOVE_AT)
\* error classes of the value alone (they apply whatever the path is)
ValErr(op) == IF op.k \in {"DELETE", "REMOVE_AT"} THEN {}
              ELSE IF IsX(op.v) THEN AnyFail
              ELSE IF op.k = "INC" /\ (op.v.k # "L" \/ Class(op.v.c) = "none") THEN {"tm"}
              ELSE IF op.k = "MERGE" /\ op.v.k # "M" THEN {"tm"}
              ELSE {}
ApplyOp1(S, doc, op) ==
       CASE op.k = "SET"        -> OpSet(S, doc, op.p.s, op.v)
         [] op.k = "DELETE"     -> OpDelete(S, doc, op.p.s)
         [] op.k = "INC"        -> OpInc(S, doc, op.p.s, op.v)
         [] op.k = "APPEND"     -> OpAppend(S, doc, op.p.s, op.v, FALSE)
         [] op.k = "PREPEND"    -> OpAppend(S, doc, op.p.s, op.v, TRUE)
         [] op.k = "REMOVE_AT"  -> OpRemoveAt(S, doc, op.p.s)
         [] op.k = "REMOVE_VAL" -> OpRemoveVal(S, doc, op.p.s, op.v)
         [] op.k = "MERGE"      -> OpMerge(S, doc, op.p.s, op.v)
\* a path with a misplaced "[]" is invalid (PATH_INVALID); as built the marker is only looked at where the
\* walk happens to reach it (deviation AppendMarkerNoop), r below is what then happens
MarkerValid(op) == MarkerOK(op.p) /\ (Last(op.p.s).t = "p" => op.k \in {"APPEND", "PREPEND"})
ApplyOp(S, doc, op) ==
  IF ~PathOK(op.p) THEN Fail({"pi"} \cup ValErr(op), {})
  ELSE IF MarkerValid(op) THEN ApplyOp1(S, doc, op)
  ELSE LET r == ApplyOp1(S, doc, op) IN
       IF "AppendMarkerNoop" \in S THEN [r EXCEPT !.t = @ \cup {"AppendMarkerNoop"}]
       ELSE Fail({"pi"} \cup ValErr(op) \cup r.e, r.t \cup {"AppendMarkerNoop"})

\* "every op runs under the same guard hold and either all commit or none do": the first failing op decides
RECURSIVE ApplyOps(_, _, _, _, _)
ApplyOps(S, doc, ops, i, t) ==
  IF i > Len(ops) THEN Ok(doc, t)
  ELSE LET r == ApplyOp(S, doc, ops[i]) IN
       IF ~r.ok THEN Fail(r.e, t \cup r.t) ELSE ApplyOps(S, r.d, ops, i + 1, t \cup r.t)

-----------------------------------------------------------------------------
(* conditions:  [op |-> "EQ"|"NE"|"GT"|"GE"|"LT"|"LE"|"EX"|"NX"|"NONE", p |-> path, th |-> value] *)

NoCond == [op |-> "NONE", p |-> BadPath(1), th |-> EmptyMap]
CRes(r, e, t) == [r |-> r, e |-> e, t |-> t]

\* "lt" / "eq" / "gt" / "un" (unordered: a NaN operand) or an error class
Compare(S, a, th) ==
  LET ka == CmpKind(a)  kb == CmpKind(th)  num == {"int", "uint", "float"} IN
  IF ka \in num \/ kb \in num THEN
       IF ka # kb THEN CRes("err", {"tm"}, {})
       ELSE IF ka = "float" THEN
              IF IsNaN(a) \/ IsNaN(th)
                THEN CRes(IF "NaNEqual" \in S THEN "eq" ELSE "un", {}, {"NaNEqual"})
                ELSE CRes(NumCmp(FOrd(a), FOrd(th)), {}, {})
       ELSE CRes(NumCmp(a, th), {}, {})
  ELSE IF (a.k = "L" /\ a.c = "ext") \/ (th.k = "L" /\ th.c = "ext")
       THEN CRes("err", {"tm", "enc"}, {})      \* application extension types: no comparison is documented
  ELSE IF ka \in {"str", "bin", "bool"} THEN
       IF ka # kb THEN CRes("err", {"tm"}, {})
       ELSE IF ka = "bool" THEN CRes(IF a.v = th.v THEN "eq" ELSE IF a.v < th.v THEN "lt" ELSE "gt", {}, {})   \* false < true
       ELSE CRes(IF a.v = th.v THEN "eq" ELSE IF StrLess(a.v, th.v) THEN "lt" ELSE "gt", {}, {})
  ELSE \* nil / time: only identity is defined ("unsupported leaf type for comparison" otherwise)
       IF SameBytes(a, th) THEN CRes("eq", {}, {}) ELSE CRes("err", {"tm"}, {})

Holds(op, c) == CASE op = "EQ" -> c = "eq"
                  [] op = "NE" -> c # "eq"
                  [] op = "GT" -> c = "gt"
                  [] op = "GE" -> c \in {"gt", "eq"}
                  [] op = "LT" -> c = "lt"
                  [] op = "LE" -> c \in {"lt", "eq"}

\* "evaluated once, before any op runs"; EXISTS / NOT_EXISTS "test for the presence of a leaf field"
EvalCond1(S, doc, c) ==
  LET r == Resolve(S, doc, c.p.s)
      oob == r.st = "err" /\ r.why = "oob"
      asMissing == oob /\ "ExistsOobMissing" \in S
      t0 == r.t \cup (IF oob THEN {"ExistsOobMissing"} ELSE {})
      exists == r.st = "found" /\ Get(doc, r.loc).k = "L" IN
  IF (oob /\ ~asMissing) \/ (r.st = "err" /\ r.why = "marker") THEN CRes("err", {"pi"}, t0)
  ELSE IF c.op = "EX" THEN CRes(IF exists THEN "met" ELSE "notmet", {}, t0)
  ELSE IF c.op = "NX" THEN CRes(IF exists THEN "notmet" ELSE "met", {}, t0)
  ELSE IF r.st = "err" /\ ~oob THEN CRes("err", {"tm"}, t0)
  ELSE IF ~exists THEN
         IF c.op = "NE" /\ (r.st = "missing" \/ asMissing)
           THEN CRes(IF "NeMissingMet" \in S THEN "met" ELSE "notmet", {}, t0 \cup {"NeMissingMet"})
           ELSE CRes("notmet", {}, t0)
  ELSE LET cmp == Compare(S, Get(doc, r.loc), c.th) IN
       IF cmp.r = "err" THEN CRes("err", cmp.e, t0 \cup cmp.t)
       ELSE CRes(IF Holds(c.op, cmp.r) THEN "met" ELSE "notmet", {}, t0 \cup cmp.t)
\* a condition path never may contain the "[]" marker (valid only with APPEND / PREPEND); as built it is
\* only looked at where the walk reaches it (deviation AppendMarkerNoop)
EvalCond(S, doc, c) ==
  IF c.op = "NONE" THEN CRes("met", {}, {})
  ELSE IF ~PathOK(c.p) THEN CRes("err", {"pi"}, {})
  ELSE IF \A i \in DOMAIN c.p.s : c.p.s[i].t # "p" THEN EvalCond1(S, doc, c)
  ELSE LET r == EvalCond1(S, doc, c) IN
       IF "AppendMarkerNoop" \in S THEN [r EXCEPT !.t = @ \cup {"AppendMarkerNoop"}]
       ELSE CRes("err", {"pi"} \cup r.e, r.t \cup {"AppendMarkerNoop"})

-----------------------------------------------------------------------------
(* the whole patch *)

\* outcome: st = "ok" (d = new body) | "cnm" (CONDITION_NOT_MET) | "fail" (e = acceptable error classes);
\* on "cnm" and "fail" the stored body stays `body`
Outcome(st, d, e, t) == [st |-> st, d |-> d, e |-> e, t |-> t]
ApplyS(S, body, ops, cond) ==
  LET c == EvalCond(S, body, cond) IN
  IF c.r = "err" THEN Outcome("fail", body, c.e, c.t)
  ELSE IF c.r = "notmet" THEN Outcome("cnm", body, {}, c.t)
  ELSE LET r == ApplyOps(S, body, ops, 1, c.t) IN
       IF r.ok THEN Outcome("ok", r.d, {}, r.t) ELSE Outcome("fail", body, r.e, r.t)

Apply(body, ops, cond) == ApplyS(Dev, body, ops, cond)

-----------------------------------------------------------------------------
(* Properties (C13), stated over one case (body, ops, cond) and its outcome under switches S *)

\* a reported success always leaves a well-formed msgpack body
SuccessWellFormed(S, body, ops, cond) ==
  LET r == ApplyS(S, body, ops, cond) IN r.st = "ok" => WellFormed(r.d)

\* a failing op or an unmet condition leaves the body unchanged
FailureLeavesBody(S, body, ops, cond) ==
  LET r == ApplyS(S, body, ops, cond) IN r.st # "ok" => r.d = body

\* NaN compares equal to nothing: only NOT_EQUAL can hold when an operand is NaN
NaNUnordered(S, body, ops, cond) ==
  (/\ cond.op \in {"EQ", "NE", "GT", "GE", "LT", "LE"} /\ PathOK(cond.p)
   /\ LET r == Resolve(S, body, cond.p.s) IN
      /\ r.st = "found" /\ CmpKind(Get(body, r.loc)) = "float" /\ CmpKind(cond.th) = "float"
      /\ (IsNaN(Get(body, r.loc)) \/ IsNaN(cond.th)))
  => (ApplyS(S, body, ops, cond).st = "cnm") = (cond.op # "NE")

\* increments keep the target's numeric type (sized codes; fixint goes to the 64-bit code of its class)
IncKeepsCode(S, body, ops, cond) ==
  (Len(ops) = 1 /\ ops[1].k = "INC" /\ PathOK(ops[1].p) /\ ~IsX(ops[1].v)) =>
    LET r == ApplyS(S, body, ops, cond)  rs == Resolve(S, body, ops[1].p.s) IN
    (r.st = "ok" /\ rs.st = "found") =>
       LET old == Get(body, rs.loc)  new == Get(r.d, rs.loc) IN
       /\ new.k = "L" /\ new.c = IncCode(old.c) /\ Class(new.c) = Class(old.c)
       /\ (Class(new.c) # "float" => InRange(new.c, new))

\* untouched values keep their exact bytes: a top-level field that no op path starts with is unchanged,
\* and those fields keep their relative order
TopNames(d) == [i \in DOMAIN d.f |-> d.f[i].n]
UntouchedIdentical(S, body, ops, cond) ==
  LET r == ApplyS(S, body, ops, cond)
      touched == {ops[i].p.s[1].n : i \in {j \in DOMAIN ops : PathOK(ops[j].p)}} IN
  r.st = "ok" =>
    /\ r.d.k = "M"
    /\ \A i \in DOMAIN body.f : body.f[i].n \notin touched =>
          LET j == FieldIdx(r.d, body.f[i].n) IN j # 0 /\ r.d.f[j].d = body.f[i].d
    /\ \A i, j \in DOMAIN body.f :
          (i < j /\ body.f[i].n \notin touched /\ body.f[j].n \notin touched)
             => FieldIdx(r.d, body.f[i].n) < FieldIdx(r.d, body.f[j].n)

AllProps(S, body, ops, cond) ==
  /\ SuccessWellFormed(S, body, ops, cond) /\ FailureLeavesBody(S, body, ops, cond)
  /\ NaNUnordered(S, body, ops, cond) /\ IncKeepsCode(S, body, ops, cond)
  /\ UntouchedIdentical(S, body, ops, cond)
=============================================================================
