---------------------------- MODULE PatchCases ----------------------------
(***************************************************************************)
(* The enumerated case space of Patch, shared by the case generator        *)
(* (Gen_Patch, binding C) and the model-checking harness (MC_Patch).       *)
(*                                                                         *)
(* Families (selected by IOEnv.GEN_RATE_<fam> = per-mille rate):                                             *)
(*   F0  hand-picked witnesses of every deviation and reading              *)
(*   F1  three bodies x every single op (8 kinds x all paths x all values) *)
(*   F2  body {n: L, ...} for every leaf L x ops aimed at L (INC deltas,   *)
(*       SET/DELETE/MERGE/APPEND on it, neighbours)                        *)
(*   F3  body {t: [L, "a", L], ...} for every leaf L x REMOVE_VAL of every *)
(*       leaf (encoded equality), INC / SET / REMOVE_AT on elements        *)
(*   F4  condition on leaf L: every comparator x every threshold leaf      *)
(*   F5  condition path shapes x comparators x thresholds                  *)
(*   F6  three bodies x op pairs (first op from Q1, second from Q2)        *)
(*   F7  body {n: L} x (op that rewrites n in place) x (op on n again)     *)
(* A case is (b, i, j) = body index, first index, second index.  Sharding  *)
(* and seeded sampling select cases by a hash of (b, i, j, seed).          *)
(***************************************************************************)
EXTENDS Patch, IOUtils

Env(n, dflt) == IF n \in DOMAIN IOEnv THEN IOEnv[n] ELSE dflt
Shard  == atoi(Env("GEN_SHARD", "0"))
NShard == atoi(Env("GEN_NSHARDS", "1"))
Seed   == atoi(Env("GEN_SEED", "1")) % 1000
OneFam == Env("GEN_FAM", "")                     \* with GEN_B > 0: evaluate exactly the case (GEN_FAM, GEN_B, GEN_I, GEN_J)
OneB   == atoi(Env("GEN_B", "0"))
OneI   == atoi(Env("GEN_I", "0"))
OneJ   == atoi(Env("GEN_J", "0"))

-----------------------------------------------------------------------------
(* pools *)

L(c, b, v) == Leaf(c, b, v)
NaN64 == L("f64", 1, 0)

\* every leaf code, with boundary values of each numeric code
LP == << L("pfix", 0, 0), L("pfix", 0, 5), L("pfix", 0, 127), L("nfix", 0, -1), L("nfix", 0, -32),
         L("u8", 0, 0), L("u8", 0, 200), L("u8", 0, 255), L("u16", 0, 300), L("u16", 0, 65535),
         L("u32", 0, 70000), L("u32", 3, 0), L("u64", 0, 7), L("u64", 6, 0), L("u64", 4, 1),
         L("i8", 0, 5), L("i8", 0, 127), L("i8", 0, -128), L("i16", 0, 5), L("i16", 0, 32767), L("i16", 0, -32768),
         L("i32", 0, -70000), L("i32", 1, 0), L("i32", 2, 0), L("i64", 0, 5), L("i64", 4, 0), L("i64", 5, 0), L("i64", 1, 1),
         L("f32", 0, 3), L("f64", 0, 3), L("f64", 0, -1), L("f64", 0, 0), NaN64, L("f32", 1, 0), L("f64", 2, 0), L("f64", 3, 0), L("f32", 0, 5),
         L("fstr", 0, 1), L("fstr", 0, 0), L("s8", 0, 2), L("s16", 0, 3), L("s8", 0, 1),
         L("b8", 0, 1), L("b16", 0, 0), L("b8", 0, 3),
         L("bool", 0, 1), L("bool", 0, 0), L("nil", 0, 0),
         L("tm4", 0, 0), L("tm8", 0, 1), L("tm12", 0, 2), L("ext", 0, 0) >>

M1(n1, d1)         == MapOf(<<Fld(n1, d1)>>)
M2(n1, d1, n2, d2) == MapOf(<<Fld(n1, d1), Fld(n2, d2)>>)

\* INC deltas (all on base 0) and non-numeric values
DP == << L("pfix", 0, 1), L("pfix", 0, 100), L("u8", 0, 1), L("u16", 0, 1000), L("u64", 0, 1),
         L("nfix", 0, -1), L("i8", 0, 1), L("i8", 0, -1), L("i16", 0, -300), L("i32", 0, 1), L("i64", 0, -1),
         L("f32", 0, 1), L("f64", 0, 3), NaN64, L("f64", 2, 0), L("f64", 3, 0),
         L("fstr", 0, 1), L("nil", 0, 0), EmptyMap >>

XTrunc == Bad("trunc", NoDoc)                       \* an int16 cut after one payload byte
XTrail == Bad("trail", L("pfix", 0, 1))             \* positive fixint 1 followed by one more byte
XResv  == Bad("resv", NoDoc)                        \* the never-used code 0xc1
XShort == Bad("short", NoDoc)                       \* array header announcing 2 elements, 1 present
XEmpty == Bad("empty", NoDoc)                       \* zero bytes
XMapTr == Bad("maptrail", M1("x", L("pfix", 0, 1))) \* {x: 1} followed by one more byte
XMapSh == Bad("mapshort", NoDoc)                    \* map header announcing 2 entries, 1 present

\* op values
VP == << L("pfix", 0, 1), L("i16", 0, 5), L("u8", 0, 200), L("f64", 0, 3), NaN64, L("fstr", 0, 1), L("s8", 0, 1),
         L("nil", 0, 0), L("bool", 0, 1), L("tm4", 0, 0),
         EmptyMap, M1("x", L("pfix", 0, 1)), M2("x", L("i8", 0, 7), "z", L("fstr", 0, 1)), M1("m", M1("x", L("pfix", 0, 1))),
         ArrOf(<<>>), ArrOf(<<L("pfix", 0, 1)>>), ArrOf(<<L("pfix", 0, 1), L("i16", 0, 5)>>),
         XTrunc, XTrail, XResv, XShort, XEmpty, XMapTr, XMapSh >>

P1(a)       == PathOf(<<a>>)
P2(a, b)    == PathOf(<<a, b>>)
P3(a, b, c) == PathOf(<<a, b, c>>)
fd(n) == SegF(n)
ix(i) == SegI(i)

\* path shapes: field, nested field, missing, missing intermediate, through a leaf, index, negative
\* index, out of range, [] marker, wrong container kind, malformed strings (BadPath ids are rendered
\* by the driver: "", "a..b", ".a", "a.", "[0]", "t[", "t[x]", "t[*]", "#len", "t]")
PP == << P1(fd("n")), P1(fd("s")), P1(fd("m")), P1(fd("t")), P1(fd("z")),
         P2(fd("m"), fd("x")), P2(fd("m"), fd("y")), P2(fd("m"), fd("z")), P2(fd("z"), fd("w")), P3(fd("z"), fd("w"), fd("v")),
         P2(fd("n"), fd("x")), P2(fd("t"), fd("x")), P2(fd("m"), ix(0)), P2(fd("n"), ix(0)),
         P2(fd("t"), ix(0)), P2(fd("t"), ix(1)), P2(fd("t"), ix(2)), P2(fd("t"), ix(-1)), P2(fd("t"), ix(-3)),
         P2(fd("t"), ix(3)), P2(fd("t"), ix(-4)),
         P2(fd("t"), SegP), P2(fd("m"), SegP), P2(fd("n"), SegP), P2(fd("z"), SegP), P3(fd("z"), fd("w"), SegP), P3(fd("m"), fd("z"), SegP),
         P3(fd("t"), ix(0), SegP), P3(fd("t"), ix(1), SegP), P3(fd("t"), ix(0), fd("x")), P3(fd("t"), ix(1), ix(0)),
         P2(fd("z"), ix(0)), P3(fd("z"), ix(0), fd("x")), P3(fd("m"), fd("k"), fd("z")), P3(fd("m"), fd("k"), fd("q")),
         BadPath(1), BadPath(2), BadPath(3), BadPath(4), BadPath(5), BadPath(6), BadPath(7), BadPath(8), BadPath(9),
         BadPath(10), P3(fd("t"), SegP, fd("x")), P3(fd("z"), SegP, fd("x")) >>

\* bodies
T1(x) == MapOf(<<Fld("n", x), Fld("s", L("fstr", 0, 1)),
                 Fld("m", M2("x", L("i8", 0, 5), "y", L("s8", 0, 2))),
                 Fld("t", ArrOf(<<L("pfix", 0, 1), L("i16", 0, 5), L("pfix", 0, 1)>>))>>)
T2(x) == MapOf(<<Fld("t", ArrOf(<<x, L("fstr", 0, 1), x>>)), Fld("n", L("u8", 0, 200))>>)
T0    == EmptyMap
T3    == MapOf(<<Fld("m", M2("x", L("i8", 0, 5), "k", M1("z", NaN64))),
                 Fld("t", ArrOf(<<M1("x", L("pfix", 0, 1)), ArrOf(<<L("pfix", 0, 1), L("i16", 0, 5)>>), L("pfix", 0, 1)>>)),
                 Fld("n", L("i8", 0, 5))>>)
B3 == << T1(L("i8", 0, 5)), T0, T3 >>

K6 == << "SET", "INC", "APPEND", "PREPEND", "REMOVE_VAL", "MERGE" >>
K2 == << "DELETE", "REMOVE_AT" >>
Op(k, p, v) == [k |-> k, p |-> p, v |-> v]

\* every single op over a path pool P and a value pool V (value-less kinds once per path)
NOps(P, V) == 6 * Len(P) * Len(V) + 2 * Len(P)
OpAt(P, V, i) ==
  LET pv == Len(P) * Len(V) IN
  IF i <= 6 * pv
    THEN LET z == i - 1 IN Op(K6[(z \div pv) + 1], P[((z % pv) \div Len(V)) + 1], V[(z % Len(V)) + 1])
    ELSE LET z == i - 6 * pv - 1 IN Op(K2[(z \div Len(P)) + 1], P[(z % Len(P)) + 1], EmptyMap)

Set1(p, v)  == Op("SET", p, v)

\* F2: ops aimed at the leaf n of T1(L) and at its neighbours
F2Ops == [i \in 1..Len(DP) |-> Op("INC", P1(fd("n")), DP[i])] \o
         << Set1(P1(fd("n")), L("i16", 0, 5)), Set1(P1(fd("n")), EmptyMap), Set1(P2(fd("n"), fd("x")), L("pfix", 0, 1)),
            Op("DELETE", P1(fd("n")), EmptyMap), Op("DELETE", P1(fd("s")), EmptyMap),
            Op("MERGE", P1(fd("n")), M1("x", L("pfix", 0, 1))), Op("APPEND", P2(fd("n"), SegP), L("pfix", 0, 1)),
            Op("REMOVE_VAL", P1(fd("n")), L("pfix", 0, 1)), Op("REMOVE_AT", P2(fd("n"), ix(0)), EmptyMap),
            Op("INC", P2(fd("m"), fd("x")), L("i8", 0, 1)), Set1(P1(fd("z")), L("pfix", 0, 1)),
            Op("INC", P2(fd("z"), fd("w")), L("i16", 0, -300)), Op("PREPEND", P2(fd("t"), SegP), NaN64) >>

\* F3: ops on the elements of T2(L)
F3Ops == [i \in 1..Len(LP) |-> Op("REMOVE_VAL", P1(fd("t")), LP[i])] \o
         [i \in 1..Len(DP) |-> Op("INC", P2(fd("t"), ix(0)), DP[i])] \o
         [i \in 1..Len(DP) |-> Op("INC", P2(fd("t"), ix(-1)), DP[i])] \o
         << Set1(P2(fd("t"), ix(-1)), L("i16", 0, 5)), Op("REMOVE_AT", P2(fd("t"), ix(0)), EmptyMap),
            Op("REMOVE_AT", P2(fd("t"), ix(-1)), EmptyMap), Op("DELETE", P2(fd("t"), ix(1)), EmptyMap),
            Op("APPEND", P2(fd("t"), SegP), L("pfix", 0, 1)), Op("PREPEND", P2(fd("t"), SegP), M1("x", L("pfix", 0, 1))) >>

\* F7: a second op on the very node the first op rewrote in place (type code, class and kind of the node
\* are those of what the first op wrote)
F7A == << Set1(P1(fd("n")), L("i8", 0, 5)), Set1(P1(fd("n")), L("u16", 0, 300)), Set1(P1(fd("n")), L("f32", 0, 3)),
          Set1(P1(fd("n")), L("i64", 4, 0)), Set1(P1(fd("n")), L("fstr", 0, 1)), Set1(P1(fd("n")), L("pfix", 0, 5)),
          Op("INC", P1(fd("n")), L("pfix", 0, 1)), Op("INC", P1(fd("n")), L("i8", 0, 1)), Op("INC", P1(fd("n")), L("f64", 0, 3)),
          Op("INC", P1(fd("n")), L("i16", 0, -300)), Op("INC", P1(fd("n")), L("u16", 0, 1000)) >>
F7B == [i \in 1..Len(DP) |-> Op("INC", P1(fd("n")), DP[i])] \o
       << Op("DELETE", P1(fd("n")), EmptyMap), Set1(P1(fd("n")), L("nil", 0, 0)), Op("MERGE", P1(fd("n")), M1("x", L("pfix", 0, 1))),
          Op("REMOVE_VAL", P1(fd("n")), L("pfix", 0, 1)), Op("APPEND", P2(fd("n"), SegP), L("pfix", 0, 1)) >>

\* conditions
CK == << "EQ", "NE", "GT", "GE", "LT", "LE", "EX", "NX" >>
Cnd(op, p, th) == [op |-> op, p |-> p, th |-> th]
TH5 == LP \o << EmptyMap, ArrOf(<<L("pfix", 0, 1)>>) >>                       \* thresholds for F4
F4Conds == [i \in 1..(Len(CK) * Len(TH5)) |-> Cnd(CK[((i - 1) \div Len(TH5)) + 1], P1(fd("n")), TH5[((i - 1) % Len(TH5)) + 1])]
\* F5: condition path shapes
CP == << P1(fd("n")), P2(fd("m"), fd("x")), P1(fd("z")), P2(fd("z"), fd("w")), P1(fd("m")), P1(fd("t")), P2(fd("n"), fd("x")),
         P2(fd("t"), ix(0)), P2(fd("t"), ix(-1)), P2(fd("t"), ix(5)), P2(fd("t"), SegP), P2(fd("m"), ix(0)),
         P3(fd("m"), fd("k"), fd("z")), P3(fd("t"), ix(0), fd("x")), BadPath(1), BadPath(2), BadPath(5), BadPath(8),
         P3(fd("t"), SegP, fd("x")), P3(fd("z"), SegP, fd("x")) >>
TH6 == << L("i8", 0, 5), L("pfix", 0, 1), L("i16", 0, 5), L("f64", 0, 3), NaN64, L("fstr", 0, 1), L("nil", 0, 0), EmptyMap >>
F5Conds == [i \in 1..(Len(CK) * Len(CP) * Len(TH6)) |->
              LET z == i - 1  pt == Len(CP) * Len(TH6) IN
              Cnd(CK[(z \div pt) + 1], CP[((z % pt) \div Len(TH6)) + 1], TH6[(z % Len(TH6)) + 1])]
CondOps == << Set1(P1(fd("s")), L("s16", 0, 3)) >>                          \* what a met condition lets through

\* F6: op pairs.  Q1 = first ops that change the document, Q2 = second ops (no malformed value first:
\* a spliced malformed value makes the as-built document unparseable for the model of later ops)
VQ1 == << L("pfix", 0, 1), EmptyMap, M1("x", L("pfix", 0, 1)), M1("m", M1("x", L("pfix", 0, 1))), ArrOf(<<>>),
          ArrOf(<<L("pfix", 0, 1), L("i16", 0, 5)>>), ArrOf(<<M1("x", L("pfix", 0, 1))>>) >>
PQ1 == << P1(fd("n")), P1(fd("m")), P1(fd("t")), P1(fd("z")), P2(fd("z"), fd("w")), P2(fd("m"), fd("x")), P2(fd("m"), fd("z")),
          P2(fd("t"), ix(0)), P2(fd("t"), ix(-1)) >>
Q1 == [i \in 1..(Len(PQ1) * Len(VQ1)) |-> Set1(PQ1[((i - 1) \div Len(VQ1)) + 1], VQ1[((i - 1) % Len(VQ1)) + 1])] \o
      [i \in 1..Len(PQ1) |-> Op("DELETE", PQ1[i], EmptyMap)] \o
      [i \in 1..Len(VQ1) |-> Op("APPEND", P2(fd("t"), SegP), VQ1[i])] \o
      [i \in 1..Len(VQ1) |-> Op("PREPEND", P2(fd("z"), SegP), VQ1[i])] \o
      [i \in 1..Len(VQ1) |-> Op("APPEND", P3(fd("z"), fd("w"), SegP), VQ1[i])] \o
      << Op("MERGE", P1(fd("m")), M2("x", L("i8", 0, 7), "z", L("fstr", 0, 1))),
         Op("MERGE", P1(fd("m")), M1("k", M1("x", L("pfix", 0, 1)))),
         Op("MERGE", P1(fd("z")), M1("m", M1("x", L("pfix", 0, 1)))),
         Op("MERGE", P2(fd("z"), fd("w")), M1("t", ArrOf(<<L("pfix", 0, 1)>>))),
         Op("INC", P1(fd("n")), L("i8", 0, 1)), Op("INC", P1(fd("z")), L("pfix", 0, 1)), Op("INC", P2(fd("z"), fd("w")), L("i16", 0, -300)),
         Op("REMOVE_AT", P2(fd("t"), ix(0)), EmptyMap), Op("REMOVE_AT", P2(fd("t"), ix(-1)), EmptyMap),
         Op("REMOVE_VAL", P1(fd("t")), L("pfix", 0, 1)) >>
VQ2 == << L("pfix", 0, 1), L("i8", 0, 1), L("fstr", 0, 1), EmptyMap, M1("x", L("pfix", 0, 1)), M1("m", M1("x", L("pfix", 0, 1))),
          ArrOf(<<>>), ArrOf(<<L("pfix", 0, 1), L("i16", 0, 5)>>), XTrail, XShort >>
PQ2 == << P1(fd("n")), P1(fd("m")), P1(fd("t")), P1(fd("z")),
          P2(fd("m"), fd("x")), P2(fd("m"), fd("z")), P2(fd("z"), fd("w")), P2(fd("z"), fd("x")), P2(fd("m"), fd("m")), P2(fd("n"), fd("x")),
          P3(fd("z"), fd("w"), fd("v")), P3(fd("z"), fd("m"), fd("x")), P3(fd("z"), fd("w"), fd("t")), P3(fd("m"), fd("k"), fd("x")), P3(fd("m"), fd("m"), fd("x")),
          P2(fd("t"), ix(0)), P2(fd("t"), ix(1)), P2(fd("t"), ix(-1)), P2(fd("t"), ix(3)), P2(fd("z"), ix(0)), P2(fd("n"), ix(0)), P2(fd("m"), ix(0)),
          P2(fd("t"), SegP), P2(fd("z"), SegP), P2(fd("n"), SegP), P2(fd("m"), SegP), P3(fd("z"), fd("w"), SegP), P3(fd("t"), ix(-1), SegP),
          P3(fd("t"), ix(0), fd("x")), P3(fd("t"), ix(-1), fd("x")), P3(fd("z"), ix(0), fd("x")), P3(fd("z"), ix(-1), ix(0)),
          BadPath(2), P3(fd("z"), SegP, fd("x")) >>

-----------------------------------------------------------------------------
(* the case space: a case is (fam, b, i, j) *)

\* F0: one hand-picked witness per deviation / reading (also the smoke test of the quick tier)
Wit(body, ops, cond) == [body |-> body, ops |-> ops, cond |-> cond]
F0 == << Wit(T1(NaN64), CondOps, Cnd("EQ", P1(fd("n")), L("f64", 0, 3))),                         \* NaNEqual
         Wit(T1(L("f32", 0, 3)), CondOps, Cnd("GE", P1(fd("n")), NaN64)),                          \* NaNEqual (threshold)
         Wit(T1(L("i8", 0, 5)), <<Set1(P1(fd("n")), XTrail)>>, NoCond),                            \* MalformedValueSpliced
         Wit(T1(L("i8", 0, 5)), <<Op("APPEND", P2(fd("t"), SegP), XTrunc)>>, NoCond),
         Wit(T1(L("i8", 0, 5)), <<Set1(P1(fd("m")), M1("x", L("pfix", 0, 1))), Set1(P2(fd("m"), fd("y")), L("pfix", 0, 1))>>, NoCond),   \* OpaqueSplice
         Wit(T0, <<Set1(P1(fd("t")), ArrOf(<<>>)), Op("APPEND", P2(fd("t"), SegP), L("pfix", 0, 1))>>, NoCond),
         Wit(T3, <<Op("REMOVE_VAL", P1(fd("t")), M1("x", L("pfix", 0, 1)))>>, NoCond),             \* RemoveValSkipsContainers
         Wit(T1(L("i8", 0, 5)), <<Op("DELETE", P2(fd("t"), SegP), EmptyMap)>>, NoCond),            \* AppendMarkerNoop
         Wit(T0, <<Op("REMOVE_VAL", P3(fd("z"), SegP, fd("x")), L("pfix", 0, 1))>>, NoCond),
         Wit(T1(L("i8", 0, 127)), <<Op("INC", P1(fd("n")), L("i8", 0, 1))>>, NoCond),              \* IncOverflowWraps
         Wit(T1(L("pfix", 0, 5)), <<Op("INC", P1(fd("n")), L("pfix", 0, 1))>>, NoCond),            \* fixint target: 64-bit code
         Wit(T1(L("i8", 0, 5)), <<Op("MERGE", P1(fd("m")), XMapTr)>>, NoCond),                     \* LenientTrailing
         Wit(T1(L("i8", 0, 5)), <<Op("DELETE", P2(fd("t"), ix(7)), EmptyMap)>>, NoCond),           \* DeleteOobNoop
         Wit(T1(L("i8", 0, 5)), <<Set1(P2(fd("t"), ix(-1)), L("nil", 0, 0))>>, NoCond),            \* SetIndexRejected
         \* a node rewritten in place by an earlier op of the same patch keeps behaving as what it now is
         Wit(T1(L("i8", 0, 5)), <<Op("INC", P1(fd("n")), L("i8", 0, 1)), Op("INC", P1(fd("n")), L("i8", 0, 1))>>, NoCond),
         Wit(T1(L("i8", 0, 5)), <<Set1(P1(fd("n")), L("u16", 0, 300)), Op("INC", P1(fd("n")), L("u8", 0, 1))>>, NoCond),
         Wit(T1(L("fstr", 0, 1)), <<Set1(P1(fd("n")), L("f32", 0, 3)), Op("INC", P1(fd("n")), L("f64", 0, 3))>>, NoCond),
         Wit(T1(L("i8", 0, 5)), <<Set1(P2(fd("t"), ix(1)), L("i32", 0, 7)), Op("INC", P2(fd("t"), ix(1)), L("i8", 0, -1))>>, NoCond),
         Wit(T1(L("i8", 0, 5)), <<Set1(P1(fd("n")), L("s16", 0, 3)), Op("REMOVE_VAL", P1(fd("t")), L("pfix", 0, 1)),
                                  Op("INC", P2(fd("m"), fd("x")), L("i8", 0, 1)), Op("INC", P2(fd("m"), fd("x")), L("i16", 0, -300))>>, NoCond) >>

Fams == <<"F0", "F1", "F2", "F3", "F4", "F5", "F6", "F7">>
NB(fam) == CASE fam = "F0" -> 1 [] fam = "F1" -> Len(B3) [] fam = "F2" -> Len(LP) [] fam = "F3" -> Len(LP)
             [] fam = "F4" -> Len(LP) [] fam = "F5" -> Len(B3) [] fam = "F6" -> Len(B3) [] fam = "F7" -> Len(LP)
NI(fam) == CASE fam = "F0" -> Len(F0) [] fam = "F1" -> NOps(PP, VP) [] fam = "F2" -> Len(F2Ops) [] fam = "F3" -> Len(F3Ops)
             [] fam = "F4" -> Len(F4Conds) [] fam = "F5" -> Len(F5Conds) [] fam = "F6" -> Len(Q1) [] fam = "F7" -> Len(F7A)
NJ(fam) == IF fam = "F6" THEN NOps(PQ2, VQ2) ELSE IF fam = "F7" THEN Len(F7B) ELSE 1

BodyOf(fam, b, i) == CASE fam = "F0" -> F0[i].body [] fam \in {"F1", "F5", "F6"} -> B3[b]
                       [] fam \in {"F2", "F4", "F7"} -> T1(LP[b]) [] fam = "F3" -> T2(LP[b])
OpsOf(fam, i, j) == CASE fam = "F0" -> F0[i].ops
                      [] fam = "F1" -> <<OpAt(PP, VP, i)>> [] fam = "F2" -> <<F2Ops[i]>> [] fam = "F3" -> <<F3Ops[i]>>
                      [] fam \in {"F4", "F5"} -> CondOps
                      [] fam = "F6" -> <<Q1[i], OpAt(PQ2, VQ2, j)>>
                      [] fam = "F7" -> <<F7A[i], F7B[j]>>
CondOf(fam, i) == CASE fam = "F0" -> F0[i].cond [] fam = "F4" -> F4Conds[i] [] fam = "F5" -> F5Conds[i] [] OTHER -> NoCond

\* selection: per-family rate (per mille, 0 = family not selected), sharding and seeded sampling by a
\* hash of the indices (all products stay below 2^31)
RateOf(fam) == atoi(Env("GEN_RATE_" \o fam, "0"))
FamNo(fam) == CHOOSE k \in DOMAIN Fams : Fams[k] = fam
Mix(fam, b, i, j) == (i * 7919 + j * 10007 + b * 1299709 + FamNo(fam) * 611953 + Seed * 1299721) % 1000003
Selected(fam, b, i, j) ==
  IF OneB > 0 THEN fam = OneFam /\ b = OneB /\ i = OneI /\ j = OneJ
  ELSE /\ RateOf(fam) > 0
       /\ (i + 3 * j + 7 * b) % NShard = Shard
       /\ (RateOf(fam) >= 1000 \/ Mix(fam, b, i, j) % 1000 < RateOf(fam))
SelFams == {Fams[k] : k \in {n \in DOMAIN Fams : IF OneB > 0 THEN Fams[n] = OneFam ELSE RateOf(Fams[n]) > 0}}

=============================================================================
