---------------------------- MODULE PatchSwamp ----------------------------
(***************************************************************************)
(* The swamp-level entry of the structural patch: swamp.PatchFields as     *)
(* reached through the PatchTreasures RPC, for ONE key.  Transcribed from   *)
(* the comments of PatchTreasuresRequest / TreasurePatch / PatchMeta /      *)
(* PatchResult in proto/hydraide.proto and the status / metadata tables of  *)
(* docs/sdk/go/go-sdk.md (Field-Level Patches):                             *)
(*                                                                          *)
(*  - missing key, CreateIfNotExist = false           -> KEY_NOT_FOUND      *)
(*  - missing key, CreateIfNotExist = true: "an empty msgpack map (or       *)
(*    InitialMsgpackOnCreate, if set) is created and patched" -> CREATED;   *)
(*    "must be a msgpack-encoded map; non-map seeds yield TYPE_MISMATCH"    *)
(*  - existing msgpack body: patched -> PATCHED                             *)
(*  - "existing treasure is not a msgpack-encoded byte array"               *)
(*                                                -> ENCODING_NOT_SUPPORTED *)
(*  - CONDITION_NOT_MET / TYPE_MISMATCH / PATH_INVALID: nothing is applied  *)
(*    and nothing is created; metadata commits atomically with the body     *)
(*  - PatchMeta: UpdatedAt / UpdatedBy on every patched treasure; Created*  *)
(*    "apply only to treasures that are created in this call"; SetExpiredAt *)
(*    on created and existing treasures, "ignored when ClearExpiredAt is    *)
(*    true"; ClearExpiredAt resets to "never expires".                      *)
(*                                                                          *)
(* Timestamps are ranks (0 = never / unset, 1 < 2), identities are ids      *)
(* (0 = unset); uat / cat = 1 means "stamped by this call".                 *)
(***************************************************************************)
EXTENDS PatchCases

SwampDeviations == {"NonMapSeedAccepted"}   \* a seed that is not a map is stored when no op looks at the root
SwampReadings   == {"SeedCheckedAlways"}    \* an unusable seed is rejected even when the key exists (seed unused)

Key(k, body, exp) == [k |-> k, body |-> body, exp |-> exp, uby |-> 0, cby |-> 0, uat |-> 0, cat |-> 0]
KAbsent        == Key("absent", EmptyMap, 0)
KMsgpack(b, e) == Key("msgpack", b, e)       \* ByteArray value with the msgpack magic prefix
KRaw           == Key("rawbytes", EmptyMap, 0) \* ByteArray value without the prefix (e.g. GOB)
KStr           == Key("string", EmptyMap, 0)   \* a treasure of another content type

Meta(on, setExp, clr, uby, cby, uat, cat) == [on |-> on, setExp |-> setExp, clr |-> clr, uby |-> uby, cby |-> cby, uat |-> uat, cat |-> cat]
NoMeta == Meta(FALSE, 0, FALSE, 0, 0, FALSE, FALSE)
Req(create, seed, ops, cond, meta) == [create |-> create, seed |-> seed, ops |-> ops, cond |-> cond, meta |-> meta]

WithMeta(key, m, created) ==
  IF ~m.on THEN key
  ELSE [key EXCEPT !.exp = IF m.clr THEN 0 ELSE IF m.setExp # 0 THEN m.setExp ELSE @,
                   !.uby = IF m.uby # 0 THEN m.uby ELSE @,
                   !.uat = IF m.uat THEN 1 ELSE @,
                   !.cby = IF created /\ m.cby # 0 THEN m.cby ELSE @,
                   !.cat = IF created /\ m.cat THEN 1 ELSE @]

StatusOf(e) == {IF c = "tm" THEN "TYPE_MISMATCH" ELSE IF c = "enc" THEN "ENCODING_NOT_SUPPORTED" ELSE "PATH_INVALID" : c \in e}
AnyFailStatus == {"TYPE_MISMATCH", "PATH_INVALID", "ENCODING_NOT_SUPPORTED"}

SRes(status, after, t) == [status |-> status, after |-> after, t |-> t]

\* the patch proper, on the document `doc` that the key holds (or would hold)
Patched(S, key, doc, rq, created) ==
  LET r == ApplyS(S, doc, rq.ops, rq.cond) IN
  CASE r.st = "ok"   -> SRes({IF created THEN "CREATED" ELSE "PATCHED"},
                             WithMeta([key EXCEPT !.k = "msgpack", !.body = r.d], rq.meta, created), r.t)
    [] r.st = "cnm"  -> SRes({"CONDITION_NOT_MET"}, key, r.t)
    [] r.st = "fail" -> SRes(StatusOf(r.e), key, r.t)

PatchFieldsS(S, key, rq) ==
  LET badSeed == rq.create /\ rq.seed.k \notin {"N", "M"} IN     \* malformed or not a map
  CASE key.k = "absent" ->
         IF ~rq.create THEN SRes({"KEY_NOT_FOUND"}, key, {})
         ELSE IF rq.seed.k = "X" THEN SRes(AnyFailStatus, key, {})
         ELSE IF rq.seed.k = "N" THEN Patched(S, key, EmptyMap, rq, TRUE)
         ELSE IF rq.seed.k = "M" THEN Patched(S, key, rq.seed, rq, TRUE)
         ELSE IF "NonMapSeedAccepted" \in S
                THEN LET r == Patched(S, key, rq.seed, rq, TRUE) IN [r EXCEPT !.t = @ \cup {"NonMapSeedAccepted"}]
                ELSE SRes({"TYPE_MISMATCH"}, key, {"NonMapSeedAccepted"})
    [] key.k = "msgpack" ->
         IF badSeed /\ "SeedCheckedAlways" \in S THEN SRes(AnyFailStatus, key, {"SeedCheckedAlways"})
         ELSE LET r == Patched(S, key, key.body, rq, FALSE) IN
              IF badSeed THEN [r EXCEPT !.t = @ \cup {"SeedCheckedAlways"}] ELSE r
    [] key.k = "rawbytes" ->
         SRes({"ENCODING_NOT_SUPPORTED"} \cup (IF badSeed THEN AnyFailStatus ELSE {}), key, {})
    [] key.k = "string" ->
         \* proto: ENCODING_NOT_SUPPORTED "e.g. raw int8"; swamp_patch.go: TYPE_MISMATCH "not a ByteArray"
         SRes({"TYPE_MISMATCH", "ENCODING_NOT_SUPPORTED"} \cup (IF badSeed THEN AnyFailStatus ELSE {}), key, {})

\* anything but PATCHED / CREATED leaves the key exactly as it was (and creates nothing)
FailureLeavesKey(S, key, rq) ==
  LET r == PatchFieldsS(S, key, rq) IN
  (r.status \cap {"PATCHED", "CREATED"} = {}) => r.after = key
\* a key that exists afterwards holds a msgpack MAP (the patch primitive is defined on map bodies)
StoredIsMap(S, key, rq) ==
  LET r == PatchFieldsS(S, key, rq) IN
  (r.after.k = "msgpack") => (r.after.body.k = "M" /\ WellFormed(r.after.body))

-----------------------------------------------------------------------------
(* the case space of the swamp level: (state, create, seed, ops, cond, meta) *)

SKeys  == << KAbsent, KMsgpack(T1(L("i8", 0, 5)), 0), KMsgpack(T1(L("i8", 0, 5)), 1), KRaw, KStr >>
SSeeds == << NoDoc, M1("a", L("pfix", 0, 1)), ArrOf(<<L("pfix", 0, 1)>>), L("pfix", 0, 5), XTrunc, XMapTr >>
SOps   == << <<>>,
             <<Set1(P1(fd("n")), L("i16", 0, 5))>>,
             <<Op("INC", P1(fd("n")), L("i8", 0, 1))>>,
             <<Op("INC", P1(fd("s")), L("i8", 0, 1))>>,
             <<Set1(P2(fd("t"), ix(9)), L("pfix", 0, 1))>>,
             <<Set1(P1(fd("n")), XTrunc)>>,
             <<Op("DELETE", P1(fd("z")), EmptyMap)>> >>
SConds == << NoCond, Cnd("EX", P1(fd("n")), EmptyMap), Cnd("NX", P1(fd("n")), EmptyMap), Cnd("EQ", P1(fd("n")), L("i8", 0, 5)) >>
SMetas == << NoMeta, Meta(TRUE, 2, FALSE, 0, 0, FALSE, FALSE), Meta(TRUE, 0, TRUE, 0, 0, FALSE, FALSE),
             Meta(TRUE, 2, TRUE, 0, 0, FALSE, FALSE), Meta(TRUE, 0, FALSE, 1, 0, TRUE, FALSE),
             Meta(TRUE, 0, FALSE, 0, 1, FALSE, TRUE), Meta(TRUE, 1, FALSE, 1, 1, TRUE, TRUE) >>

NS == Len(SKeys) * 2 * Len(SSeeds) * Len(SOps) * Len(SConds) * Len(SMetas)
\* case number n (1..NS) -> indices, mixed radix
Dig(n, below, radix) == ((n - 1) \div below) % radix
SKeyOf(n)  == SKeys[Dig(n, 1, Len(SKeys)) + 1]
SReqOf(n)  ==
  LET b1 == Len(SKeys)  b2 == b1 * 2  b3 == b2 * Len(SSeeds)  b4 == b3 * Len(SOps)  b5 == b4 * Len(SConds) IN
  Req(Dig(n, b1, 2) = 1, SSeeds[Dig(n, b2, Len(SSeeds)) + 1], SOps[Dig(n, b3, Len(SOps)) + 1],
      SConds[Dig(n, b4, Len(SConds)) + 1], SMetas[Dig(n, b5, Len(SMetas)) + 1])
SSelected(n) == IF OneB > 0 THEN OneFam = "S1" /\ n = OneI
                ELSE /\ RateOf("S1") > 0 /\ n % NShard = Shard
                     /\ (RateOf("S1") >= 1000 \/ ((n * 7919 + Seed * 1299721) % 1000003) % 1000 < RateOf("S1"))
=============================================================================
