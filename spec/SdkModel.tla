------------------------------ MODULE SdkModel ------------------------------
(***************************************************************************)
(* Save / read round trip of a Go SDK model (C22):                         *)
(*   encode  sdk/go/hydraidego/conversions.go                              *)
(*           convertCatalogModelToKeyValuePair, conversions_mapbody.go     *)
(*   store   app/server/gateway/gateway.go keyValuesToTreasure (one        *)
(*           content per treasure: a typed value wins over bytes) and      *)
(*           treasureToKeyValuePair                                        *)
(*   decode  conversions.go convertProtoTreasureToCatalogModel             *)
(*   profile hydraidego.go convertProfileModelToKeyValuePair /             *)
(*           setTreasureValueToProfileModel (one treasure per struct field,*)
(*           keyed by the Go field NAME; tags only carry omitempty)        *)
(*                                                                         *)
(* A model is a sequence of fields [head, om, ty, val]:                    *)
(*   head  the first element of the `hydraide:"..."` tag                   *)
(*   om    1 iff the tag carries ",omitempty"                              *)
(*   ty    "S" string, "I" int64, "L" []string, "T" time.Time              *)
(*   val   a token: "z" the zero value, "k" the record key, "v<i>" the     *)
(*         non-zero value given to field i (different for every field, so  *)
(*         a value that leaks from one field into another is visible); the *)
(*         driver concretises "v<i>" with several representatives of the   *)
(*         type (ordinary and boundary values)                             *)
(* Catalog models: field 1 is the key field.  Reserved heads (exact):      *)
(* key, value, expireAt, createdAt, createdBy, updatedAt, updatedBy; every *)
(* other head names a field of the msgpack map body.                       *)
(*                                                                         *)
(* The round trip is a little state machine  model -> wire -> stored ->    *)
(* read ; the property is that the read model equals the saved one.        *)
(*                                                                         *)
(* Dev: "SubstringTags"  encoder and decoder recognise reserved tags by    *)
(*      strings.Contains instead of comparing the tag head: a body field   *)
(*      whose name CONTAINS a reserved word is also treated as that        *)
(*      reserved slot (Sub gives, for the heads the generator uses, the    *)
(*      reserved words they contain).                                      *)
(*      "NilBodyField"  a body field stored as msgpack nil (a nil slice    *)
(*      saved without omitempty) makes the decoder fail (EOF): the record  *)
(*      cannot be read back.                                               *)
(***************************************************************************)
EXTENDS Integers, Sequences, FiniteSets, TLC

CONSTANTS Dev          \* subset of {"SubstringTags", "NilBodyField"}

Reserved  == {"key", "value", "expireAt", "createdAt", "createdBy", "updatedAt", "updatedBy"}
TimeSlots == {"expireAt", "createdAt", "updatedAt"}
BySlots   == {"createdBy", "updatedBy"}
\* the order in which the code tests the metadata tags
MetaOrder == <<"expireAt", "createdBy", "createdAt", "updatedBy", "updatedAt">>

\* reserved words contained in a tag head (strings.Contains), for every head the generators use
Sub(h) ==
  CASE h \in Reserved       -> {h}
    [] h = "keywords"       -> {"key"}
    [] h = "monkey"         -> {"key"}
    [] h = "values"         -> {"value"}
    [] h = "createdAtX"     -> {"createdAt"}
    [] h = "updatedByWho"   -> {"updatedBy"}
    [] OTHER                -> {}

Substr(dev) == "SubstringTags" \in dev
NilBody(dev) == "NilBodyField" \in dev
Zero(v) == v = "z"

\* --------------------------------------------------------------------------- roles of a field
FirstMeta(S) ==
  LET hit == {i \in DOMAIN MetaOrder : MetaOrder[i] \in S}
  IN IF hit = {} THEN {} ELSE {MetaOrder[CHOOSE i \in hit : \A j \in hit : i <= j]}

\* what the ENCODER does with a field
EncRoles(dev, f) ==
  IF ~Substr(dev) THEN {IF f.head \in Reserved THEN f.head ELSE "body"}
  ELSE IF f.head = "key" THEN {"key"}
  ELSE ({"value"} \cap Sub(f.head)) \cup FirstMeta(Sub(f.head))
       \cup (IF f.head \in Reserved THEN {} ELSE {"body"})

\* what the DECODER does with a field after the body has been decoded: the first matching test wins
DecRole(dev, f) ==
  IF ~Substr(dev) THEN (IF f.head \in Reserved THEN f.head ELSE "body")
  ELSE IF "key" \in Sub(f.head) THEN "key"
  ELSE IF "value" \in Sub(f.head) THEN "value"
  ELSE IF FirstMeta(Sub(f.head)) # {} THEN CHOOSE r \in FirstMeta(Sub(f.head)) : TRUE
  ELSE "body"

IsBodyField(f) == f.head \notin Reserved

\* --------------------------------------------------------------------------- wire (KeyValuePair)
NoBody == [h \in {} |-> "z"]
EmptyKV == [key |-> "z", typed |-> <<>>, one |-> "z", hasOne |-> FALSE, body |-> NoBody, hasBody |-> FALSE,
            expireAt |-> "z", createdAt |-> "z", createdBy |-> "z", updatedAt |-> "z", updatedBy |-> "z", err |-> FALSE]

\* the `value` branch: a typed value, or encoded bytes for a slice
EncValue(kv, f) ==
  IF f.om = 1 /\ Zero(f.val) THEN kv
  ELSE IF f.ty \in {"S", "I"} THEN [kv EXCEPT !.typed = <<f.ty, f.val>>]
  ELSE IF f.ty = "L" THEN [kv EXCEPT !.one = f.val, !.hasOne = TRUE]
  ELSE IF Zero(f.val) THEN kv ELSE [kv EXCEPT !.typed = <<"I", f.val>>]    \* time.Time -> unix seconds

EncMeta(kv, f, slot) ==
  IF f.om = 1 /\ Zero(f.val) THEN kv
  ELSE IF slot \in TimeSlots THEN
         IF f.ty # "T" \/ Zero(f.val) THEN [kv EXCEPT !.err = TRUE]      \* "must be a (non-zero) time.Time"
         ELSE [kv EXCEPT ![slot] = f.val]
  ELSE IF f.ty # "S" THEN [kv EXCEPT !.err = TRUE]                        \* "must be a string"
  ELSE IF Zero(f.val) THEN kv ELSE [kv EXCEPT ![slot] = f.val]

EncField(dev, kv, f) ==
  LET R  == EncRoles(dev, f)
      k1 == IF "key" \in R THEN (IF f.ty = "S" /\ ~Zero(f.val) THEN [kv EXCEPT !.key = f.val] ELSE [kv EXCEPT !.err = TRUE]) ELSE kv
      k2 == IF "value" \in R THEN EncValue(k1, f) ELSE k1
      ms == R \cap (TimeSlots \cup BySlots)
  IN IF ms = {} THEN k2 ELSE EncMeta(k2, f, CHOOSE s \in ms : TRUE)

RECURSIVE EncFields(_, _, _, _)
EncFields(dev, kv, m, i) == IF i > Len(m) THEN kv ELSE EncFields(dev, EncField(dev, kv, m[i]), m, i + 1)

\* the map body: every body field that is not (omitempty and empty); it replaces any bytes set before
EncodeCatalog(dev, m) ==
  LET kv  == EncFields(dev, EmptyKV, m, 1)
      inc == {i \in DOMAIN m : IsBodyField(m[i]) /\ ~(m[i].om = 1 /\ Zero(m[i].val))}
      bd  == [h \in {m[i].head : i \in inc} |-> (m[CHOOSE i \in inc : m[i].head = h]).val]
  IN IF inc = {} THEN kv ELSE [kv EXCEPT !.body = bd, !.hasBody = TRUE, !.hasOne = FALSE, !.one = "z"]

\* --------------------------------------------------------------------------- server: one content per treasure
\* keyValuesToTreasure: a typed value has precedence over bytes; then void
Store(kv) ==
  [key |-> kv.key,
   kind |-> IF kv.typed # <<>> THEN "typed" ELSE IF kv.hasBody THEN "body" ELSE IF kv.hasOne THEN "one" ELSE "void",
   typed |-> kv.typed,
   one |-> IF kv.typed = <<>> /\ ~kv.hasBody THEN kv.one ELSE "z",
   body |-> IF kv.typed = <<>> /\ kv.hasBody THEN kv.body ELSE NoBody,
   expireAt |-> kv.expireAt, createdAt |-> kv.createdAt, createdBy |-> kv.createdBy,
   updatedAt |-> kv.updatedAt, updatedBy |-> kv.updatedBy]

\* --------------------------------------------------------------------------- decode
\* result of one field: a token, or "PANIC" / "ERR"
DecField(dev, tr, f) ==
  LET base == IF IsBodyField(f) /\ tr.kind = "body" /\ f.head \in DOMAIN tr.body THEN tr.body[f.head] ELSE "z"
      r == DecRole(dev, f)
  IN CASE NilBody(dev) /\ IsBodyField(f) /\ tr.kind = "body" /\ f.head \in DOMAIN tr.body /\ f.ty = "L" /\ Zero(tr.body[f.head])
                      -> "BODYERR"                                                \* msgpack nil: "decode map-body field: EOF"
       [] r = "key"   -> IF f.ty = "S" THEN tr.key ELSE "PANIC"                  \* reflect SetString on a non-string
       [] r = "value" -> CASE tr.kind = "typed" -> IF tr.typed[1] = f.ty \/ (tr.typed[1] = "I" /\ f.ty = "T")   \* unix seconds -> time
                                                     THEN tr.typed[2] ELSE base
                           [] tr.kind = "one"   -> IF f.ty = "L" THEN tr.one ELSE base
                           [] tr.kind = "body"  -> IF f.ty = "L" THEN "ERR" ELSE base   \* a map is not a slice
                           [] OTHER             -> base
       [] r \in TimeSlots -> IF Zero(tr[r]) THEN base ELSE IF f.ty = "T" THEN tr[r] ELSE "PANIC"
       [] r \in BySlots   -> IF Zero(tr[r]) THEN base ELSE IF f.ty = "S" THEN tr[r] ELSE "PANIC"
       [] OTHER -> base

DecodeCatalog(dev, tr, m) ==
  LET out == [i \in DOMAIN m |-> DecField(dev, tr, m[i])]
      bad == {i \in DOMAIN m : out[i] \in {"PANIC", "ERR"}}
  IN IF \E i \in DOMAIN m : out[i] = "BODYERR" THEN [read |-> "err", out |-> <<>>]    \* the body is decoded first
     ELSE IF bad = {} THEN [read |-> "ok", out |-> out]
     ELSE LET b == CHOOSE i \in bad : \A j \in bad : i <= j
          IN [read |-> IF out[b] = "PANIC" THEN "panic" ELSE "err", out |-> <<>>]

\* --------------------------------------------------------------------------- profile models
\* one treasure per field, keyed by the field name (its position here); tags only carry omitempty
EncodeProfile(m) == [i \in {j \in DOMAIN m : ~(m[j].om = 1 /\ Zero(m[j].val))} |-> m[i].val]
DecodeProfile(st, m) == [read |-> "ok", out |-> [i \in DOMAIN m |-> IF i \in DOMAIN st THEN st[i] ELSE "z"]]

\* --------------------------------------------------------------------------- the whole round trip as a function
NoRead == [read |-> "none", out |-> <<>>]
\* a profile in which every field is empty and omitempty has nothing to save: the server refuses the empty request
NothingToSave(m) == \A i \in DOMAIN m : m[i].om = 1 /\ Zero(m[i].val)
OutcomeDev(dev, kind, m) ==
  IF kind = "profile"
    THEN IF NothingToSave(m) THEN [save |-> "err"] @@ NoRead
         ELSE [save |-> "ok"] @@ DecodeProfile(EncodeProfile(m), m)
    ELSE LET kv == EncodeCatalog(dev, m)
         IN IF kv.err THEN [save |-> "err"] @@ NoRead
            ELSE [save |-> "ok"] @@ DecodeCatalog(dev, Store(kv), m)
Outcome(kind, m) == OutcomeDev(Dev, kind, m)

\* --------------------------------------------------------------------------- a catalog holds many records
\* The swamp is a map from key to treasure.  A SIBLING record - the same model under another key ("k2"; the
\* driver makes it differ from the main key only by white space or case) - is saved first, then the model
\* itself; then both are read by their own keys.  Keys are opaque strings: nothing on the way may normalise
\* them, so the two records neither collide nor change their keys.
SibKey == "k2"
Sib(m) == [m EXCEPT ![1].val = SibKey]
SaveInto(st, kv) == [k \in DOMAIN st \cup {kv.key} |-> IF k = kv.key THEN Store(kv) ELSE st[k]]
ReadFrom(dev, st, key, m) ==
  IF key \in DOMAIN st THEN [save |-> "ok"] @@ DecodeCatalog(dev, st[key], m)
  ELSE [save |-> "ok", read |-> "err", out |-> <<>>]                       \* key not found
PairOutcome(dev, m) ==
  LET a == EncodeCatalog(dev, Sib(m))
      b == EncodeCatalog(dev, m)
      st == SaveInto(SaveInto(<<>>, a), b)
  IN IF a.err \/ b.err THEN [main |-> [save |-> "err"] @@ NoRead, sib |-> [save |-> "err"] @@ NoRead]
     ELSE [main |-> ReadFrom(dev, st, "k", m), sib |-> ReadFrom(dev, st, SibKey, Sib(m))]
\* both records read back as if they had been alone (the sibling's key token is "k2" in its own result)
RecordsIndependentFor(m) ==
  LET p == PairOutcome(Dev, m)
      alone == OutcomeDev(Dev, "catalog", m)
  IN /\ p.main = alone
     /\ p.sib.save = alone.save /\ p.sib.read = alone.read
     /\ alone.read = "ok" => p.sib.out = [i \in DOMAIN m |-> IF alone.out[i] = "k" THEN SibKey ELSE alone.out[i]]

\* what the property demands: the model that was saved (values the documentation rejects excepted)
Rejected(kind, m) ==
  \/ kind = "catalog" /\ \E i \in DOMAIN m : m[i].head \in TimeSlots /\ m[i].om = 0 /\ Zero(m[i].val)
  \/ kind = "profile" /\ NothingToSave(m)
Expected(kind, m) ==
  IF Rejected(kind, m) THEN [save |-> "err"] @@ NoRead
  ELSE [save |-> "ok", read |-> "ok", out |-> [i \in DOMAIN m |-> m[i].val]]

\* models the SDK accepts
Heads(m) == {m[i].head : i \in DOMAIN m}
AcceptedCatalog(m) ==
  /\ Len(m) >= 1 /\ m[1] = [head |-> "key", om |-> 0, ty |-> "S", val |-> "k"]
  /\ \A i, j \in DOMAIN m : i # j => m[i].head # m[j].head
  /\ \A i \in DOMAIN m :
        /\ m[i].head \in TimeSlots => m[i].ty = "T"
        /\ m[i].head \in BySlots => m[i].ty = "S"
        /\ m[i].head = "value" => m[i].ty \in {"S", "I", "L", "T"}
  /\ ~("value" \in Heads(m) /\ \E i \in DOMAIN m : IsBodyField(m[i]))       \* shapes are exclusive

-----------------------------------------------------------------------------
(* The round trip as a state machine (one behaviour per model). *)
VARIABLES stage, mdl, wire, stored, result
vars == <<stage, mdl, wire, stored, result>>

\* M = the set of <<kind, model>> to explore
InitWith(M) ==
  /\ mdl \in M
  /\ stage = "model" /\ wire = EmptyKV /\ stored = Store(EmptyKV) /\ result = NoRead

EncodeStep ==
  /\ stage = "model" /\ mdl[1] = "catalog"
  /\ wire' = EncodeCatalog(Dev, mdl[2])
  /\ stage' = IF wire'.err THEN "rejected" ELSE "wire"
  /\ UNCHANGED <<mdl, stored, result>>
StoreStep ==
  /\ stage = "wire"
  /\ stored' = Store(wire) /\ stage' = "stored"
  /\ UNCHANGED <<mdl, wire, result>>
DecodeStep ==
  /\ stage = "stored"
  /\ result' = DecodeCatalog(Dev, stored, mdl[2]) /\ stage' = "read"
  /\ UNCHANGED <<mdl, wire, stored>>
ProfileStep ==
  /\ stage = "model" /\ mdl[1] = "profile"
  /\ IF NothingToSave(mdl[2]) THEN result' = result /\ stage' = "rejected"
     ELSE result' = DecodeProfile(EncodeProfile(mdl[2]), mdl[2]) /\ stage' = "read"
  /\ UNCHANGED <<mdl, wire, stored>>

Next == EncodeStep \/ StoreStep \/ DecodeStep \/ ProfileStep

\* C22: saving and reading back yields an equal model
RoundTrip ==
  /\ stage = "read" => ([save |-> "ok"] @@ result) = Expected(mdl[1], mdl[2])
  /\ stage = "rejected" => Rejected(mdl[1], mdl[2])
\* the step-wise computation is the function Outcome (used by the case generator)
StepsAreOutcome == stage = "read" => ([save |-> "ok"] @@ result) = Outcome(mdl[1], mdl[2])
\* the server keeps what the wire carries: no accepted model puts a typed value AND a body on the wire
OneContent == stage = "wire" => ~(wire.typed # <<>> /\ (wire.hasBody \/ wire.hasOne))

\* a field's tag name never changes how another part of the model is encoded or decoded: renaming a body
\* field to another non-reserved name leaves every other field's result (and the outcome) unchanged
Rename(m, i, h) == [m EXCEPT ![i].head = h]
TagIsolationFor(kind, m, OtherNames) ==
  \A i \in DOMAIN m : \A h \in OtherNames :
     (IsBodyField(m[i]) /\ h \notin Heads(m)) =>
        LET a == Outcome(kind, m)
            b == Outcome(kind, Rename(m, i, h))
        IN /\ a.save = b.save /\ a.read = b.read
           /\ a.read = "ok" => \A j \in DOMAIN m : j # i => a.out[j] = b.out[j]
=============================================================================
