------------------------------ MODULE Settings ------------------------------
(***************************************************************************)
(* Resolution of swamp settings from registered patterns                   *)
(* (app/core/settings/settings.go RegisterPattern / DeregisterPattern /    *)
(*  GetBySwampName / loadSettingsFromFilesystem, app/name ComparePattern). *)
(*                                                                         *)
(* A pattern and a swamp name are triples <<sanctuary, realm, swamp>>; in  *)
(* a pattern the realm and/or the swamp part may be the wildcard "*".      *)
(* A setting is <<inMemory (0/1), idleSec, writeIntervalSec, maxFileSize>>.*)
(*                                                                         *)
(* State: mem  = the running server's pattern table (pattern -> setting),  *)
(*        disk = what settings.json holds,                                 *)
(*        memo = every resolution observed so far: set of registered       *)
(*               patterns -> name -> set of patterns that were applied.    *)
(* C21 demands that the resolution is a FUNCTION of (set of patterns,      *)
(* name): memo is never reset - not by a restart, not when a fresh server  *)
(* registers the same set in another order - and a strict Lookup must      *)
(* agree with it.                                                          *)
(*                                                                         *)
(* Dev: "MapOrderLookup"  GetBySwampName returns the first match of a Go   *)
(*      map iteration: any matching pattern, not necessarily the same one  *)
(*      next time.                                                         *)
(***************************************************************************)
EXTENDS Integers, Sequences, FiniteSets, TLC

CONSTANTS Sancts,     \* sanctuary names                     (model checking / generation only)
          Parts,      \* realm / swamp part names            (model checking / generation only)
          SetIds,     \* settings a registration may carry   (model checking only)
          MaxOps,     \* bound on the number of calls        (model checking only)
          Dev         \* subset of {"MapOrderLookup"}

VARIABLES mem, disk, memo, ops
vars == <<mem, disk, memo, ops>>

Star == "*"
Patterns == {<<s, r, w>> : s \in Sancts, r \in Parts \cup {Star}, w \in Parts \cup {Star}}
Names    == {<<s, r, w>> : s \in Sancts, r \in Parts, w \in Parts}

\* name.ComparePattern: the sanctuary must be equal, realm and swamp are equal or "*" in the pattern
Matches(n, p) ==
  /\ n[1] = p[1]
  /\ (p[2] = Star \/ p[2] = n[2])
  /\ (p[3] = Star \/ p[3] = n[3])

\* p is strictly more specific than q: p # q and every name p matches is matched by q
MoreSpecific(p, q) ==
  /\ p # q
  /\ p[1] = q[1]
  /\ (q[2] = Star \/ q[2] = p[2])
  /\ (q[3] = Star \/ q[3] = p[3])

Matching(n, P) == {p \in P : Matches(n, p)}
\* the most specific matches: a realm-only and a swamp-only wildcard pattern are incomparable, so
\* there can be two; the property then still demands that the same one is used every time
Maximal(n, P)  == {p \in Matching(n, P) : ~ \E q \in Matching(n, P) : MoreSpecific(q, p)}

\* what the caller sees of a setting: write interval and file size are "only used if InMemory is false"
Eff(s) == IF s[1] = 1 THEN <<1, s[2], 0, 0>> ELSE s
\* GetBySwampName without a match: the name itself, persistent, 5 s idle, 1 s write interval, 64 KiB
DefaultSet == <<0, 5, 1, 65536>>
Res(p)        == [pat |-> p, set |-> Eff(mem[p])]
DefaultRes(n) == [pat |-> n, set |-> DefaultSet]

NoPatterns == [q \in {} |-> <<>>]
NoMemo     == [P \in {} |-> <<>>]

Init ==
  /\ mem = NoPatterns /\ disk = NoPatterns
  /\ memo = NoMemo /\ ops = 0

\* RegisterPattern: the last registration of a pattern carries its settings; persisted at once
Register(p, s) ==
  /\ mem'  = [q \in DOMAIN mem \cup {p} |-> IF q = p THEN s ELSE mem[q]]
  /\ disk' = [q \in DOMAIN disk \cup {p} |-> IF q = p THEN s ELSE disk[q]]
  /\ ops' = ops + 1 /\ UNCHANGED memo

Deregister(p) ==
  /\ mem'  = [q \in DOMAIN mem \ {p} |-> mem[q]]
  /\ disk' = [q \in DOMAIN disk \ {p} |-> disk[q]]
  /\ ops' = ops + 1 /\ UNCHANGED memo

\* settings.New on the same root
Restart ==
  /\ mem' = disk
  /\ ops' = ops + 1 /\ UNCHANGED <<disk, memo>>

\* R = the set of distinct results of one or more GetBySwampName(n) calls in the current state
LookupOK(n, R) ==
  LET P == DOMAIN mem
      M == Matching(n, P)
  IN /\ R # {}
     /\ IF M = {} THEN R = {DefaultRes(n)}
        ELSE IF "MapOrderLookup" \in Dev
             THEN R \subseteq {Res(p) : p \in M}
             ELSE /\ \E p \in Maximal(n, P) : R = {Res(p)}
                  /\ (P \in DOMAIN memo /\ n \in DOMAIN memo[P]) => {r.pat : r \in R} = memo[P][n]

MergeObs(f, g) ==
  [n \in DOMAIN f \cup DOMAIN g |->
     (IF n \in DOMAIN f THEN f[n] ELSE {}) \cup (IF n \in DOMAIN g THEN g[n] ELSE {})]

\* B = set of <<name, set of results>> (one entry per name), all looked up in the current state
LookupBatch(B) ==
  /\ \A b \in B : LookupOK(b[1], b[2])
  /\ LET P == DOMAIN mem
         new == [n \in {b[1] : b \in B} |-> UNION {{r.pat : r \in b[2]} : b \in {c \in B : c[1] = n}}]
     IN memo' = IF P \in DOMAIN memo
                  THEN [memo EXCEPT ![P] = MergeObs(@, new)]
                  ELSE [Q \in DOMAIN memo \cup {P} |-> IF Q = P THEN new ELSE memo[Q]]
  /\ ops' = ops + 1 /\ UNCHANGED <<mem, disk>>

Lookup(n, r) == LookupBatch({<<n, {r}>>})

Candidates(n) ==
  LET M == Matching(n, DOMAIN mem) IN IF M = {} THEN {DefaultRes(n)} ELSE {Res(p) : p \in M}

Next ==
  \/ \E p \in Patterns, s \in SetIds : Register(p, s)
  \/ \E p \in DOMAIN mem : Deregister(p)
  \/ Restart
  \/ \E n \in Names : \E r \in Candidates(n) : Lookup(n, r)

Spec == Init /\ [][Next]_vars
Bounded == ops <= MaxOps

-----------------------------------------------------------------------------
(* Properties (C21) *)

\* the pattern that applies is a function of the set of registered patterns and the name:
\* same across lookups, registration orders (memo is keyed by the set), re-registration, restarts
Functional == \A P \in DOMAIN memo : \A n \in DOMAIN memo[P] : Cardinality(memo[P][n]) = 1

\* the most specific matching pattern wins; the default applies only when nothing matches
MostSpecific ==
  \A P \in DOMAIN memo : \A n \in DOMAIN memo[P] :
     IF Matching(n, P) = {} THEN memo[P][n] = {n} ELSE memo[P][n] \subseteq Maximal(n, P)

\* the same settings apply again after a restart
Persisted == mem = disk

=============================================================================
