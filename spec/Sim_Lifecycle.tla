--------------------------- MODULE Sim_Lifecycle ---------------------------
(* Lifecycle with the schedule taken so far as a history variable (outside the VIEW), exported as JSON for
   the conformance driver: witnesses of the deviations and sampled as-built behaviours. *)
EXTENDS MC_Lifecycle, Json, TLCExt

CONSTANTS WantUsed     \* witness search: the exact set of deviations that must have made the difference

VARIABLE hist
mcvars == <<vars, hist>>

KeysOf(f) == {k \in Keys : f[k] # NoObj}

\* projected state the driver can observe on the real code
Proj ==
  [map |-> map, shut |-> shut, file |-> file, fexists |-> fexists,
   inst |-> [i \in Inst |-> [alive |-> I[i].alive, closing |-> I[i].closing, vigils |-> I[i].vigils,
                             cancelled |-> I[i].cancelled, dead |-> I[i].dead, idle |-> I[i].idle,
                             wactive |-> I[i].wactive,
                             mem |-> KeysOf(I[i].mem), wait |-> KeysOf(I[i].waiting)]],
   pc |-> pc, ref |-> ref,
   lp |-> [i \in Inst |-> cpc[Lc(i)]], wp |-> [i \in Inst |-> cpc[Wc(i)]], sp |-> cpc[Sc],
   lidle |-> lidle, res |-> res, used |-> used]

MCInit == Init /\ hist = <<>>
MCNext == Next /\ hist' = Append(hist, [a |-> last'.a, p |-> last'.p, i |-> last'.i,
                                        o |-> IF last'.a = "RSummon" THEN op'[last'.p] ELSE [op |-> "", k |-> ""],
                                        st |-> Proj'])
MCSpec == MCInit /\ [][MCNext]_mcvars

Summary == [hist |-> hist, durable |-> Durable, used |-> used, res |-> res, ops |-> op, file |-> file,
            allowed |-> [k \in Keys |-> Allowed(k)], initkeys |-> InitKeys]

\* violated by (and prints) a shortest complete behaviour in which exactly the deviations WantUsed caused a loss
NoWitness == ~(Terminal /\ ~Durable /\ used = WantUsed /\ PrintT(ToJson(Summary)))

\* disabled-action probes: shortest behaviours into a state in which the specification does NOT allow a step the
\* code could be tempted to take; the driver fires that step on the real code and must see it block.
\*   summon: the swamp is in the map with its closing flag up (a Destroy is draining) and r2 has not called yet:
\*           RSummon(r2) is disabled - SummonSwamp must wait in WaitForGracefulClose
\*   drain:  a Destroy stands before its vigil drain while another request holds a vigil: RDDrain is disabled
ProbeSummon == /\ pc["r2"] = "idle" /\ pc["r1"] = "d_drain" /\ map # 0 /\ I[map].closing = 1 /\ ~I[map].cancelled
ProbeDrain  == /\ pc["r1"] = "d_drain" /\ I[ref["r1"]].vigils > 0 /\ pc["r2"] = "op" /\ ref["r2"] = ref["r1"] /\ op["r2"].op = "set"
NoProbeSummon == ~(ProbeSummon /\ PrintT(ToJson(Summary)))
NoProbeDrain  == ~(ProbeDrain /\ PrintT(ToJson(Summary)))

\* simulation: print every complete behaviour (always true)
ExportTerminal == Terminal => PrintT(ToJson(Summary))
=============================================================================
