------------------------------- MODULE Summon -------------------------------
(***************************************************************************)
(* Hydra.SummonSwamp for ONE swamp name (app/core/hydra/hydra.go):         *)
(* the per-name waiter ("slot": mutex + condition variable + ready flag +  *)
(* count) kept in the summoningSwamps map, the swamps map, and the life of *)
(* the in-memory swamp instances (created by a summoner, closed by the     *)
(* idle close / shutdown / Destroy, removed from the map by the close      *)
(* callback).                                                              *)
(*                                                                         *)
(* C18: at most one live instance; a request is served by the current one. *)
(* C17: every summon terminates - waiting for the slot (cond.Wait, the     *)
(*      waiter mutex) and waiting for a closing swamp both end; a summoner *)
(*      whose context is cancelled leaves the wait loop and leaves the     *)
(*      mutex free.                                                        *)
(*                                                                         *)
(* One action = the code between two points the harness controls or        *)
(* observes (verifhook gates `hydra.summon.*`, the waiter mutex, parking). *)
(* Summoner p:                                                             *)
(*   Start(p)      SummonSwamp called ... LoadOrStore       -> gate loaded *)
(*   GoLoaded(p)   leaves the gate, wants the waiter mutex                 *)
(*   Lock(p)       waiter.cond.L.Lock() (first time or after a wake-up)    *)
(*   Pass(p)       one pass of `for waiter.ready` under the mutex: take    *)
(*                 the slot and Unlock (-> gate slot), or ctx.Done:        *)
(*                 Broadcast, Unlock, return the error, or count++ and     *)
(*                 cond.Wait (park; the mutex is released)                 *)
(*   GoSlot(p)     body: ctx.Done -> release, else getSwamp -> gate got    *)
(*   GoGot(p)      nil -> gate create | closing -> WaitForGracefulClose |  *)
(*                 open -> return it (release)                             *)
(*   GoCreate(p)   createNewSwamp + Store, return it (release)             *)
(*   Closed(p)     the swamp it waits for has closed: back to the body     *)
(*   LockRel(p)    deferred function: waiter.cond.L.Lock()                 *)
(*   Release(p)    ready=false, Broadcast, Unlock                          *)
(*   GoReleased(p) count--                                                 *)
(*   GoCounted(p)  if count = 0: summoningSwamps.Delete(name); return      *)
(*                 (the deferred function has no gates: these four are     *)
(*                 steps the goroutine takes on its own)                   *)
(*   Cancel(p)     the caller's context is cancelled (environment)         *)
(*   (Start is also possible from "done": the caller calls again.)         *)
(* Swamp instance i:                                                       *)
(*   CloseBegin(i) closing := 1 (idle close, shutdown, Destroy)            *)
(*   CloseDone(i)  the close goes on to its end: first the swamp's context *)
(*                 is cancelled (waiters of WaitForGracefulClose return),  *)
(*   CloseCb(i)    then the close callback deletes the NAME from the       *)
(*                 swamps map (a summoner that wakes in between still      *)
(*                 finds the closed instance in the map and goes round)    *)
(*                                                                         *)
(* Dev = {} is the strict design: the count covers every user of the       *)
(* waiter object (taken together with LoadOrStore, given back together     *)
(* with the delete decision, under one lock), so the map entry goes away   *)
(* only with its last user.  Deviation "SlotDrop" is the code: the count   *)
(* is incremented only by callers that wait but decremented by every       *)
(* caller that got the slot, and the delete is by name.                    *)
(***************************************************************************)
EXTENDS Integers, FiniteSets, TLC

CONSTANTS Procs,      \* summoners (strings)
          MaxCalls,   \* SummonSwamp calls per summoner (0 = unlimited: trace validation)
          MaxInst,    \* bound on instances ever created (model checking; 0 = unlimited)
          MaxObj,     \* bound on waiter objects ever created
          Dev

VARIABLES pc,       \* [Procs -> control state]
          w,        \* [Procs -> waiter object used by the current call, 0 none]
          seen,     \* [Procs -> instance returned by getSwamp, 0 nil]
          ret,      \* [Procs -> result of the last finished call: instance id, 0 = none yet, -1 = error]
          ctxc,     \* [Procs -> the context of the current call is cancelled]
          calls,    \* [Procs -> calls started]
          slotmap,  \* waiter object stored in summoningSwamps (0 = no entry)
          nobj,     \* waiter objects created so far
          ready,    \* [1..MaxObj -> BOOLEAN]
          count,    \* [1..MaxObj -> Int]
          mu,       \* [1..MaxObj -> holder of the object's mutex, "" free]
          parked,   \* [1..MaxObj -> set of summoners parked in cond.Wait]
          smap,     \* instance stored in the swamps map (0 = none)
          ninst,    \* instances created so far
          ist,      \* [1..ninst -> "open" | "closing" | "closed"]
          last      \* last action (observation only)

vars == <<pc, w, seen, ret, ctxc, calls, slotmap, nobj, ready, count, mu, parked, smap, ninst, ist, last>>

Objs == 1..(IF MaxObj = 0 THEN 8 ELSE MaxObj)
Insts == 1..(IF MaxInst = 0 THEN 8 ELSE MaxInst)
Strict == "SlotDrop" \notin Dev

Lbl(a, p, x) == last' = [a |-> a, p |-> p, x |-> x]

Init ==
  /\ pc = [p \in Procs |-> "idle"] /\ w = [p \in Procs |-> 0] /\ seen = [p \in Procs |-> 0]
  /\ ret = [p \in Procs |-> 0] /\ ctxc = [p \in Procs |-> FALSE] /\ calls = [p \in Procs |-> 0]
  /\ slotmap = 0 /\ nobj = 0
  /\ ready = [o \in Objs |-> FALSE] /\ count = [o \in Objs |-> 0] /\ mu = [o \in Objs |-> ""] /\ parked = [o \in Objs |-> {}]
  /\ smap = 0 /\ ninst = 0 /\ ist = [i \in Insts |-> "none"]
  /\ last = [a |-> "Init", p |-> "", x |-> 0]

Live == {i \in Insts : ist[i] \in {"open", "closing"}}

-----------------------------------------------------------------------------
(* summoners *)

\* SummonSwamp is called; LoadOrStore gives the waiter object of the name (a new one if there is none)
Start(p) ==
  /\ pc[p] \in {"idle", "done"} /\ (MaxCalls = 0 \/ calls[p] < MaxCalls)
  /\ calls' = [calls EXCEPT ![p] = @ + 1]
  /\ ctxc' = [ctxc EXCEPT ![p] = FALSE] /\ seen' = [seen EXCEPT ![p] = 0]
  /\ IF slotmap # 0
       THEN /\ w' = [w EXCEPT ![p] = slotmap] /\ UNCHANGED <<slotmap, nobj>>
            /\ count' = IF Strict THEN [count EXCEPT ![slotmap] = @ + 1] ELSE count
       ELSE /\ nobj < Cardinality(Objs)
            /\ nobj' = nobj + 1 /\ slotmap' = nobj + 1 /\ w' = [w EXCEPT ![p] = nobj + 1]
            /\ count' = IF Strict THEN [count EXCEPT ![nobj + 1] = 1] ELSE count
  /\ pc' = [pc EXCEPT ![p] = "loaded"]
  /\ ret' = [ret EXCEPT ![p] = 0]
  /\ Lbl("Start", p, 0)
  /\ UNCHANGED <<ready, mu, parked, smap, ninst, ist>>

Cancel(p) ==
  /\ pc[p] \notin {"idle", "done"} /\ ~ctxc[p]
  /\ ctxc' = [ctxc EXCEPT ![p] = TRUE]
  /\ Lbl("Cancel", p, 0)
  /\ UNCHANGED <<pc, w, seen, ret, calls, slotmap, nobj, ready, count, mu, parked, smap, ninst, ist>>

GoLoaded(p) ==
  /\ pc[p] = "loaded"
  /\ pc' = [pc EXCEPT ![p] = "wantlock"]
  /\ Lbl("GoLoaded", p, 0)
  /\ UNCHANGED <<w, seen, ret, ctxc, calls, slotmap, nobj, ready, count, mu, parked, smap, ninst, ist>>

\* the delete of the slot entry, as the strict design does it: together with giving the use back
DropUse(o) ==
  /\ count' = [count EXCEPT ![o] = @ - 1]
  /\ slotmap' = IF count[o] - 1 = 0 /\ slotmap = o THEN 0 ELSE slotmap

Lock(p) ==
  /\ pc[p] = "wantlock" /\ mu[w[p]] = ""
  /\ mu' = [mu EXCEPT ![w[p]] = p]
  /\ pc' = [pc EXCEPT ![p] = "locked"]
  /\ Lbl("Lock", p, 0)
  /\ UNCHANGED <<w, seen, ret, ctxc, calls, slotmap, nobj, ready, count, parked, smap, ninst, ist>>

\* one pass of `for waiter.ready { select { case <-ctx.Done(): ... default: count++; Wait } }` with the mutex held;
\* every way out gives the mutex back
Pass(p) ==
  /\ pc[p] = "locked"
  /\ LET o == w[p] IN
     /\ mu' = [mu EXCEPT ![o] = ""]
     /\ IF ~ready[o]
       THEN \* take the slot
            /\ ready' = [ready EXCEPT ![o] = TRUE]
            /\ pc' = [pc EXCEPT ![p] = "slot"]
            /\ Lbl("Pass", p, 1)
            /\ UNCHANGED <<count, parked, slotmap, ret>>
       ELSE IF ctxc[p]
         THEN \* ctx.Done: Broadcast, Unlock, return the error (the deferred release is not installed yet)
              /\ parked' = [parked EXCEPT ![o] = {}]
              /\ pc' = [q \in Procs |-> IF q = p THEN "done" ELSE IF q \in parked[o] THEN "wantlock" ELSE pc[q]]
              /\ ret' = [ret EXCEPT ![p] = -1]
              /\ IF Strict THEN DropUse(o) ELSE UNCHANGED <<count, slotmap>>
              /\ Lbl("Pass", p, -1)
              /\ UNCHANGED ready
         ELSE \* count++ (as built), cond.Wait
              /\ count' = IF Strict THEN count ELSE [count EXCEPT ![o] = @ + 1]
              /\ parked' = [parked EXCEPT ![o] = @ \cup {p}]
              /\ pc' = [pc EXCEPT ![p] = "parked"]
              /\ Lbl("Pass", p, 0)
              /\ UNCHANGED <<ready, slotmap, ret>>
  /\ UNCHANGED <<w, seen, ctxc, calls, nobj, smap, ninst, ist>>

\* body, first part: the context check of the select, then getSwamp
GoSlot(p) ==
  /\ pc[p] = "slot"
  /\ IF ctxc[p]
       THEN /\ pc' = [pc EXCEPT ![p] = "wantrel"] /\ ret' = [ret EXCEPT ![p] = -1] /\ UNCHANGED seen
       ELSE /\ seen' = [seen EXCEPT ![p] = smap] /\ pc' = [pc EXCEPT ![p] = "got"] /\ UNCHANGED ret
  /\ Lbl("GoSlot", p, IF ctxc[p] THEN -1 ELSE smap)
  /\ UNCHANGED <<w, ctxc, calls, slotmap, nobj, ready, count, mu, parked, smap, ninst, ist>>

GoGot(p) ==
  /\ pc[p] = "got"
  /\ IF seen[p] = 0
       THEN pc' = [pc EXCEPT ![p] = "create"] /\ UNCHANGED ret
       ELSE IF ist[seen[p]] = "open"       \* IsClosing() = false: hand it out
         THEN pc' = [pc EXCEPT ![p] = "wantrel"] /\ ret' = [ret EXCEPT ![p] = seen[p]]
         ELSE pc' = [pc EXCEPT ![p] = "waitclose"] /\ UNCHANGED ret
  /\ Lbl("GoGot", p, seen[p])
  /\ UNCHANGED <<w, seen, ctxc, calls, slotmap, nobj, ready, count, mu, parked, smap, ninst, ist>>

\* WaitForGracefulClose returns: the instance has closed; the loop goes round (context check, getSwamp)
Closed(p) ==
  /\ pc[p] = "waitclose" /\ ist[seen[p]] \in {"cancelled", "closed"}
  /\ IF ctxc[p]
       THEN /\ pc' = [pc EXCEPT ![p] = "wantrel"] /\ ret' = [ret EXCEPT ![p] = -1] /\ UNCHANGED seen
       ELSE /\ seen' = [seen EXCEPT ![p] = smap] /\ pc' = [pc EXCEPT ![p] = "got"] /\ UNCHANGED ret
  /\ Lbl("Closed", p, IF ctxc[p] THEN -1 ELSE smap)
  /\ UNCHANGED <<w, ctxc, calls, slotmap, nobj, ready, count, mu, parked, smap, ninst, ist>>

GoCreate(p) ==
  /\ pc[p] = "create" /\ ninst < Cardinality(Insts)
  /\ ninst' = ninst + 1
  /\ ist' = [ist EXCEPT ![ninst + 1] = "open"]
  /\ smap' = ninst + 1                              \* Store overwrites whatever is there
  /\ ret' = [ret EXCEPT ![p] = ninst + 1]
  /\ pc' = [pc EXCEPT ![p] = "wantrel"]
  /\ Lbl("GoCreate", p, ninst + 1)
  /\ UNCHANGED <<w, seen, ctxc, calls, slotmap, nobj, ready, count, mu, parked>>

\* deferred function
LockRel(p) ==
  /\ pc[p] = "wantrel" /\ mu[w[p]] = ""
  /\ mu' = [mu EXCEPT ![w[p]] = p]
  /\ pc' = [pc EXCEPT ![p] = "rellocked"]
  /\ Lbl("LockRel", p, 0)
  /\ UNCHANGED <<w, seen, ret, ctxc, calls, slotmap, nobj, ready, count, parked, smap, ninst, ist>>

Release(p) ==
  /\ pc[p] = "rellocked"
  /\ LET o == w[p] IN
     /\ mu' = [mu EXCEPT ![o] = ""]
     /\ ready' = [ready EXCEPT ![o] = FALSE]
     /\ parked' = [parked EXCEPT ![o] = {}]
     /\ pc' = [q \in Procs |-> IF q = p THEN "released" ELSE IF q \in parked[o] THEN "wantlock" ELSE pc[q]]
  /\ Lbl("Release", p, 0)
  /\ UNCHANGED <<w, seen, ret, ctxc, calls, slotmap, nobj, count, smap, ninst, ist>>

GoReleased(p) ==
  /\ pc[p] = "released"
  /\ IF Strict
       THEN DropUse(w[p]) /\ pc' = [pc EXCEPT ![p] = "done"]       \* one step in the strict design
       ELSE count' = [count EXCEPT ![w[p]] = @ - 1] /\ pc' = [pc EXCEPT ![p] = "counted"] /\ UNCHANGED slotmap
  /\ Lbl("GoReleased", p, 0)
  /\ UNCHANGED <<w, seen, ret, ctxc, calls, nobj, ready, mu, parked, smap, ninst, ist>>

\* as built: `if count == 0 { summoningSwamps.Delete(name) }` - by name, whatever object is stored
GoCounted(p) ==
  /\ pc[p] = "counted"
  /\ slotmap' = IF count[w[p]] = 0 THEN 0 ELSE slotmap
  /\ pc' = [pc EXCEPT ![p] = "done"]
  /\ Lbl("GoCounted", p, IF count[w[p]] = 0 THEN 1 ELSE 0)
  /\ UNCHANGED <<w, seen, ret, ctxc, calls, nobj, ready, count, mu, parked, smap, ninst, ist>>

-----------------------------------------------------------------------------
(* swamp instances *)

CloseBegin(i) ==
  /\ ist[i] = "open" /\ ninst < Cardinality(Insts)      \* (model bound: a re-creation must remain possible)
  /\ ist' = [ist EXCEPT ![i] = "closing"]
  /\ Lbl("CloseBegin", "", i)
  /\ UNCHANGED <<pc, w, seen, ret, ctxc, calls, slotmap, nobj, ready, count, mu, parked, smap, ninst>>

\* the rest of Close(): goRoutineCancelFunction() ...
CloseDone(i) ==
  /\ ist[i] = "closing"
  /\ ist' = [ist EXCEPT ![i] = "cancelled"]
  /\ Lbl("CloseDone", "", i)
  /\ UNCHANGED <<pc, w, seen, ret, ctxc, calls, slotmap, nobj, ready, count, mu, parked, smap, ninst>>

\* ... sendClosedEvent(): swamps.Delete(name). By name in the code; that cannot be told from "delete my own entry" as
\* long as instances are never duplicated, so the strict design deletes its own entry and the as-built variant deletes
\* whatever is stored (the callback of an orphaned duplicate removes the other instance's entry)
CloseCb(i) ==
  /\ ist[i] = "cancelled"
  /\ ist' = [ist EXCEPT ![i] = "closed"]
  /\ smap' = IF smap = i \/ ~Strict THEN 0 ELSE smap
  /\ Lbl("CloseCb", "", i)
  /\ UNCHANGED <<pc, w, seen, ret, ctxc, calls, slotmap, nobj, ready, count, mu, parked, ninst>>

-----------------------------------------------------------------------------

\* steps the environment / the harness decides
Command ==
  \/ \E p \in Procs : Start(p) \/ Cancel(p) \/ GoLoaded(p) \/ GoSlot(p) \/ GoGot(p) \/ GoCreate(p)
  \/ \E i \in Insts : CloseBegin(i) \/ CloseDone(i)
\* steps a goroutine takes on its own
Internal ==
  \/ \E p \in Procs : Lock(p) \/ Pass(p) \/ LockRel(p) \/ Release(p) \/ GoReleased(p) \/ GoCounted(p) \/ Closed(p)
  \/ \E i \in Insts : CloseCb(i)

AtRest == (\A p \in Procs : pc[p] \in {"idle", "done"}) /\ UNCHANGED vars
Next == Command \/ Internal \/ AtRest

\* every summoner step is fair; a close that has begun finishes. Nobody has to start, cancel, or begin a close.
Fairness ==
  /\ \A p \in Procs : WF_vars(GoLoaded(p)) /\ SF_vars(Lock(p)) /\ WF_vars(Pass(p)) /\ WF_vars(GoSlot(p)) /\ WF_vars(GoGot(p)) /\ WF_vars(GoCreate(p))
                      /\ WF_vars(Closed(p)) /\ SF_vars(LockRel(p)) /\ WF_vars(Release(p)) /\ WF_vars(GoReleased(p)) /\ WF_vars(GoCounted(p))
  /\ \A i \in Insts : WF_vars(CloseDone(i)) /\ WF_vars(CloseCb(i))

Spec == Init /\ [][Next]_vars /\ Fairness

-----------------------------------------------------------------------------
(* Properties *)

TypeOK ==
  /\ pc \in [Procs -> {"idle", "loaded", "wantlock", "locked", "parked", "slot", "got", "create", "waitclose", "wantrel", "rellocked", "released",
                     "counted", "done"}]
  /\ \A o \in Objs : mu[o] # "" => (w[mu[o]] = o /\ pc[mu[o]] \in {"locked", "rellocked"})
  /\ slotmap \in 0..nobj /\ smap \in 0..ninst

\* C18: at most one live in-memory instance
OneLive == Cardinality(Live) <= 1
\* C18: what the map holds is live, and a live instance is what the map holds
MapIsLive == (smap # 0 => ist[smap] \in {"open", "closing", "cancelled"}) /\ (\A i \in Live : smap = i)
\* C18: a request is served by the current instance: when a summoner is handed an instance, it is the map's entry and the only live one
ServedByCurrentStep ==
  \A p \in Procs : (ret'[p] # ret[p] /\ ret'[p] > 0) => (smap' = ret'[p] /\ ist'[ret'[p]] = "open" /\ Live' = {ret'[p]})
ServedByCurrent == [][ServedByCurrentStep]_vars

\* the slot: at most one summoner is between taking the slot and releasing it (this is what makes creation exclusive)
InBody == {p \in Procs : pc[p] \in {"slot", "got", "create", "waitclose", "wantrel", "rellocked"}}
OneInBody == Cardinality(InBody) <= 1
\* a summoner that uses a waiter object can be reached through it: the object is the map's entry while it has users
SlotNotDropped == \A p \in Procs : pc[p] \in {"loaded", "wantlock", "locked", "parked", "slot", "got", "create", "waitclose", "wantrel", "rellocked"} => slotmap = w[p]

\* nobody is parked on a free slot with nobody to wake it (the parked set is woken by every release / ctx exit)
ParkedHasOwner == \A o \in Objs : parked[o] # {} => ready[o]
ParkedConsistent == \A p \in Procs : (pc[p] = "parked") <=> (\E o \in Objs : p \in parked[o])

\* no goroutine can take a step on its own
Quiescent == \A p \in Procs : /\ ~(pc[p] \in {"wantlock", "wantrel"} /\ mu[w[p]] = "")
                              /\ pc[p] \notin {"locked", "rellocked", "released", "counted"}
                              /\ ~(pc[p] = "waitclose" /\ ist[seen[p]] \in {"cancelled", "closed"})
             /\ \A i \in Insts : ist[i] # "cancelled"

\* C17: a summon is stuck: nothing but new calls / cancellations / closes could happen and somebody is still inside
Stuck ==
  /\ \E p \in Procs : pc[p] \in {"wantlock", "parked", "wantrel", "waitclose"}
  /\ \A p \in Procs : pc[p] \in {"idle", "done", "wantlock", "parked", "wantrel", "waitclose"}
  /\ Quiescent
  /\ \A p \in Procs : pc[p] = "waitclose" => ist[seen[p]] # "closing"
NoStuck == ~Stuck

\* C17: every summon returns
SummonTerminates == \A p \in Procs : (pc[p] \notin {"idle", "done"}) ~> (pc[p] = "done")
=============================================================================
