------------------------------- MODULE SwampKV -------------------------------
(***************************************************************************)
(* Single-client key-value semantics of one swamp as seen through the      *)
(* Gateway API (app/server/gateway/gateway.go, app/core/hydra/swamp/       *)
(* swamp.go, .../treasure/treasure.go) -- the reference model of C06, C05  *)
(* and C30.                                                                *)
(*                                                                         *)
(* One action = one RPC.  Every RPC is a function                          *)
(*      Outs(q, S)  =  set of [S |-> S', r |-> response, ret, dv]          *)
(* from the request q and the swamp state S to the allowed outcomes: the   *)
(* successor state, the full response, whether the call returns, and the   *)
(* set of named deviations the outcome needed.  The set is a singleton     *)
(* except where the documentation leaves a choice.                         *)
(*                                                                         *)
(* Values are abstract (see harness/cmd/swampkv): numbers are small        *)
(* integers, strings / byte arrays / user ids are interned ids (0 = the    *)
(* empty one), timestamps are ranks (0 = unset, NOW = the server clock,    *)
(* smaller = earlier), uint32 sets are duplicate-free sequences.           *)
(*                                                                         *)
(* Dev is the set of named deviations of the code from the documented      *)
(* semantics; Dev = {} is the strict specification.                        *)
(*   U32DeleteDeadlock   Uint32SliceDelete that empties the set calls the  *)
(*                       delete while holding the record's guard: never    *)
(*                       returns (except in immediate-write swamps when    *)
(*                       the save released the guard)                      *)
(*   U32DeleteWrongType  Uint32SliceDelete on a key that is not a uint32   *)
(*                       set deletes the key instead of failing            *)
(*   StickyDirty         change flags are never cleared (and metadata      *)
(*                       setters raise them unconditionally): a Set that   *)
(*                       changes nothing reports UPDATED                   *)
(*   IncVoidSideEffect   a condition-failed increment keeps the typed 0    *)
(*                       (and metadata) it prepared: hidden in-flight      *)
(*                       record for a fresh key, in-place change of a void *)
(*                       key                                               *)
(*   EmptySwampExists    RPCs that summon the swamp without storing a key  *)
(*                       leave an empty swamp that "exists"                *)
(*   VoidNoClear         Set(void) on a key that has a value keeps the     *)
(*                       value                                             *)
(*   SetSliceMerges      Set(uint32 set) pushes into the existing content  *)
(*                       instead of replacing it                           *)
(*   U32PushWrongType    Uint32SlicePush on a key of another type succeeds *)
(*                       and hides a set behind the visible value          *)
(*   SetErrorExtraResponse  a swamp-level Set error is followed by a       *)
(*                       second, empty response entry for the same swamp   *)
(*   GobZero             (C05) close+reload turns typed zero values into   *)
(*                       void                                              *)
(*   IncMetaNotSaved     (C05) metadata applied by a condition-failed      *)
(*                       increment is not written: lost by close+reload    *)
(*   DeleteRecreateResurrects (C05) write-behind: delete of a filed key, re-create, *)
(*                       delete again before the flush: the second delete  *)
(*                       only dequeues the new record, the first delete's  *)
(*                       marker was dropped by the re-create, so the old   *)
(*                       record is back after close+reload                 *)
(*   StaleExpiryIndex    (C30) an expiry changed without a save (condition-failed   *)
(*                       increment) is not re-indexed: the expiration index and   *)
(*                       the claims built on it disagree with Get / filters       *)
(*   PreEpochInvisible   (C30) a negative expiry is hidden from reads      *)
(***************************************************************************)
EXTENDS Integers, Sequences, FiniteSets, TLC

CONSTANTS Dev,        \* set of deviation names
          NOW,        \* rank of the server clock
          KeyOrder    \* the keys in ascending (byte) order, as a sequence

VARIABLES store,   \* key -> record                       (the treasures of the swamp)
          pend,    \* key -> record  (as-built only: created, never saved, still handed out by CreateTreasure)
          open,    \* the swamp instance is summoned in memory
          disk,    \* key -> record as written to the swamp's file (persistent modes; C05)
          wq,      \* keys queued for the writer (write-behind mode: written at close)
          dq,      \* keys whose delete marker is queued for the writer
          filed,   \* keys whose in-memory object has a file pointer (loaded from, or written to, the file)
          xb,      \* as built: the expiration index has been built (it is built lazily and dropped at close)
          xk,      \* as built: key -> sort key (expiry at the time of indexing) of the indexed records
          mode,    \* "mem" in-memory, "p0" persistent immediate write, "pw" persistent write-behind
          last,    \* the last request and its outcome (observation)
          ops      \* number of calls so far (bounded in model checking)

vars == <<store, pend, open, disk, wq, dq, filed, xb, xk, mode, last, ops>>
view == <<store, pend, open, disk, wq, dq, filed, xb, xk, mode>>

D(n) == n \in Dev

-----------------------------------------------------------------------------
(* helpers *)

NoMap == [x \in {} |-> 0]
Put(f, k, r) == [x \in (DOMAIN f) \cup {k} |-> IF x = k THEN r ELSE f[x]]
Drop(f, k) == [x \in (DOMAIN f) \ {k} |-> f[x]]
Has(f, k) == k \in DOMAIN f
IsEmpty(f) == DOMAIN f = {}

SeqHas(s, x) == \E i \in DOMAIN s : s[i] = x
RECURSIVE PushSeq(_, _)
PushSeq(s, vs) == IF vs = <<>> THEN s
                  ELSE PushSeq(IF SeqHas(s, Head(vs)) THEN s ELSE Append(s, Head(vs)), Tail(vs))
FilterOut(s, vs) == SelectSeq(s, LAMBDA x : ~SeqHas(vs, x))
Range(s) == {s[i] : i \in DOMAIN s}

-----------------------------------------------------------------------------
(* contents: the shape of treasure.Content.  The strict operations keep it *)
(* normalised (exactly one of: void, one scalar, one set).                 *)

ScalarTypes == {"i8", "i16", "i32", "i64", "u8", "u16", "u32", "u64", "f32", "f64", "str", "bool", "bytes"}
NumTypes == {"i8", "i16", "i32", "i64", "u8", "u16", "u32", "u64", "f32", "f64"}

CNil == [void |-> FALSE, t |-> "nil", v |-> 0, hs |-> FALSE, u |-> <<>>]     \* no content yet (fresh object: Content is nil)
CEmpty == [void |-> FALSE, t |-> "none", v |-> 0, hs |-> FALSE, u |-> <<>>]  \* a content struct with nothing in it (only after a reload)
HasScalar(c) == c.t \notin {"none", "nil"}
CVoid == [void |-> TRUE, t |-> "none", v |-> 0, hs |-> FALSE, u |-> <<>>]
CScalar(t, v) == [void |-> FALSE, t |-> t, v |-> v, hs |-> FALSE, u |-> <<>>]
CSlice(u) == [void |-> FALSE, t |-> "none", v |-> 0, hs |-> TRUE, u |-> u]

\* the content type every read path reports (treasure.GetContentType)
TypeOf(c) == IF c.void THEN "void" ELSE IF HasScalar(c) THEN c.t ELSE IF c.hs THEN "u32s" ELSE "void"
\* what Clone copies (treasure.cloneContent looks at the set before the void flag)
CloneOf(c) == IF HasScalar(c) THEN CScalar(c.t, c.v) ELSE IF c.hs THEN CSlice(c.u) ELSE IF c.void THEN CVoid ELSE CNil
Normal(c) == c = CVoid \/ (c.t \in ScalarTypes /\ c = CScalar(c.t, c.v)) \/ c = CSlice(c.u)

\* dirty / xf are the sticky change flags of the in-memory object (any flag / the expiry flag)
Fresh == [c |-> CNil, ca |-> 0, cb |-> 0, ua |-> 0, ub |-> 0, ea |-> 0, dirty |-> FALSE, xf |-> FALSE]
Clean(r) == [r EXCEPT !.dirty = FALSE, !.xf = FALSE]
SameData(a, b) == Clean(a) = Clean(b)

\* C30: the one definition of "expired"
Expired(r, now) == r.ea # 0 /\ r.ea < now

-----------------------------------------------------------------------------
(* wire view of a record (gateway.treasureToKeyValuePair) *)

Shown(ts) == IF ts > 0 THEN ts ELSE IF D("PreEpochInvisible") THEN 0 ELSE ts

View(k, r, c) ==
  LET ty == TypeOf(c)
      empt == ty = "u32s" /\ c.u = <<>>    \* an empty set is not distinguishable from no value on the wire
  IN [k |-> k, x |-> TRUE,
      t |-> IF empt THEN "void" ELSE ty,
      v |-> IF ty \in ScalarTypes THEN c.v ELSE 0,
      u |-> IF ty = "u32s" THEN c.u ELSE <<>>,
      ca |-> Shown(r.ca), cb |-> r.cb, ua |-> Shown(r.ua), ub |-> r.ub, ea |-> Shown(r.ea)]
Wire(k, r) == View(k, r, r.c)
Missing(k) == [k |-> k, x |-> FALSE, t |-> "void", v |-> 0, u |-> <<>>, ca |-> 0, cb |-> 0, ua |-> 0, ub |-> 0, ea |-> 0]

\* a read that had to hide a pre-epoch timestamp of one of these records
HidDv(f) == IF D("PreEpochInvisible") /\ \E k \in DOMAIN f : f[k].ca < 0 \/ f[k].ua < 0 \/ f[k].ea < 0
            THEN {"PreEpochInvisible"} ELSE {}

KeysIn(f) == SelectSeq(KeyOrder, LAMBDA k : Has(f, k))
WireAll(f) == LET ks == KeysIn(f) IN [i \in DOMAIN ks |-> Wire(ks[i], f[ks[i]])]

-----------------------------------------------------------------------------
(* swamp existence *)

Exists(S) == IF D("EmptySwampExists") THEN S.open ELSE ~IsEmpty(S.store)
\* a call that summons the swamp
Summon(S) == [S EXCEPT !.open = TRUE]
\* after a call: an empty swamp is removed by whoever emptied it; in the strict model an empty
\* swamp never stays
Settle(S) == IF D("EmptySwampExists") THEN S
             ELSE IF IsEmpty(S.store) THEN [S EXCEPT !.open = FALSE, !.pend = NoMap] ELSE [S EXCEPT !.open = TRUE]
Destroyed(S) == [S EXCEPT !.store = NoMap, !.pend = NoMap, !.open = FALSE, !.disk = NoMap, !.wq = {}, !.dq = {}, !.filed = {},
                             !.xb = FALSE, !.xk = NoMap]
AutoDestroy(S) == IF IsEmpty(S.store) THEN Destroyed(S) ELSE S

\* the object CreateTreasure(k) hands out
Obj(S, k) == IF Has(S.store, k) THEN S.store[k]
             ELSE IF D("IncVoidSideEffect") /\ Has(S.pend, k) THEN S.pend[k] ELSE Fresh
PendUsed(S, k) == D("IncVoidSideEffect") /\ ~Has(S.store, k) /\ Has(S.pend, k)

\* persistent swamps: a save queues the record for the writer; p0 flushes the whole queue (delete markers
\* included) at once, pw at close.  disk is the file content as of the last flush.
Flush(S) ==
  LET gone == [k \in (DOMAIN S.disk) \ S.dq |-> S.disk[k]]
      keys == (DOMAIN gone) \cup (S.wq \cap DOMAIN S.store)
  IN [S EXCEPT !.disk = [k \in keys |-> IF k \in S.wq /\ Has(S.store, k) THEN Clean(S.store[k]) ELSE gone[k]],
               !.wq = {}, !.dq = {}, !.filed = @ \cup (S.wq \cap DOMAIN S.store)]
Written(S, k, r) == IF S.mode = "mem" THEN S
                    ELSE LET S1 == [S EXCEPT !.wq = @ \cup {k}] IN IF S.mode = "p0" THEN Flush(S1) ELSE S1
\* a new object for a key: it has no file pointer, and SaveFunction drops whatever was queued under the key
\* (with it the delete marker of the key's previous life)
Recreated(S, k) == IF S.mode = "mem" THEN S
                   ELSE [S EXCEPT !.filed = @ \ {k}, !.wq = @ \ {k}, !.dq = IF D("DeleteRecreateResurrects") THEN @ \ {k} ELSE @]
\* deleteHandler: a filed record gets a delete marker, a never-written one is just taken off the queue
Unwritten(S, k) == IF S.mode = "mem" THEN S
                   ELSE IF k \in S.filed THEN [S EXCEPT !.dq = @ \cup {k}, !.wq = @ \ {k}, !.filed = @ \ {k}]
                   ELSE [S EXCEPT !.wq = @ \ {k}]

\* the expiration index.  Strictly it is the current view of the records; as built (StaleExpiryIndex) it is
\* a lazily built structure that only a save (of an object whose expiry flag is raised) or a delete updates.
Tracking == D("StaleExpiryIndex")
CurIdx(st) == [k \in {x \in DOMAIN st : st[x].ea # 0} |-> st[k].ea]
Idx(S) == IF Tracking /\ S.xb THEN S.xk ELSE CurIdx(S.store)
Built(S) == IF Tracking /\ ~S.xb THEN [S EXCEPT !.xb = TRUE, !.xk = CurIdx(S.store)] ELSE S
\* every insertion re-sorts the whole index by the current values
Resorted(S, ks) == [S EXCEPT !.xk = [k \in ks \cap DOMAIN S.store |-> S.store[k].ea]]
StaleDv(S) == IF Idx(S) # CurIdx(S.store) THEN {"StaleExpiryIndex"} ELSE {}
Orders(idx) == {s \in [1..Cardinality(DOMAIN idx) -> DOMAIN idx] :
                  /\ \A i, j \in DOMAIN s : i # j => s[i] # s[j]
                  /\ \A i, j \in DOMAIN s : i < j => idx[s[i]] <= idx[s[j]]}

\* treasure.Save through swamp.SaveFunction: status and new state
SaveObj(S, k, r, changedNow) ==
  LET isNew == ~Has(S.store, k)
      flag == changedNow \/ (D("StickyDirty") /\ r.dirty)
      r2 == [r EXCEPT !.dirty = IF D("StickyDirty") THEN flag ELSE FALSE, !.xf = IF Tracking THEN @ ELSE FALSE]
      S0 == IF isNew THEN Recreated(S, k) ELSE S
      S1 == [S0 EXCEPT !.store = Put(S.store, k, r2), !.pend = Drop(S.pend, k)]
      S2 == IF isNew \/ flag THEN Written(S1, k, r2) ELSE S1
      S3 == IF ~(Tracking /\ S2.xb) THEN S2
            ELSE IF isNew THEN (IF r2.ea # 0 THEN Resorted(S2, (DOMAIN S2.xk) \cup {k}) ELSE S2)
            ELSE IF flag /\ r2.xf THEN (IF r2.ea # 0 THEN Resorted(S2, (DOMAIN S2.xk) \cup {k}) ELSE [S2 EXCEPT !.xk = Drop(S2.xk, k)])
            ELSE S2
  IN [S |-> S3, status |-> IF isNew THEN "NEW" ELSE IF flag THEN "UPDATED" ELSE "NOTHING_CHANGED", flag |-> flag]

DeleteKey(S, k) == Unwritten([S EXCEPT !.store = Drop(S.store, k), !.xk = Drop(S.xk, k)], k)

\* (an outcome that leaves a summoned swamp without records owes that to the EmptySwampExists deviation)
Out(S, r, dv) == [S |-> Settle(S), r |-> r, ret |-> TRUE,
                  dv |-> dv \cup (IF D("EmptySwampExists") /\ S.open /\ IsEmpty(S.store) THEN {"EmptySwampExists"} ELSE {})]
Err(S, code, dv) == Out(S, [err |-> code], dv)
Hang(S, dv) == [S |-> S, r |-> [err |-> ""], ret |-> FALSE, dv |-> dv]

-----------------------------------------------------------------------------
(* Set *)

MetaGiven(it) == it.ca > 0 \/ it.cb # 0 \/ it.ua > 0 \/ it.ub # 0 \/ it.ea > 0   \* the setters that are actually called

\* content after keyValuesToTreasure; dv collects the deviations that made a difference
SetContent(c, it) ==
  IF it.t \in ScalarTypes THEN
       \* SetContentX: an equal value of the same kind is left alone, otherwise the whole content is replaced
       IF c.t = it.t /\ c.v = it.v THEN [c |-> c, ch |-> FALSE, dv |-> {}]
       ELSE [c |-> CScalar(it.t, it.v), ch |-> TRUE, dv |-> {}]
  ELSE IF it.t = "u32s" /\ it.u # <<>> THEN
       LET want == CSlice(PushSeq(<<>>, it.u))
           got == [c EXCEPT !.t = IF @ = "nil" THEN "none" ELSE @, !.hs = TRUE, !.u = PushSeq(c.u, it.u)]
       IN IF D("SetSliceMerges")
            THEN [c |-> got, ch |-> got.u # c.u, dv |-> IF got = want THEN {} ELSE {"SetSliceMerges"}]
            ELSE [c |-> want, ch |-> want # c, dv |-> {}]
  ELSE \* void, no value field, or an empty set (not representable on the wire): SetContentVoid
       IF c = CVoid THEN [c |-> c, ch |-> FALSE, dv |-> {}]
       ELSE IF c = CNil THEN [c |-> CVoid, ch |-> TRUE, dv |-> {}]
       ELSE IF D("VoidNoClear") /\ ~c.void THEN [c |-> c, ch |-> TRUE, dv |-> {"VoidNoClear"}]
       ELSE IF c.void THEN [c |-> c, ch |-> FALSE, dv |-> {}]     \* already void: left alone (whatever hides behind it stays)
       ELSE [c |-> CVoid, ch |-> TRUE, dv |-> {}]

SetMeta(r, it) ==
  [r EXCEPT !.ca = IF it.ca > 0 THEN it.ca ELSE @, !.cb = IF it.cb # 0 THEN it.cb ELSE @,
            !.ua = IF it.ua > 0 THEN it.ua ELSE @, !.ub = IF it.ub # 0 THEN it.ub ELSE @,
            !.ea = IF it.ea > 0 \/ (it.ea < 0 /\ ~D("PreEpochInvisible")) THEN it.ea ELSE @,
            !.xf = @ \/ (Tracking /\ it.ea > 0)]

SetOne(S, it) ==
  LET k == it.k
      old == Obj(S, k)
      sc == SetContent(old.c, it)
      new == SetMeta([old EXCEPT !.c = sc.c], it)
      really == ~SameData(new, old)
      \* as built: the content flag as computed above, and every metadata setter raises its flag
      flagNow == IF D("StickyDirty") THEN sc.ch \/ MetaGiven(it) ELSE really
      sv == SaveObj(S, k, new, flagNow)
      pendUsed == PendUsed(S, k)
  IN [S |-> sv.S, status |-> sv.status,
      dv |-> sc.dv \cup (IF it.ea < 0 /\ D("PreEpochInvisible") THEN {"PreEpochInvisible"} ELSE {}) \cup (IF sv.status = "UPDATED" /\ ~really THEN {"StickyDirty"} ELSE {})
                   \cup (IF pendUsed THEN {"IncVoidSideEffect"} ELSE {})]

RECURSIVE SetItems(_, _, _, _, _)
SetItems(q, i, S, st, dv) ==
  IF i > Len(q.items) THEN [S |-> S, st |-> st, dv |-> dv]
  ELSE LET it == q.items[i] IN
       IF ~q.create /\ ~Has(S.store, it.k) THEN SetItems(q, i + 1, S, Append(st, "NOT_FOUND"), dv)
       ELSE IF ~q.over /\ Has(S.store, it.k) THEN SetItems(q, i + 1, S, Append(st, "NOTHING_CHANGED"), dv)
       ELSE LET o == SetOne(S, it) IN SetItems(q, i + 1, o.S, Append(st, o.status), dv \cup o.dv)

SwampErr(S, code) ==
  Out(S, [err |-> "", nsw |-> IF D("SetErrorExtraResponse") THEN 2 ELSE 1, sw |-> code, st |-> <<>>],
      IF D("SetErrorExtraResponse") THEN {"SetErrorExtraResponse"} ELSE {})

DoSet(q, S) ==
  IF ~q.create /\ ~q.over THEN {SwampErr(S, "CanNotBeExecuted")}
  ELSE IF ~q.create /\ ~Exists(S) THEN {SwampErr(S, "SwampDoesNotExist")}
  ELSE LET o == SetItems(q, 1, Summon(S), <<>>, {})
       IN {Out(o.S, [err |-> "", nsw |-> 1, sw |-> "", st |-> o.st],
               o.dv \cup (IF IsEmpty(o.S.store) /\ D("EmptySwampExists") THEN {"EmptySwampExists"} ELSE {}))}

-----------------------------------------------------------------------------
(* reads *)

NotThere(S) == {Err(S, "FailedPrecondition", {})}
\* a read that is answered although the swamp holds nothing needed the EmptySwampExists deviation
Lenient(S) == IF IsEmpty(S.store) THEN {"EmptySwampExists"} ELSE {}

Sub(f, ks) == [k \in (DOMAIN f) \cap Range(ks) |-> f[k]]

DoGet(q, S) ==
  IF ~Exists(S) THEN NotThere(S)
  ELSE {Out(S, [err |-> "", sx |-> TRUE,
                tr |-> [i \in DOMAIN q.keys |-> IF Has(S.store, q.keys[i]) THEN Wire(q.keys[i], S.store[q.keys[i]])
                                                ELSE Missing(q.keys[i])]], Lenient(S) \cup HidDv(Sub(S.store, q.keys)))}

DoGetAll(q, S) == IF ~Exists(S) THEN NotThere(S) ELSE {Out(S, [err |-> "", tr |-> WireAll(S.store)], Lenient(S) \cup HidDv(S.store))}

DoGetByKeys(q, S) ==
  IF ~Exists(S) THEN NotThere(S) ELSE {Out(S, [err |-> "", tr |-> WireAll(Sub(S.store, q.keys))], Lenient(S) \cup HidDv(Sub(S.store, q.keys)))}

DoCount(q, S) ==
  IF ~Exists(S) THEN NotThere(S) ELSE {Out(S, [err |-> "", sx |-> TRUE, n |-> Cardinality(DOMAIN S.store)], Lenient(S))}

DoIsSwampExist(q, S) == {Out(S, [err |-> "", b |-> Exists(S)], IF Exists(S) THEN Lenient(S) ELSE {})}

DoIsKeyExist(q, S) == IF ~Exists(S) THEN NotThere(S) ELSE {Out(S, [err |-> "", b |-> Has(S.store, q.k)], Lenient(S))}

DoAreKeysExist(q, S) ==
  IF ~Exists(S) THEN NotThere(S)
  ELSE {Out(S, [err |-> "", bs |-> [i \in DOMAIN q.keys |-> Has(S.store, q.keys[i])]], Lenient(S))}

-----------------------------------------------------------------------------
(* Delete, ShiftByKeys, Destroy *)

RECURSIVE DelKeys(_, _, _, _)
DelKeys(ks, i, S, st) ==
  IF i > Len(ks) THEN [S |-> S, st |-> st]
  ELSE IF Has(S.store, ks[i])
         THEN DelKeys(ks, i + 1, AutoDestroy(DeleteKey(S, ks[i])), Append(st, "DELETED"))
         ELSE DelKeys(ks, i + 1, S, Append(st, "NOT_FOUND"))

DoDelete(q, S) ==
  IF ~Exists(S) THEN {Out(S, [err |-> "", sw |-> "SwampDoesNotExist", st |-> <<>>], {})}
  ELSE LET o == DelKeys(q.keys, 1, S, <<>>) IN {Out(o.S, [err |-> "", sw |-> "", st |-> o.st], Lenient(S))}

RECURSIVE DropAll(_, _, _)
DropAll(S, ks, i) == IF i > Len(ks) THEN S ELSE DropAll(IF Has(S.store, ks[i]) THEN DeleteKey(S, ks[i]) ELSE S, ks, i + 1)

DoShiftByKeys(q, S) ==
  IF ~Exists(S) THEN NotThere(S)
  ELSE LET hit == Sub(S.store, q.keys)
           ks == KeysIn(hit)
           \* the response is built from clones
           tr == [i \in DOMAIN ks |-> View(ks[i], hit[ks[i]], CloneOf(hit[ks[i]].c))]
           plain == [i \in DOMAIN ks |-> Wire(ks[i], hit[ks[i]])]
       IN {Out(AutoDestroy(DropAll(S, q.keys, 1)), [err |-> "", tr |-> tr],
               Lenient(S) \cup HidDv(hit) \cup (IF tr = plain THEN {} ELSE {"U32PushWrongType"}))}

DoDestroy(q, S) == {Out(Destroyed(S), [err |-> ""], {})}

-----------------------------------------------------------------------------
(* typed increments *)

CondHolds(c, cur) ==
  CASE c.op = "none" -> TRUE
    [] c.op = "eq" -> cur = c.v
    [] c.op = "ne" -> cur # c.v
    [] c.op = "gt" -> cur > c.v
    [] c.op = "ge" -> cur >= c.v
    [] c.op = "lt" -> cur < c.v
    [] c.op = "le" -> cur <= c.v

IncMeta(r, m) ==
  IF ~m.on THEN r
  ELSE [r EXCEPT !.ca = IF m.ca THEN NOW ELSE @, !.cb = IF m.cb # 0 THEN m.cb ELSE @,
                 !.ua = IF m.ua THEN NOW ELSE @, !.ub = IF m.ub # 0 THEN m.ub ELSE @,
                 !.ea = IF m.ea # 0 THEN m.ea ELSE @, !.xf = @ \/ (Tracking /\ m.ea # 0)]
IncMetaGiven(m) == m.on /\ (m.ca \/ m.cb # 0 \/ m.ua \/ m.ub # 0 \/ m.ea # 0)

MetaResp(r) ==
  IF r.ca = 0 /\ r.cb = 0 /\ r.ua = 0 /\ r.ub = 0 /\ r.ea = 0
    THEN [on |-> FALSE, ca |-> 0, cb |-> 0, ua |-> 0, ub |-> 0, ea |-> 0]
    ELSE [on |-> TRUE, ca |-> r.ca, cb |-> r.cb, ua |-> r.ua, ub |-> r.ub, ea |-> r.ea]

\* one outcome of an increment, given which metadata descriptor is applied
IncWith(q, S0, m) ==
  LET S == Summon(S0)
      k == q.k
      there == Has(S.store, k)
      old == Obj(S, k)
      pendUsed == PendUsed(S, k)
      ty == TypeOf(old.c)
      base == IF ty = "void" THEN [old EXCEPT !.c = CScalar(q.t, 0)] ELSE old   \* the prepared typed 0
      r1 == IncMeta(base, m)
      cur == r1.c.v
      pdv == IF pendUsed THEN {"IncVoidSideEffect"} ELSE {}
      edv == IF IsEmpty(S.store) /\ D("EmptySwampExists") THEN {"EmptySwampExists"} ELSE {}
  IN IF ty # "void" /\ ty # q.t THEN Err(S, "InvalidArgument", pdv \cup edv)
     ELSE IF ~CondHolds(q.cond, cur) THEN
          \* the value is not modified; the metadata descriptor has been applied (documented order)
          LET strictRec == IncMeta(old, m)
              keep == D("IncVoidSideEffect")
              flags == IF D("StickyDirty") THEN old.dirty \/ ty = "void" \/ IncMetaGiven(m) ELSE FALSE
              rec == [IF keep THEN r1 ELSE strictRec EXCEPT !.dirty = flags]   \* (no save: the expiration index is not told)
              S1 == IF there
                      THEN LET S2 == [S EXCEPT !.store = Put(S.store, k, rec)]
                           IN IF D("IncMetaNotSaved") THEN S2 ELSE Written(S2, k, rec)
                      ELSE IF keep THEN [S EXCEPT !.pend = Put(S.pend, k, rec)] ELSE S
          IN Out(S1, [err |-> "", val |-> cur, inc |-> FALSE, m |-> MetaResp(r1)],
                 pdv \cup (IF keep /\ there /\ ty = "void" THEN {"IncVoidSideEffect"} ELSE {})
                     \cup (IF IsEmpty(S1.store) /\ D("EmptySwampExists") THEN {"EmptySwampExists"} ELSE {}))
     ELSE LET r2 == [r1 EXCEPT !.c = CScalar(q.t, cur + q.by)]
              sv == SaveObj(S, k, r2, TRUE)
          IN Out(sv.S, [err |-> "", val |-> cur + q.by, inc |-> TRUE, m |-> MetaResp(r2)], pdv)

DoInc(q, S) ==
  LET there == Has(S.store, q.k)
      voidKey == there /\ TypeOf(S.store[q.k].c) = "void"
      \* as built the descriptor is chosen by the content type of the object at hand, so a left-over
      \* in-flight object that already holds the typed 0 counts as "existing"
      leftover == PendUsed(S, q.k) /\ TypeOf(S.pend[q.k].c) # "void"
  IN IF leftover THEN {IncWith(q, S, q.mx)}
     ELSE IF ~there THEN {IncWith(q, S, q.mn)}
     ELSE IF voidKey THEN {IncWith(q, S, q.mn), IncWith(q, S, q.mx)}   \* "existed before" is ambiguous for a key without a value
     ELSE {IncWith(q, S, q.mx)}

-----------------------------------------------------------------------------
(* uint32 sets *)

RECURSIVE PushPairs(_, _, _, _, _)
PushPairs(ps, i, S, bad, dv) ==
  IF i > Len(ps) THEN [S |-> S, bad |-> bad, dv |-> dv]
  ELSE LET k == ps[i].k
           there == Has(S.store, k)
           old == Obj(S, k)
           pendUsed == PendUsed(S, k)
           ty == TypeOf(old.c)
           wrong == there /\ ~(old.c.hs /\ ty = "u32s")
       IN IF wrong /\ ~D("U32PushWrongType") THEN PushPairs(ps, i + 1, S, TRUE, dv)
          ELSE LET c2 == IF old.c = CNil \/ (old.c.hs /\ ty = "u32s") \/ ~D("U32PushWrongType")
                           THEN CSlice(PushSeq(IF old.c.hs THEN old.c.u ELSE <<>>, ps[i].u))
                           ELSE [old.c EXCEPT !.t = IF @ = "nil" THEN "none" ELSE @, !.hs = TRUE, !.u = PushSeq(old.c.u, ps[i].u)]
                   new == [old EXCEPT !.c = c2]
                   sv == SaveObj(S, k, new, c2.u # old.c.u)
               IN PushPairs(ps, i + 1, sv.S, bad,
                            dv \cup (IF wrong \/ (pendUsed /\ old.c # CNil) THEN {"U32PushWrongType"} ELSE {})
                               \cup (IF pendUsed THEN {"IncVoidSideEffect"} ELSE {}))

DoU32Push(q, S) ==
  LET o == PushPairs(q.pairs, 1, Summon(S), FALSE, {})
      edv == IF IsEmpty(o.S.store) /\ D("EmptySwampExists") THEN {"EmptySwampExists"} ELSE {}
  IN {IF o.bad THEN Err(o.S, "InvalidArgument", o.dv \cup edv) ELSE Out(o.S, [err |-> ""], o.dv \cup edv)}

\* returns [S, bad, hang, dv]
RECURSIVE DelPairs(_, _, _, _, _)
DelPairs(ps, i, S, bad, dv) ==
  IF i > Len(ps) THEN [S |-> S, bad |-> bad, hang |-> FALSE, dv |-> dv]
  ELSE LET k == ps[i].k IN
       IF ~Has(S.store, k) THEN DelPairs(ps, i + 1, S, bad, dv)
       ELSE LET old == S.store[k]
                isSet == old.c.hs /\ TypeOf(old.c) = "u32s"
            IN IF ~old.c.hs /\ ~D("U32DeleteWrongType") THEN DelPairs(ps, i + 1, S, TRUE, dv)
               ELSE LET u2 == IF old.c.hs THEN FilterOut(old.c.u, ps[i].u) ELSE <<>>
                        new == IF old.c.hs THEN [old EXCEPT !.c.u = u2] ELSE old
                        \* as built the content flag is raised when an element is kept
                        flagNow == IF D("StickyDirty") THEN old.c.hs /\ u2 # <<>> ELSE u2 # old.c.u
                        sv == SaveObj(S, k, new, flagNow)
                        empties == ~old.c.hs \/ u2 = <<>>
                        guardFree == S.mode = "p0" /\ sv.flag
                        wdv == (IF ~old.c.hs THEN {"U32DeleteWrongType"} ELSE {})
                               \cup (IF old.c.hs /\ ~isSet THEN {"U32PushWrongType"} ELSE {})
                    IN IF ~empties THEN DelPairs(ps, i + 1, sv.S, bad, dv \cup wdv)
                       ELSE IF D("U32DeleteDeadlock") /\ ~guardFree
                              THEN [S |-> sv.S, bad |-> bad, hang |-> TRUE, dv |-> dv \cup wdv \cup {"U32DeleteDeadlock"}]
                       ELSE DelPairs(ps, i + 1, AutoDestroy(DeleteKey(sv.S, k)), bad, dv \cup wdv)

DoU32Delete(q, S) ==
  LET o == DelPairs(q.pairs, 1, Summon(S), FALSE, {})
      edv == IF IsEmpty(o.S.store) /\ D("EmptySwampExists") /\ o.S.open THEN {"EmptySwampExists"} ELSE {}
  IN {IF o.hang THEN Hang(o.S, o.dv)
      ELSE IF o.bad THEN Err(o.S, "InvalidArgument", o.dv \cup edv) ELSE Out(o.S, [err |-> ""], o.dv \cup edv)}

SummonedEmpty(S) == IF IsEmpty(S.store) /\ D("EmptySwampExists") THEN {"EmptySwampExists"} ELSE {}

DoU32Size(q, S0) ==
  LET S == Summon(S0) IN
  IF ~Has(S.store, q.k) THEN {Err(S, "InvalidArgument", SummonedEmpty(S))}
  ELSE LET c == S.store[q.k].c IN
       IF ~c.hs THEN {Err(S, "FailedPrecondition", {})}
       ELSE {Out(S, [err |-> "", n |-> Len(c.u)], IF TypeOf(c) = "u32s" THEN {} ELSE {"U32PushWrongType"})}

DoU32Has(q, S0) ==
  LET S == Summon(S0) IN
  IF ~Has(S.store, q.k) THEN {Err(S, "InvalidArgument", SummonedEmpty(S))}
  ELSE LET c == S.store[q.k].c IN
       {Out(S, [err |-> "", b |-> c.hs /\ SeqHas(c.u, q.x)],
            IF c.hs /\ TypeOf(c) # "u32s" /\ SeqHas(c.u, q.x) THEN {"U32PushWrongType"} ELSE {})}

-----------------------------------------------------------------------------
(* expiry-aware calls (C30) *)

\* ShiftExpiredTreasures: the expired records, oldest expiry first (ties: any order), at most n (0 = all).
\* The walk follows the expiration index and tests the current expiry of each indexed record.
ExpiredKeys(S) == {k \in DOMAIN S.store : Expired(S.store[k], NOW)}
Claimable(S, s, n) == LET hits == SelectSeq(s, LAMBDA k : Expired(S.store[k], NOW))
                      IN IF n = 0 \/ n > Len(hits) THEN hits ELSE SubSeq(hits, 1, n)

DoShiftExpired(q, S0) ==
  IF ~Exists(S0) THEN NotThere(S0)
  ELSE LET S == Built(S0) IN
       {LET t == Claimable(S, s, q.n)
        IN Out(AutoDestroy(DropAll(S, t, 1)),
               [err |-> "", tr |-> [i \in DOMAIN t |-> View(t[i], S.store[t[i]], CloneOf(S.store[t[i]].c))]],
               Lenient(S) \cup HidDv(Sub(S.store, t)) \cup StaleDv(S))
        : s \in Orders(Idx(S))}

\* GetByIndex on the expiration index: the records that have an expiry, in expiry order
DoGetByExpiry(q, S0) ==
  IF ~Exists(S0) THEN NotThere(S0)
  ELSE LET S == Built(S0) IN
       {Out(S, [err |-> "", tr |-> [i \in DOMAIN s |-> Wire(IF q.ord = "desc" THEN s[Len(s) + 1 - i] ELSE s[i],
                                                             S.store[IF q.ord = "desc" THEN s[Len(s) + 1 - i] ELSE s[i]])]],
            Lenient(S) \cup HidDv(S.store) \cup StaleDv(S))
        : s \in Orders(Idx(S))}

\* meta-only patches (PatchTreasures / PatchExpiredTreasures without ops): the request carries
\*   ea = the new expiry (0: leave), create = ClearExpiredAt, x = UpdatedBy (0: leave)
\* a patchable record holds a msgpack body (byte array id 5 = magic prefix + empty map)
PatchStatus(r) == LET ty == TypeOf(r.c) IN
                  IF ty = "void" THEN "KEY_NOT_FOUND" ELSE IF ty # "bytes" THEN "TYPE_MISMATCH"
                  ELSE IF r.c.v # 5 THEN "ENCODING_NOT_SUPPORTED" ELSE "PATCHED"
PatchedRec(r, q) == [r EXCEPT !.ub = IF q.x # 0 THEN q.x ELSE @, !.ea = IF q.create THEN 0 ELSE IF q.ea # 0 THEN q.ea ELSE @,
                              !.xf = @ \/ (Tracking /\ (q.create \/ q.ea # 0))]
PatchSave(S, k, q) ==
  LET old == S.store[k]
      new == PatchedRec(old, q)
      flagNow == IF D("StickyDirty") THEN (q.x # 0 \/ q.create \/ q.ea # 0) ELSE ~SameData(new, old)
  IN SaveObj(S, k, new, flagNow).S

DoPatchMeta(q, S0) ==
  LET S == Summon(S0) IN
  IF ~Has(S.store, q.k) THEN {Out(S, [err |-> "", st |-> <<"KEY_NOT_FOUND">>], SummonedEmpty(S))}
  ELSE LET st == PatchStatus(S.store[q.k])
       IN {Out(IF st = "PATCHED" THEN PatchSave(S, q.k, q) ELSE S, [err |-> "", st |-> <<st>>], {})}

RECURSIVE PatchSeq(_, _, _, _, _)
PatchSeq(S, s, i, q, acc) ==
  IF i > Len(s) THEN [S |-> S, pt |-> acc]
  ELSE LET k == s[i]
           st == PatchStatus(S.store[k])
           S1 == IF st = "PATCHED" THEN PatchSave(S, k, q) ELSE S
       IN PatchSeq(S1, s, i + 1, q, Append(acc, [k |-> k, st |-> st, ea |-> S1.store[k].ea]))

\* PatchExpiredTreasures: claims the expired records, oldest expiry first, at most n (0 = all)
DoPatchExpired(q, S0) ==
  IF ~Exists(S0) THEN {Out(S0, [err |-> "", pt |-> <<>>], {})}
  ELSE LET S == Built(S0) IN
       {LET t == Claimable(S, s, q.n)
            o == PatchSeq(S, t, 1, q, <<>>)
            \* the claimed records are re-indexed under their new expiry
            S2 == IF Tracking THEN Resorted(o.S, ((DOMAIN o.S.xk) \ Range(t)) \cup {k \in Range(t) : o.S.store[k].ea # 0}) ELSE o.S
        IN Out(S2, [err |-> "", pt |-> o.pt], Lenient(S) \cup StaleDv(S))
        : s \in Orders(Idx(S))}

\* expiry filter (GetByIndexStream over the key index with one TreasureFilter on ExpiredAt): a record
\* without expiry never matches a comparison; IS_EMPTY / IS_NOT_EMPTY test for "no expiry"
ExpMatches(ea, fop, ref) ==
  CASE fop = "empty" -> ea = 0
    [] fop = "notempty" -> ea # 0
    [] fop = "lt" -> ea # 0 /\ ea < ref
    [] fop = "le" -> ea # 0 /\ ea <= ref
    [] fop = "gt" -> ea # 0 /\ ea > ref
    [] fop = "ge" -> ea # 0 /\ ea >= ref
    [] fop = "eq" -> ea # 0 /\ ea = ref
    [] fop = "ne" -> ea # 0 /\ ea # ref

DoFilterExp(q, S) ==
  IF ~Exists(S) THEN NotThere(S)
  ELSE LET hit == [k \in {x \in DOMAIN S.store : ExpMatches(S.store[x].ea, q.fop, q.ea)} |-> S.store[k]]
       IN {Out(S, [err |-> "", tr |-> WireAll(hit)], Lenient(S) \cup HidDv(hit))}

-----------------------------------------------------------------------------
(* close and reload (C05): the swamp is written, evicted and loaded again *)

\* what the file gives back for a record: gob does not transmit zero values, so with the GobZero
\* deviation every zero-like component of the content is gone after the round trip
Reloaded(r) ==
  LET c == r.c
      keepScalar == HasScalar(c) /\ c.v # 0
      keepSet == c.hs /\ c.u # <<>>
      c2 == [void |-> c.void, t |-> IF keepScalar THEN c.t ELSE "none", v |-> IF keepScalar THEN c.v ELSE 0,
             hs |-> keepSet, u |-> IF keepSet THEN c.u ELSE <<>>]
  IN IF D("GobZero") THEN [Clean(r) EXCEPT !.c = c2] ELSE Clean(r)

DoCloseReload(q, S) ==
  IF S.mode = "mem" THEN {Out(S, [err |-> ""], SummonedEmpty(S))}    \* not applicable to in-memory swamps
  ELSE LET exact == [k \in DOMAIN S.store |-> Clean(S.store[k])]
           \* the file after the closing flush, as built
           file == Flush(S).disk
           keys == IF D("DeleteRecreateResurrects") THEN (DOMAIN file) \cup (DOMAIN exact) ELSE DOMAIN exact
           src == [k \in keys |-> IF Has(file, k) /\ (D("IncMetaNotSaved") \/ ~Has(exact, k)) THEN file[k] ELSE exact[k]]
           st2 == [k \in DOMAIN src |-> Reloaded(src[k])]
           dv == (IF \E k \in DOMAIN src : Reloaded(src[k]) # src[k] THEN {"GobZero"} ELSE {})
                 \cup (IF \E k \in DOMAIN exact : src[k] # exact[k] THEN {"IncMetaNotSaved"} ELSE {})
                 \cup (IF DOMAIN src # DOMAIN exact THEN {"DeleteRecreateResurrects"} ELSE {})
           \* as built an empty swamp that was summoned has a file, so it is still there after the reload
           open2 == IF D("EmptySwampExists") THEN S.open \/ ~IsEmpty(st2) ELSE ~IsEmpty(st2)
       IN {Out([S EXCEPT !.store = st2, !.pend = NoMap, !.disk = src, !.wq = {}, !.dq = {}, !.filed = DOMAIN st2, !.open = open2,
                        !.xb = FALSE, !.xk = NoMap],
               [err |-> ""], dv \cup (IF open2 /\ IsEmpty(st2) THEN {"EmptySwampExists"} ELSE {}))}

-----------------------------------------------------------------------------

Outs(q, S) ==
  CASE q.op = "Set" -> DoSet(q, S)
    [] q.op = "Get" -> DoGet(q, S)
    [] q.op = "GetAll" -> DoGetAll(q, S)
    [] q.op = "GetByKeys" -> DoGetByKeys(q, S)
    [] q.op = "Count" -> DoCount(q, S)
    [] q.op = "IsSwampExist" -> DoIsSwampExist(q, S)
    [] q.op = "IsKeyExist" -> DoIsKeyExist(q, S)
    [] q.op = "AreKeysExist" -> DoAreKeysExist(q, S)
    [] q.op = "Delete" -> DoDelete(q, S)
    [] q.op = "ShiftByKeys" -> DoShiftByKeys(q, S)
    [] q.op = "Destroy" -> DoDestroy(q, S)
    [] q.op = "Inc" -> DoInc(q, S)
    [] q.op = "U32Push" -> DoU32Push(q, S)
    [] q.op = "U32Delete" -> DoU32Delete(q, S)
    [] q.op = "U32Size" -> DoU32Size(q, S)
    [] q.op = "U32Has" -> DoU32Has(q, S)
    [] q.op = "ShiftExpired" -> DoShiftExpired(q, S)
    [] q.op = "GetByIndex" -> DoGetByExpiry(q, S)
    [] q.op = "CloseReload" -> DoCloseReload(q, S)
    [] q.op = "PatchMeta" -> DoPatchMeta(q, S)
    [] q.op = "PatchExpired" -> DoPatchExpired(q, S)
    [] q.op = "FilterExp" -> DoFilterExp(q, S)

State == [store |-> store, pend |-> pend, open |-> open, disk |-> disk, wq |-> wq, dq |-> dq, filed |-> filed, xb |-> xb, xk |-> xk, mode |-> mode]

\* what a client can observe of an outcome (the ghost parts of the state are left out)
Proj(o) == [r |-> o.r, ret |-> o.ret, open |-> o.S.open, store |-> [k \in DOMAIN o.S.store |-> Clean(o.S.store[k])]]

Init ==
  /\ store = NoMap /\ pend = NoMap /\ open = FALSE /\ disk = NoMap /\ wq = {} /\ dq = {} /\ filed = {} /\ xb = FALSE /\ xk = NoMap
  /\ mode \in {"mem", "p0", "pw"}
  /\ last = [q |-> [op |-> "Init"], r |-> [err |-> ""], ret |-> TRUE, dv |-> {}, before |-> NoMap]
  /\ ops = 0

Call(q) ==
  /\ last.ret                       \* single client: nothing can be sent after a call that never returns
  /\ \E o \in Outs(q, State) :
       /\ store' = o.S.store /\ pend' = o.S.pend /\ open' = o.S.open /\ disk' = o.S.disk /\ wq' = o.S.wq /\ dq' = o.S.dq /\ filed' = o.S.filed /\ xb' = o.S.xb /\ xk' = o.S.xk
       /\ last' = [q |-> q, r |-> o.r, ret |-> o.ret, dv |-> o.dv, before |-> store]
  /\ ops' = ops + 1
  /\ UNCHANGED mode

=============================================================================
