----------------------------- MODULE SwampName -----------------------------
(***************************************************************************)
(* Fast swamp-name discovery (C29).                                        *)
(*   app/core/hydra/swamp/chronicler/v2/reader.go  ReadSwampName           *)
(*   app/server/explorer/scanner.go                scanDirectory/scanFile  *)
(*   app/server/explorer/index.go                  listing                 *)
(*                                                                         *)
(* One storage file per swamp name (the path is a function of the name).   *)
(* A file is [ex, ver, hname, meta, bad]:                                  *)
(*   ver    2 = legacy format (name in an OpMetadata entry of a block),    *)
(*          3 = current format (name bytes behind the 64-byte header)      *)
(*   hname  the name stored behind the header ("" = none)                  *)
(*   meta   the names carried by OpMetadata entries, in file order         *)
(*   bad    the header's 16-bit name length does not cover the name that   *)
(*          was written behind it (deviation NameLen16)                    *)
(* Histories: a file is created fresh by the engine (current format) or    *)
(* is a legacy file; it is appended to (format preserved), compacted by    *)
(* any compaction path or upgraded by the format migration (both rewrite   *)
(* it in the current format with the name LoadIndex reports), destroyed.   *)
(*                                                                         *)
(* Dev: "NameLen16" - a name of 65536 bytes or more (Long) is written in   *)
(*      full but its length is stored modulo 65536.                        *)
(***************************************************************************)
EXTENDS Integers, Sequences, FiniteSets, TLC

CONSTANTS Names,    \* swamp names (non-empty, sanctuary/realm/swamp), as positive integers
          Long,     \* the names of 65536 bytes or more
          Dev, MaxSteps

VARIABLES files,    \* [Names -> file]
          steps, last

vars == <<files, steps, last>>
view == <<files, steps>>

None == 0           \* "no name" (names are positive integers: interned strings)
NoFile == [ex |-> FALSE, ver |-> 3, hname |-> None, meta |-> <<>>, bad |-> FALSE]

FirstMeta(f) == IF \E i \in DOMAIN f.meta : f.meta[i] # None
                THEN f.meta[CHOOSE i \in DOMAIN f.meta : f.meta[i] # None /\ \A j \in 1..(i - 1) : f.meta[j] = None]
                ELSE None
\* the name a full load (LoadIndex) reports: header area first, legacy metadata entry as fallback
LoadName(f) == IF f.hname # None THEN f.hname ELSE FirstMeta(f)
\* reader.go ReadSwampName: current format -> header area only; legacy -> full load
ReadName(f) == IF f.ver = 3 THEN f.hname ELSE LoadName(f)
\* scanner.go scanFile: header area, else the first OpMetadata entry
ScanName(f) == IF f.hname # None THEN f.hname ELSE FirstMeta(f)

Present == {n \in Names : files[n].ex}
Listing == {ScanName(files[n]) : n \in Present} \ {None}

Init == files = [n \in Names |-> NoFile] /\ steps = 0 /\ last = [a |-> "Init", n |-> None]

Tick(a, n) == steps' = steps + 1 /\ last' = [a |-> a, n |-> n]

\* the engine creates the swamp's file (chronicler / writer / V1->V2 migrator: NewFileWriterWithName)
CreateFresh(n) ==
  /\ ~files[n].ex
  /\ files' = [files EXCEPT ![n] = [ex |-> TRUE, ver |-> 3, hname |-> n, meta |-> <<>>,
                                    bad |-> ("NameLen16" \in Dev /\ n \in Long)]]
  /\ Tick("CreateFresh", n)

\* a file written by the legacy engine: version 2, the name in a metadata entry of the first block
CreateLegacy(n) ==
  /\ ~files[n].ex /\ n \notin Long
  /\ files' = [files EXCEPT ![n] = [ex |-> TRUE, ver |-> 2, hname |-> None, meta |-> <<n>>, bad |-> FALSE]]
  /\ Tick("CreateLegacy", n)

\* more entries are appended: the format of an existing file is preserved
AppendTo(n) ==
  /\ files[n].ex
  /\ UNCHANGED files /\ Tick("Append", n)

\* compaction (every path) and the format migration rewrite the file in the current format
\* (a file whose stored name length is wrong cannot be loaded: the rewrite does not happen)
Rewrite(n, a) ==
  /\ files[n].ex
  /\ files' = IF files[n].bad THEN files
              ELSE [files EXCEPT ![n] = [ex |-> TRUE, ver |-> 3, hname |-> LoadName(files[n]), meta |-> <<>>, bad |-> FALSE]]
  /\ Tick(a, n)
Compact(n) == Rewrite(n, "Compact")
MigrateFormat(n) == IF files[n].ver = 3 THEN files[n].ex /\ UNCHANGED files /\ Tick("MigrateFormat", n)
                    ELSE Rewrite(n, "MigrateFormat")

Destroy(n) ==
  /\ files[n].ex
  /\ files' = [files EXCEPT ![n] = NoFile]
  /\ Tick("Destroy", n)

Next == \E n \in Names : CreateFresh(n) \/ CreateLegacy(n) \/ AppendTo(n) \/ Compact(n) \/ MigrateFormat(n) \/ Destroy(n)
Spec == Init /\ [][Next]_vars
Bounded == steps <= MaxSteps

-----------------------------------------------------------------------------
(* Properties (C29) *)
\* the fast lookup and the explorer's per-file scan return the name of the swamp that wrote the file
NameAgrees == \A n \in Present : ~files[n].bad /\ ReadName(files[n]) = n /\ ScanName(files[n]) = n
\* the explorer's listing contains exactly the swamps present on disk
ListingExact == Listing = Present /\ \A n \in Present : ~files[n].bad
=============================================================================
