----------------------------- MODULE Trace_Cap -----------------------------
(***************************************************************************)
(* Trace validation for Cap (C12).  Lines:                                 *)
(*   reset   new history                                                   *)
(*   seed    a record is written without a cap while nothing else runs     *)
(*   call    a cap-bearing request leaves a client process                 *)
(*   count   hooks cap.batch / beacon.cap: the operation holds capMu and   *)
(*           has the number of matching records it bases its budget on     *)
(*   cell    hook cap.cell: one four-cell decision of PatchFields          *)
(*           (pre, post, accepted, budget left)                            *)
(*   sel     hook beacon.select: the records selected under the beacon     *)
(*           lock (still under capMu)                                      *)
(*   patched hook patchexpired.patched: a selected record was patched      *)
(*   ret     the response                                                  *)
(*   post    dump of the swamp at a quiescent point                        *)
(* All hooks fire under capMu, so their order in the file is the order of  *)
(* the steps.  Unlogged: the as-built PreCount, End (release of capMu),    *)
(* and a Cell on a missing key (no decision is taken).                     *)
(* Count <= Max and FourCell are evaluated in every state (strict pass);   *)
(* with deviations on, `over` remembers whether the cap was ever exceeded  *)
(* and is printed with `used` at every reset.                              *)
(***************************************************************************)
EXTENDS Cap, Json, IOUtils

Trace == ndJsonDeserialize(IOEnv.TRACE_FILE)

VARIABLES l, h, over
tvars == <<vars, l, h, over>>

Mark(n) == TLCSet(1, IF n > TLCGet(1) THEN n ELSE TLCGet(1))
ToReq(o) == [kind |-> o.kind, n |-> o.n, patches |-> o.patches, create |-> o.create = 1, seedm |-> o.seedm = 1]

TraceInit == Init /\ l = 1 /\ h = 0 /\ over = FALSE /\ TLCSet(1, 1)

Ev(e) == l <= Len(Trace) /\ Trace[l].ev = e
Consume == l' = l + 1 /\ Mark(l + 1) /\ h' = h

TrSeed ==
  /\ Ev("seed")
  /\ \A p \in Procs : pc[p] = "idle"
  /\ rec' = [rec EXCEPT ![Trace[l].k] = [live |-> TRUE, m |-> Trace[l].m = 1, x |-> Trace[l].x = 1, e |-> Trace[l].e = 1]]
  /\ UNCHANGED <<mu, pc, req, pre, budget, todo, sel, out, last, used, nops>>
  /\ Consume

TrCall == Ev("call") /\ Call(Trace[l].p, ToReq(Trace[l].op)) /\ Consume

TrCount ==
  /\ Ev("count")
  /\ Begin(Trace[l].p)
  /\ pre'[Trace[l].p] = Trace[l].matching
  /\ Consume

TrCell ==
  /\ Ev("cell")
  /\ LET p == Trace[l].p IN
       /\ Cell(p)
       /\ rec[Head(todo[p])[1]].live \/ req[p].create
       /\ last'.p = p /\ last'.k = Trace[l].k
       /\ last'.was = (Trace[l].was = 1) /\ last'.now = (Trace[l].now = 1)
       /\ last'.ok = (Trace[l].ok = 1) /\ last'.after = Trace[l].left
  /\ Consume

TrSel == Ev("sel") /\ Select(Trace[l].p, Trace[l].keys) /\ Consume

TrPatched ==
  /\ Ev("patched")
  /\ LET p == Trace[l].p IN Patched(p) /\ Head(todo[p]) = Trace[l].k
  /\ Consume

TrRet ==
  /\ Ev("ret")
  /\ LET p == Trace[l].p IN Return(p) /\ out[p] = Trace[l].out
  /\ Consume

TrPost ==
  /\ Ev("post")
  /\ \A p \in Procs : pc[p] = "idle"
  /\ LET d == Trace[l].recs
         listed == {d[i].k : i \in DOMAIN d}
     IN /\ \A k \in Keys : rec[k].live <=> k \in listed
        /\ \A i \in DOMAIN d : LET r == rec[d[i].k] IN
             r.m = (d[i].m = 1) /\ r.x = (d[i].x = 1) /\ r.e = (d[i].e = 1)
  /\ UNCHANGED vars
  /\ Consume

TrReset ==
  /\ Ev("reset")
  /\ rec' = [k \in Keys |-> Dead] /\ mu' = ""
  /\ pc' = [p \in Procs |-> "idle"] /\ req' = [p \in Procs |-> NoReq] /\ pre' = [p \in Procs |-> -1]
  /\ budget' = [p \in Procs |-> 0] /\ todo' = [p \in Procs |-> <<>>] /\ sel' = [p \in Procs |-> <<>>]
  /\ out' = [p \in Procs |-> <<>>] /\ last' = NoLast /\ used' = {} /\ nops' = 0
  /\ l' = l + 1 /\ Mark(l + 1) /\ h' = Trace[l].h
  /\ h = 0 \/ PrintT(ToJson([h |-> h, used |-> used, over |-> over]))

Hidden ==
  /\ \E p \in Procs : \/ PreCount(p) \/ End(p) \/ Removed(p)
                      \/ (Cell(p) /\ ~rec[Head(todo[p])[1]].live /\ ~req[p].create)
  /\ UNCHANGED <<l, h>>

Step == TrReset \/ TrSeed \/ TrCall \/ TrCount \/ TrCell \/ TrSel \/ TrPatched \/ TrRet \/ TrPost \/ Hidden
TraceNext ==
  /\ Step
  /\ over' = IF Ev("reset") /\ l' = l + 1 THEN FALSE
             ELSE over \/ Cardinality({k \in Keys : rec'[k].live /\ rec'[k].m}) > Max
TraceSpec == TraceInit /\ [][TraceNext]_tvars

TraceAccepted ==
  LET m == TLCGet(1) IN
  IF m = Len(Trace) + 1 THEN TRUE
  ELSE /\ PrintT(<<"TRACE_REJECTED_AT_LINE", m, IF m <= Len(Trace) THEN Trace[m] ELSE "end">>)
       /\ FALSE
=============================================================================
