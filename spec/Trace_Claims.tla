---------------------------- MODULE Trace_Claims ----------------------------
(***************************************************************************)
(* Trace validation for Claims (C11).  The driver logs, per history:       *)
(*   reset  new history (fresh swamp; mode = mem | disk)                    *)
(*   call   a request leaves a client process (claimer or interferer)       *)
(*   pred   hook "claims.pred": the gateway has looked up the bucket        *)
(*          candidates of the filter's indexable leg (keys logged); an      *)
(*          observation made after the lookup, before the selection lock    *)
(*   sel    hook "beacon.select": end of the index walk, emitted under the  *)
(*          beacon lock, with the keys taken in walk order                  *)
(*   ret    the response arrives (keys + record state / per-key status)     *)
(*   post   full dump of the swamp at a quiescent point                     *)
(* call/ret are written by the client goroutine before the request and      *)
(* after the response, so their order in the file is consistent with real   *)
(* time; everything a call does in between (Lock, Visit, DelStep,           *)
(* PatchStep, reindexing, an interferer's Apply) is an unlogged step of     *)
(* the specification that TLC places anywhere between the call's logged     *)
(* events.  A history is explained iff some placement reproduces every      *)
(* logged response, candidate set, selection and dump.                      *)
(*                                                                          *)
(* TLC register 1 holds the high-water mark of consumed lines; at every     *)
(* reset the deviations that changed an outcome in the finished history     *)
(* are printed.                                                             *)
(***************************************************************************)
EXTENDS Claims, Json, IOUtils

Trace == ndJsonDeserialize(IOEnv.TRACE_FILE)

VARIABLES l, h
tvars == <<vars, l, h>>

Range(s) == {s[i] : i \in DOMAIN s}
Mark(n) == TLCSet(1, IF n > TLCGet(1) THEN n ELSE TLCGet(1))

ToReq(o) ==
  [kind |-> o.kind, n |-> o.n, max |-> o.max, idx |-> o.idx, desc |-> o.desc = 1,
   f |-> [mode |-> o.f.mode, useG |-> o.f.useG = 1, G |-> Range(o.f.G), useS |-> o.f.useS = 1, S |-> o.f.S],
   lo |-> o.lo, hi |-> o.hi, newst |-> o.newst, lease |-> o.lease, cond |-> o.cond]

\* a logged expiry of -1 means "not observed" (the response field is read after the record guard is gone)
SameEntry(a, b) ==
  IF DOMAIN a # DOMAIN b THEN FALSE
  ELSE \A f \in DOMAIN a : a[f] = b[f] \/ (f = "exp" /\ b[f] = -1)
SameOut(o, g) ==
  /\ Len(o) = Len(g)
  /\ \A i \in DOMAIN o : SameEntry(o[i], g[i])

TraceInit == Init /\ mode = "mem" /\ l = 1 /\ h = 0 /\ TLCSet(1, 1)

Ev(e) == l <= Len(Trace) /\ Trace[l].ev = e
Consume == l' = l + 1 /\ Mark(l + 1) /\ h' = h

TrCall ==
  /\ Ev("call")
  /\ LET p == Trace[l].p IN
       IF p \in Claimers THEN Call(p, ToReq(Trace[l].op)) ELSE ICall(p, Trace[l].op)
  /\ Consume

\* the hook fires after the bucket lookup, outside any lock; the bucket index is maintained at the end of a save /
\* delete, so it may lag the records while such a call is in progress.  The line supplies the candidate set the
\* as-built predicate really closes over (the strict specification never reads it); the same goroutine takes the
\* selection lock only afterwards.
TrPred ==
  /\ Ev("pred")
  /\ pc[Trace[l].p] = "lock"
  /\ cand' = [cand EXCEPT ![Trace[l].p] = Range(Trace[l].cand)]
  /\ UNCHANGED <<mode, rec, ix, held, lock, pc, req, walk, res, todo, out, owner, alive, bad, used, nops>>
  /\ Consume

TrSel ==
  /\ Ev("sel")
  /\ LET p == Trace[l].p IN
       /\ Unlock(p)
       /\ [i \in DOMAIN res[p] |-> res[p][i].k] = Trace[l].keys
  /\ Consume

TrRet ==
  /\ Ev("ret")
  /\ LET p == Trace[l].p IN
       /\ Return(p)
       /\ IF p \in Claimers THEN SameOut(out[p], Trace[l].out) ELSE (out[p] = Trace[l].out \/ Trace[l].out = <<"?">>)
  /\ Consume

TrPost ==
  /\ Ev("post")
  /\ \A p \in Procs : Quiet(p)
  /\ LET d == Trace[l].recs
         listed == {d[i].k : i \in DOMAIN d}
     IN /\ \A k \in Keys : rec[k].live <=> k \in listed
        /\ \A i \in DOMAIN d : LET r == rec[d[i].k] IN r.exp = d[i].exp /\ r.grp = d[i].grp /\ r.st = d[i].st
  /\ UNCHANGED vars
  /\ Consume

TrReset ==
  /\ Ev("reset")
  /\ mode' = Trace[l].mode
  /\ rec' = [k \in Keys |-> Dead] /\ ix' = [k \in Keys |-> 0] /\ held' = [k \in Keys |-> {}]
  /\ lock' = [x \in Idx |-> ""]
  /\ pc' = [p \in Procs |-> "idle"] /\ req' = [p \in Procs |-> NoReq]
  /\ cand' = [p \in Procs |-> {}] /\ walk' = [p \in Procs |-> {}] /\ res' = [p \in Procs |-> <<>>]
  /\ todo' = [p \in Procs |-> <<>>] /\ out' = [p \in Procs |-> <<>>]
  /\ owner' = [k \in Keys |-> ""] /\ alive' = {} /\ bad' = {} /\ used' = {} /\ nops' = 0
  /\ l' = l + 1 /\ Mark(l + 1) /\ h' = Trace[l].h
  /\ h = 0 \/ PrintT(ToJson([h |-> h, used |-> used, bad |-> bad]))

\* steps of the specification that leave no line in the trace
Hidden ==
  /\ \/ \E c \in Claimers : \/ BuildPredicate(c)
                            \/ (Unlock(c) /\ res[c] = <<>>)   \* nothing walked (missing / empty swamp): no hook event
                            \/ Lock(c) \/ Visit(c) \/ DelStep(c) \/ PatchStep(c) \/ CReindex(c)
     \/ \E i \in Interferers : Apply(i) \/ IReindex(i)
  /\ UNCHANGED <<l, h>>

TraceNext == TrReset \/ TrCall \/ TrPred \/ TrSel \/ TrRet \/ TrPost \/ Hidden
TraceSpec == TraceInit /\ [][TraceNext]_tvars

TraceAccepted ==
  LET m == TLCGet(1) IN
  IF m = Len(Trace) + 1 THEN TRUE
  ELSE /\ PrintT(<<"TRACE_REJECTED_AT_LINE", m, IF m <= Len(Trace) THEN Trace[m] ELSE "end">>)
       /\ FALSE
=============================================================================
