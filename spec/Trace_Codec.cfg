SPECIFICATION TraceSpec
CONSTANTS
  Algs = {"gzip", "lz4", "snappy", "zstd"}
  Dev = {}
POSTCONDITION TraceComplete
CHECK_DEADLOCK FALSE
