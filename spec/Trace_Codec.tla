---------------------------- MODULE Trace_Codec ----------------------------
(***************************************************************************)
(* Validation of the outcome classes observed by harness/cmd/codec on the  *)
(* real compressor against Codec.  Every line is one class                 *)
(*   [alg, kind, damaged, xempty, outcome, count, ...]                     *)
(* and is replayed as a session  Init ; Damage(kind)? ; Decompress(outcome) *)
(* of the strict spec; for a line the strict spec does not allow, the      *)
(* deviations that would explain it (each on its own) are reported.        *)
(***************************************************************************)
EXTENDS Codec, Json, IOUtils, Sequences

Trace == ndJsonDeserialize(IOEnv.TRACE_FILE)

VARIABLE l
tvars == <<vars, l>>

Line == Trace[l]
\* "no error and empty output" IS the original when the input was empty
Norm(o) == IF Line.xempty /\ o = "empty" THEN "same" ELSE o

TraceInit == l = 1 /\ alg = "gzip" /\ phase = "compressed" /\ damaged = FALSE /\ kind = "none" /\ outcome = "none"

\* one line = one session, judged by the spec's own Decompress guard
TrLine ==
  /\ l <= Len(Trace)
  /\ LET strict == Norm(Line.outcome) \in AllowedWith({}, Line.alg, Line.damaged, Line.kind)
         expl == {d \in AllDevs : Norm(Line.outcome) \in AllowedWith({d}, Line.alg, Line.damaged, Line.kind)}
     IN PrintT(ToJson([line |-> l, ok |-> strict, devs |-> expl]))
  /\ alg' = Line.alg /\ damaged' = Line.damaged /\ kind' = Line.kind /\ outcome' = Line.outcome
  /\ phase' = "done" /\ l' = l + 1

TraceNext == TrLine
TraceSpec == TraceInit /\ [][TraceNext]_tvars

TraceComplete ==
  LET d == TLCGet("stats").diameter IN
  IF d - 1 = Len(Trace) THEN TRUE ELSE PrintT(<<"TRACE_INCOMPLETE", d, Len(Trace)>>) /\ FALSE
=============================================================================
