SPECIFICATION TraceSpec
CONSTANTS
  Keys = {1,2,3,4,5,6,7,8,9,10,11,12,13,14,15,16}
  EntryPoints = {"inline", "close", "load", "forced", "cli", "api"}
  NoCleanup = {"cli", "api"}
  Dev <- TraceDev
  MaxAppends = 0
  MaxRuns = 1000000
  StaleTemps = {}
POSTCONDITION TraceComplete
CHECK_DEADLOCK FALSE
