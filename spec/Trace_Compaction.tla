-------------------------- MODULE Trace_Compaction --------------------------
(***************************************************************************)
(* Trace validation for Compaction (C03).  The driver harness/cmd/compaction *)
(* runs every compaction entry point of the real code on real files, with  *)
(* a file-operation hook (verifhook.FileOp) recording what the compactor   *)
(* does to <swamp>.hyd.compact, and writes one line per spec action.  Each *)
(* scenario is  setup ... done ; inside it `mark`/`rewind` save and        *)
(* restore the state so that every crash image cut out of the operation    *)
(* log (and the follow-up run on that image) is validated from the point   *)
(* where it branches off.  Observed results (LoadIndex of the swamp file,  *)
(* what a server Load makes of it, whether a temp file is left) are bound  *)
(* to the spec state at `start`, `end`, `crash`, `check`; the C03 invariants *)
(* must hold after every line (strict spec; with a deviation switched on  *)
(* only steps and observations are matched).                               *)
(* A scenario that no behaviour of the spec explains is abandoned          *)
(* (GiveUp) and the next one is validated; scenarios that reach their      *)
(* `done` line print {"ok": id}.                                           *)
(***************************************************************************)
EXTENDS Compaction, Json, IOUtils

Trace == ndJsonDeserialize(IOEnv.TRACE_FILE)
TraceDev == IF "TRACE_DEV" \in DOMAIN IOEnv /\ IOEnv.TRACE_DEV = "StaleTempAppend" THEN {"StaleTempAppend"} ELSE {}

VARIABLES l,      \* next line
          mode,   \* "run" | "skip"
          snap,   \* saved state (mark / rewind)
          snap0   \* the scenario's state after setup (restart: the same files again, for a run with an injected fault)
tvars == <<vars, l, mode, snap, snap0>>

FileOf(r) == IF r.ex THEN [ex |-> TRUE, hdr |-> r.hdr, ents |-> r.ents,
                            dur |-> IF r.hdr = 0 THEN -1 ELSE Len(r.ents)]
             ELSE NoFile
MapOf(ps) == [k \in Keys |-> IF \E i \in DOMAIN ps : ps[i][1] = k
                             THEN ps[CHOOSE i \in DOMAIN ps : ps[i][1] = k][2] ELSE 0]
State == [main |-> main, temp |-> temp, ref |-> ref, pc |-> pc, ep |-> ep, idx |-> idx, todo |-> todo, last |-> last]
Blank == [main |-> NoFile, temp |-> NoFile, ref |-> Empty, pc |-> "idle", ep |-> "", idx |-> Empty, todo |-> {},
          last |-> [a |-> "Init", ep |-> ""]]
SetState(s) ==
  /\ main' = s.main /\ temp' = s.temp /\ ref' = s.ref /\ pc' = s.pc /\ ep' = s.ep
  /\ idx' = s.idx /\ todo' = s.todo /\ last' = s.last
  /\ appends' = 0 /\ runs' = 0

TraceInit ==
  /\ main = NoFile /\ temp = NoFile /\ ref = Empty /\ pc = "idle" /\ ep = "" /\ idx = Empty /\ todo = {}
  /\ appends = 0 /\ runs = 0 /\ last = [a |-> "Init", ep |-> ""]
  /\ l = 1 /\ mode = "run" /\ snap = Blank /\ snap0 = Blank

Line == Trace[l]
Is(e) == l <= Len(Trace) /\ Line.ev = e

\* the C03 properties, required of the state reached by every line
Holds ==
  Dev = {} =>
    /\ (last'.a \in {"Rename", "Abort", "Skip", "Crash"} \/ pc' # "idle") => Load(main') = ref'
    /\ pc' \in {"writing", "synced", "closed"} =>
         \A i \in DOMAIN temp'.ents : temp'.ents[i][2] > 0 /\ temp'.ents[i][2] = idx'[temp'.ents[i][1]]
    /\ last'.a = "Rename" => main'.hdr = 2 /\ main'.dur = Len(main'.ents)

\* what the driver observed on the real files agrees with the spec's files
Observed ==
  /\ Line.after_err <=> Load(main') = ERR
  /\ ~Line.after_err => MapOf(Line.after) = Load(main')
  /\ Line.temp_ex <=> temp'.ex
  /\ (Line.srv_ok /\ Load(main') # ERR) => MapOf(Line.srv) = Load(main')

Step(A) == mode = "run" /\ A /\ Holds /\ l' = l + 1 /\ UNCHANGED <<mode, snap, snap0>>

SetupState == [Blank EXCEPT !.main = IF Line.main_ex THEN [ex |-> TRUE, hdr |-> 2, ents |-> Line.hist, dur |-> Len(Line.hist)]
                                         ELSE NoFile,
                              !.temp = FileOf(Line.temp),
                              !.ref = Apply(Empty, Line.hist)]
TrSetup ==
  /\ Is("setup")
  /\ SetState(SetupState)
  /\ l' = l + 1 /\ mode' = "run" /\ snap' = Blank /\ snap0' = SetupState

\* the driver put the scenario's initial files back (for a run with an injected fault)
TrRestart == Is("restart") /\ mode = "run" /\ pc = "idle" /\ SetState(snap0) /\ l' = l + 1 /\ UNCHANGED <<mode, snap, snap0>>

TrMark == Is("mark") /\ mode = "run" /\ snap' = State /\ l' = l + 1 /\ UNCHANGED <<vars, mode, snap0>>
TrRewind == Is("rewind") /\ mode = "run" /\ SetState(snap) /\ l' = l + 1 /\ UNCHANGED <<mode, snap, snap0>>

TrAppend == Is("append") /\ Step(AppendMany(Line.ents))
TrStart == Is("start") /\ Step(Start(Line.ep) /\ MapOf(Line.idx) = Load(main))
TrCleanup == Is("cleanup") /\ Step(CleanupTemp)
TrCreate == Is("create") /\ Step(OpenCreate)
TrOpenAppend == Is("openappend") /\ Step(OpenAppend)
TrHeader == Is("header") /\ Step(HeaderTemp(Line.h))
TrWrite == Is("write") /\ Step(WriteTemp(Line.ents))
TrSync == Is("sync") /\ Step(SyncTemp)
TrClose == Is("close") /\ Step(CloseTemp)
TrRename == Is("rename") /\ Step(Rename)

\* the entry point returned: compacted (Rename was the last step), skipped, or failed
TrEnd ==
  /\ Is("end")
  /\ Step(/\ CASE Line.res = "compacted" -> pc = "idle" /\ last.a = "Rename" /\ UNCHANGED vars
               [] Line.res = "skipped" -> IF pc = "idle" THEN UNCHANGED vars ELSE Skip
               [] Line.res = "error" -> IF pc = "idle" THEN UNCHANGED vars ELSE Abort(Line.temp_ex)
               [] OTHER -> FALSE
          \* what the entry point reported agrees with what happened to the files
          /\ Line.reported # "" => ((Line.reported = "compacted") <=> (Line.res = "compacted"))
          /\ Observed)

TrCrash == Is("crash") /\ Step(Crash(Line.power, Line.torn) /\ Observed)

\* the scenario's final look at the files
TrCheck == Is("check") /\ Step(pc = "idle" /\ UNCHANGED vars /\ Observed /\ (Dev = {} => Load(main) = ref))

TrDone ==
  /\ Is("done") /\ mode = "run" /\ pc = "idle"
  /\ PrintT(ToJson([ok |-> Line.id]))
  /\ l' = l + 1 /\ UNCHANGED <<vars, mode, snap, snap0>>

\* no behaviour explains this scenario: abandon it, resume at the next setup line
NoGiveUp == "TRACE_NOGIVEUP" \in DOMAIN IOEnv /\ IOEnv.TRACE_NOGIVEUP = "1"   \* (debugging aid)
GiveUp == ~NoGiveUp /\ mode = "run" /\ l <= Len(Trace) /\ Line.ev # "setup" /\ SetState(Blank) /\ mode' = "skip" /\ snap' = Blank
          /\ snap0' = Blank /\ l' = l
SkipLine == mode = "skip" /\ l <= Len(Trace) /\ Line.ev # "setup" /\ l' = l + 1 /\ UNCHANGED <<vars, mode, snap, snap0>>

TraceNext ==
  \/ TrSetup \/ TrRestart \/ TrMark \/ TrRewind \/ TrAppend \/ TrStart \/ TrCleanup \/ TrCreate \/ TrOpenAppend
  \/ TrHeader \/ TrWrite \/ TrSync \/ TrClose \/ TrRename \/ TrEnd \/ TrCrash \/ TrCheck \/ TrDone
  \/ GiveUp \/ SkipLine

TraceSpec == TraceInit /\ [][TraceNext]_tvars

\* the whole file was read (in one mode or the other)
TraceComplete ==
  LET d == TLCGet("stats").diameter IN
  IF d >= Len(Trace) THEN TRUE
  ELSE PrintT(<<"TRACE_INCOMPLETE", d, Len(Trace), IF d <= Len(Trace) THEN Trace[d] ELSE "end">>) /\ FALSE
=============================================================================
