SPECIFICATION TraceSpec
CONSTANTS
  Keys = {1, 2, 3}
  Writers = {"w1", "w2", "w3"}
  Subs = {"s1", "s2"}
  Dev = {}
POSTCONDITION TraceAccepted
CHECK_DEADLOCK FALSE
