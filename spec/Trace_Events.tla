---------------------------- MODULE Trace_Events ----------------------------
(***************************************************************************)
(* Trace validation for Events (C19).  harness/cmd/events drives write     *)
(* RPCs through the in-process gRPC client while fake                      *)
(* SubscribeToEventsServer streams are attached to the real gateway        *)
(* handler; every observable step is one ndjson line, in the order of one  *)
(* recorder mutex:                                                         *)
(*   reset h | sub s | unsub s                                             *)
(*   call w op k v t          a writer issues a request (t = rank of the   *)
(*                            time just before)                            *)
(*   sb s k kind val et etn infl   SendMsg entered on stream s with that   *)
(*                            message; infl = sends already in flight      *)
(*   se s                     SendMsg returned                             *)
(*   ret w st t               the request returned status st at time t     *)
(* The commit of a request is not observable: before every line each state *)
(* may first commit any called request (closure).  The checker carries the *)
(* SET of spec states that explain the lines so far (`poss`); a line that  *)
(* no state explains is printed, the history is marked dead and the run    *)
(* continues with the next history, so one TLC run judges every line.      *)
(* TRACE_DEV = "" is the strict spec; "A+B" enables named deviations.      *)
(***************************************************************************)
EXTENDS Events, Json, IOUtils

Trace == ndJsonDeserialize(IOEnv.TRACE_FILE)
DevName == IF "TRACE_DEV" \in DOMAIN IOEnv THEN IOEnv.TRACE_DEV ELSE ""
Has(d) == \E i \in 1..(Len(DevName) - Len(d) + 1) : SubSeq(DevName, i, i + Len(d) - 1) = d
TraceDev == {d \in {"NoopEvent", "ConcurrentSend", "TimeNanosAsSeconds", "DeleteUnguarded"} : Has(d)}

VARIABLES l, poss, dead, hist
tvars == <<l, poss, dead, hist>>

TraceInit == l = 1 /\ poss = {} /\ dead = FALSE /\ hist = 0

Commits(S) == S \cup UNION {UNION {DoCommit(st, w) : w \in Writers} : st \in S}
RECURSIVE Closure(_, _)
Closure(S, n) == IF n = 0 THEN S ELSE Closure(Commits(S), n - 1)

After(S, e) ==
  LET C == Closure(S, Cardinality(Writers)) IN
  CASE e.ev = "sub"   -> UNION {DoSub(st, e.s) : st \in C}
    [] e.ev = "unsub" -> UNION {DoUnsub(st, e.s) : st \in C}
    [] e.ev = "call"  -> UNION {DoCall(st, e.w, e.op, e.k, e.v, e.t) : st \in C}
    [] e.ev = "sb"    -> UNION {UNION {DoSendBegin(st, w, e.s, [k |-> e.k, kind |-> e.kind, val |-> e.val, et |-> e.et, etn |-> e.etn]) : w \in Writers} : st \in C}
    [] e.ev = "se"    -> UNION {UNION {DoSendEnd(st, w, e.s) : w \in Writers} : st \in C}
    [] e.ev = "ret"   -> UNION {DoRet(st, e.w, e.st, e.t) : st \in C}
    [] OTHER -> {}

Step ==
  /\ l <= Len(Trace) /\ l' = l + 1
  /\ LET e == Trace[l] IN
     IF e.ev = "reset"
       THEN poss' = {Init0} /\ dead' = FALSE /\ hist' = e.h
       ELSE /\ UNCHANGED hist
            /\ IF dead THEN UNCHANGED <<poss, dead>>
               ELSE LET N == After(poss, e) IN
                    IF N # {} THEN poss' = N /\ UNCHANGED dead
                    ELSE /\ PrintT(ToJson([fail |-> l, h |-> hist, ev |-> e.ev]))
                         /\ dead' = TRUE /\ poss' = {}

TraceSpec == TraceInit /\ [][Step]_tvars

TraceAccepted ==
  LET d == TLCGet("stats").diameter IN
  IF d - 1 = Len(Trace) THEN TRUE
  ELSE /\ PrintT(<<"TRACE_STUCK_AT_LINE", d, IF d <= Len(Trace) THEN Trace[d] ELSE "end">>)
       /\ FALSE
=============================================================================
