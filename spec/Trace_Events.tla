---------------------------- MODULE Trace_Events ----------------------------
(***************************************************************************)
(* Trace validation for Events (C19).  harness/cmd/events drives write     *)
(* RPCs through the in-process gRPC client while fake                      *)
(* SubscribeToEventsServer streams are attached to the real gateway        *)
(* handler; every observable step is one ndjson line, in the order of one  *)
(* recorder mutex:                                                         *)
(*   reset h | sub s | unsub s | end                                       *)
(*   call w op k v t          a writer issues a request (t = rank of the   *)
(*                            time just before)                            *)
(*   sb s k kind val et etn infl   SendMsg entered on stream s with that   *)
(*                            message; infl = sends already in flight      *)
(*   se s                     SendMsg returned                             *)
(*   ret w st t               the request returned status st at time t     *)
(* The commit of a request is not observable: before every line each state *)
(* may first commit any called request (closure).  The checker carries,    *)
(* for EVERY subset D of the open deviations (TRACE_DEV = "A+B+..."; the   *)
(* empty subset is the strict spec), the SET of spec states that explain   *)
(* the lines so far under D (`poss[m]`, m = bit mask of D + 1) and the     *)
(* line at which that set became empty (`stuck[m]`, 0 = still alive).      *)
(* When a history ends (next reset / end line) one JSON line reports       *)
(* `stuck` for all subsets, so ONE TLC run judges every line of every      *)
(* history against the strict spec and against every as-built variant.     *)
(***************************************************************************)
EXTENDS Events, Json, IOUtils

Trace == ndJsonDeserialize(IOEnv.TRACE_FILE)
DevName == IF "TRACE_DEV" \in DOMAIN IOEnv THEN IOEnv.TRACE_DEV ELSE ""
Has(d) == \E i \in 1..(Len(DevName) - Len(d) + 1) : SubSeq(DevName, i, i + Len(d) - 1) = d

AllDevs == <<"TimeNanosAsSeconds", "NoopEvent", "ConcurrentSend", "DeleteUnguarded">>
Pow2 == <<1, 2, 4, 8, 16>>
NMasks == Pow2[Len(AllDevs) + 1]
\* subset number m (1..NMasks) stands for the deviations whose bit is set in m - 1
DevOf(m) == {AllDevs[i] : i \in {j \in DOMAIN AllDevs : ((m - 1) \div Pow2[j]) % 2 = 1}}
Open(m) == \A d \in DevOf(m) : Has(d)

VARIABLES l, poss, stuck, hist
tvars == <<l, poss, stuck, hist>>

TraceInit == l = 1 /\ poss = [m \in 1..NMasks |-> {}] /\ stuck = [m \in 1..NMasks |-> 0] /\ hist = 0

Commits(dev, S) == S \cup UNION {UNION {DoCommit(dev, st, w) : w \in Writers} : st \in S}
RECURSIVE Closure(_, _, _)
Closure(dev, S, n) == IF n = 0 THEN S ELSE Closure(dev, Commits(dev, S), n - 1)

After(dev, S, e) ==
  LET C == Closure(dev, S, Cardinality(Writers)) IN
  CASE e.ev = "sub"   -> UNION {DoSub(st, e.s) : st \in C}
    [] e.ev = "unsub" -> UNION {DoUnsub(st, e.s) : st \in C}
    [] e.ev = "call"  -> UNION {DoCall(st, e.w, e.op, e.k, e.v, e.t) : st \in C}
    [] e.ev = "sb"    -> UNION {UNION {DoSendBegin(dev, st, w, e.s, [k |-> e.k, kind |-> e.kind, val |-> e.val, et |-> e.et, etn |-> e.etn]) : w \in Writers} : st \in C}
    [] e.ev = "se"    -> UNION {UNION {DoSendEnd(st, w, e.s) : w \in Writers} : st \in C}
    [] e.ev = "ret"   -> UNION {DoRet(st, e.w, e.st, e.t) : st \in C}
    [] OTHER -> {}

\* -1: the subset contains a deviation that is not open (not evaluated)
Report == IF hist = 0 THEN TRUE ELSE PrintT(ToJson([h |-> hist, stuck |-> stuck]))

Step ==
  /\ l <= Len(Trace) /\ l' = l + 1
  /\ LET e == Trace[l] IN
     IF e.ev \in {"reset", "end"}
       THEN /\ Report
            /\ poss' = [m \in 1..NMasks |-> IF Open(m) THEN {Init0} ELSE {}]
            /\ stuck' = [m \in 1..NMasks |-> IF Open(m) THEN 0 ELSE -1]
            /\ hist' = IF e.ev = "reset" THEN e.h ELSE 0
       ELSE /\ UNCHANGED hist
            /\ LET N == [m \in 1..NMasks |-> IF stuck[m] = 0 THEN After(DevOf(m), poss[m], e) ELSE {}]
               IN /\ poss' = N
                  /\ stuck' = [m \in 1..NMasks |-> IF stuck[m] = 0 /\ N[m] = {} THEN l ELSE stuck[m]]

TraceSpec == TraceInit /\ [][Step]_tvars

TraceAccepted ==
  LET d == TLCGet("stats").diameter IN
  IF d - 1 = Len(Trace) THEN TRUE
  ELSE /\ PrintT(<<"TRACE_STUCK_AT_LINE", d, IF d <= Len(Trace) THEN Trace[d] ELSE "end">>)
       /\ FALSE
=============================================================================
