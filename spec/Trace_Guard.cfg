SPECIFICATION TraceSpec
CONSTANTS
  Procs = {"p1","p2","p3","p4","p5","p6"}
  MaxOps = 0
  Dev <- TraceDev
INVARIANTS Exclusive HolderIsHead QueueInArrivalOrder HeadCanProceed
POSTCONDITION TraceAccepted
CHECK_DEADLOCK FALSE
