---------------------------- MODULE Trace_Guard ----------------------------
(***************************************************************************)
(* Trace validation for Guard: every line of the ndjson trace recorded by  *)
(* the verif hooks inside guard.go (emitted under the guard's mutex, so    *)
(* the file order is the lock order) must be a step of Guard!Next that     *)
(* reproduces the logged id, effect and queue; all Guard invariants are    *)
(* evaluated after every line.  Several runs are concatenated with "reset" *)
(* lines.                                                                  *)
(***************************************************************************)
EXTENDS Guard, Json, IOUtils

Trace == ndJsonDeserialize(IOEnv.TRACE_FILE)
TraceDev == IF "TRACE_DEV" \in DOMAIN IOEnv /\ IOEnv.TRACE_DEV = "IdReuse" THEN {"IdReuse"} ELSE {}
TraceProcs == {Trace[i].p : i \in DOMAIN Trace} \ {""}

VARIABLE l
tvars == <<vars, l>>

QIds == [i \in DOMAIN queue |-> queue[i].id]
QIdsNext == [i \in DOMAIN queue' |-> queue'[i].id]
AsSeq(x) == [i \in 1..Len(x) |-> x[i]]

TraceInit == Init /\ l = 1

IsEvent(e) == l <= Len(Trace) /\ Trace[l].ev = e /\ l' = l + 1
QueueLogged == QIdsNext = AsSeq(Trace[l].queue)

TrEnq ==
  /\ IsEvent("enq")
  /\ StartWait(Trace[l].p)
  /\ last'.id = Trace[l].id
  /\ QueueLogged

\* "grant" is logged when the wait loop exits: right after "enq" for a caller that was alone
\* (already holding in the spec: the line only confirms it), or after a wake-up.
TrGrant ==
  /\ IsEvent("grant")
  /\ LET p == Trace[l].p IN
     IF pc[p] = "holding"
       THEN cur[p] = Trace[l].id /\ UNCHANGED vars
       ELSE Wake(p) /\ cur[p] = Trace[l].id
  /\ QueueLogged

TrTry ==
  /\ IsEvent("try")
  /\ TryStart(Trace[l].p)
  /\ last'.res = Trace[l].id
  /\ QueueLogged

TrRel ==
  /\ IsEvent("rel")
  /\ Release(Trace[l].p, Trace[l].id)
  /\ last'.res = Trace[l].res
  /\ QueueLogged

TrReset ==
  /\ IsEvent("reset")
  /\ queue' = <<>> /\ counter' = 0
  /\ pc' = [p \in Procs |-> "idle"] /\ cur' = [p \in Procs |-> 0]
  /\ stale' = {} /\ ticket' = [p \in Procs |-> 0] /\ nextTicket' = 1 /\ ops' = 0
  /\ last' = [a |-> "Init", p |-> "", id |-> 0, res |-> 0]

\* "stuck" (every unfinished caller parked in cond.Wait for good) and "panic" lines are observations that
\* no action of the guard explains: a trace containing one is rejected at that line.
TraceNext == TrEnq \/ TrGrant \/ TrTry \/ TrRel \/ TrReset
TraceSpec == TraceInit /\ [][TraceNext]_tvars

\* every step is logged, so the trace is accepted iff some behaviour consumed every line
TraceAccepted ==
  LET d == TLCGet("stats").diameter IN
  IF d - 1 = Len(Trace) THEN TRUE
  ELSE /\ PrintT(<<"TRACE_REJECTED_AT_LINE", d, IF d <= Len(Trace) THEN Trace[d] ELSE "end">>)
       /\ FALSE
=============================================================================
