SPECIFICATION TraceSpec
CONSTANTS
  Procs = {"p1","p2","p3","p4","p5","p6"}
  MaxOps = 0
  Dev <- TraceDev

POSTCONDITION TraceAccepted
CHECK_DEADLOCK FALSE
