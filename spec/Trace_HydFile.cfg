\* strict: every line of every history must be explained by the strict design; all invariants on
SPECIFICATION TraceSpec
CONSTANTS
  Keys = {1, 2, 3, 4, 5, 6, 7, 8}
  Vals = {}
  Nil = 0
  CntLimit = 65535
  Dev = {}
INVARIANTS Consistent LWW RejectNotMangle NoSpuriousError NoTornFailure FlushBoundary DurableReadable AlwaysRecoverable
CHECK_DEADLOCK FALSE
