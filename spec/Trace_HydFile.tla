---------------------------- MODULE Trace_HydFile ----------------------------
(***************************************************************************)
(* Trace validation for HydFile (C01, C02, C25).                           *)
(*                                                                         *)
(* The ndjson file holds many histories, each starting with a "reset"      *)
(* line; every history is an initial state of its own.  A line is one API  *)
(* call of the real v2.FileWriter / chronicler (with its observed result,  *)
(* whether the call flushed a block, and the write fault injected into it, *)
(* if any) or a "load" observation (real FileReader.LoadIndex / chronicler *)
(* Load).  File operations are internal steps (FileStep).                  *)
(*                                                                         *)
(* A call line may carry crash observations ("cuts"): the real file was    *)
(* cut inside that call - after `idx` complete file operations, with tear  *)
(* "none" or "part" of the next operation (kind `op`) - loaded, and the    *)
(* recovery script `rec` (a list of lines of the same shape) was run on    *)
(* it.  Each cut is a branch: the call, idx FileSteps, Crash(tear), the    *)
(* logged load, then the lines of `rec`.                                   *)
(*                                                                         *)
(* A history (a cut) is accepted iff some behaviour consumes all its lines *)
(* (TLC prints one JSON line per accepted history / cut); every HydFile    *)
(* invariant is evaluated at every step.                                   *)
(***************************************************************************)
EXTENDS HydFile, Json, IOUtils

Trace == ndJsonDeserialize(IOEnv.TRACE_FILE)
Verbose == "TRACE_VERBOSE" \in DOMAIN IOEnv /\ IOEnv.TRACE_VERBOSE = "1"

VARIABLES l,        \* index of the next main line of the history
          hid,      \* id of the history
          br,       \* <<>> on the main line, else <<cut index, phase/next rec line>>
          run,      \* file steps still to perform before the crash of the current cut
          inflight  \* the API call of the current line has started and not returned yet

tvars == <<vars, l, hid, br, run, inflight>>

Starts == {i + 1 : i \in {j \in DOMAIN Trace : Trace[j].ev = "reset"}}

TraceInit ==
  /\ Init
  /\ l \in Starts /\ hid = Trace[l - 1].h
  /\ br = <<>> /\ run = -1 /\ inflight = FALSE

MainEnd == IF l > Len(Trace) THEN TRUE ELSE Trace[l].ev = "reset"
Cut == Trace[l].cuts[br[1]]
InRec == br # <<>> /\ br[2] >= 1
RecEnd == InRec /\ br[2] > Len(Cut.rec)
HaveEv == IF br = <<>> THEN ~MainEnd ELSE InRec /\ ~RecEnd
Ev == IF br = <<>> THEN Trace[l] ELSE Cut.rec[br[2]]

Advance ==
  /\ IF br = <<>> THEN l' = l + 1 /\ br' = br ELSE l' = l /\ br' = <<br[1], br[2] + 1>>
  /\ (Verbose => PrintT(<<"AT", hid, l, br>>))

ResMatches(code, res) == code = -1 \/ (code = 0 /\ res = "ok") \/ (code = 1 /\ res = "err")
LoadMatches(e, m, r) == /\ e = -1 \/ (e = 0 /\ r.ok) \/ (e = 1 /\ ~r.ok)
                        /\ m = r.m

\* What the real reader can make of the file.  Besides Load(d):
\*  - a deviation allows, it does not force (LoadD(d, FALSE));
\*  - a file whose swamp name is incomplete (hd = 1) holds no record; once bytes follow the header the reader may
\*    take them for the name and find no complete block behind it: error or empty map, by the bytes;
\*  - torn pieces in the middle of the file: error, or end of file right there (TornRun);
\*  - a misplaced block on the first bytes of the data: error, or a garbage header that claims more than the file
\*    holds, i.e. nothing.
PossibleLoads(d) ==
  {Load(d), LoadD(d, FALSE)}
  \cup (IF d.ex /\ d.hd = 1 THEN {OkRes(Empty)} ELSE {})
  \cup (IF TornRun(d) THEN {TornRunPrefix(d)} ELSE {})
  \cup (IF d.ex /\ d.hd = 2 /\ d.clob THEN {OkRes(Empty)} ELSE {})
LoadObserved(e, m, d) == \E r \in PossibleLoads(d) : LoadMatches(e, m, r)

\* A compaction ran inside the call (the driver saw the rename of the temporary file): the file now holds exactly
\* what the compactor's reader saw, as one block of inserts.  Compaction is not modelled beyond that (C03).
LiveEntries(m) == SelectSeq([k \in 1..Cardinality(Keys) |->
                     [op |-> "ins", k |-> k, v |-> m[k], kc |-> "ok", rep |-> 1, ak |-> k, av |-> Nil]],
                   LAMBDA x : x.v # Nil)
DiskFromMap(m) == [NoDisk EXCEPT !.ex = TRUE, !.hd = 2,
                     !.ch = IF LiveEntries(m) = <<>> THEN <<>> ELSE <<BlockOf(LiveEntries(m))>>,
                     !.nb = IF LiveEntries(m) = <<>> THEN 0 ELSE 1, !.ne = Len(LiveEntries(m))]
Compacted(e) == "cx" \in DOMAIN e /\ e.cx = 1
Rewrite == \E r \in PossibleLoads(disk) : r.ok /\ disk' = DiskFromMap(r.m)
AfterEvent(e) == IF Compacted(e) THEN Rewrite /\ UNCHANGED <<w, pend, call, ref, fm, dur, bmaps, crashobs, cnt>>
                 ELSE UNCHANGED vars

EntryOf(e) == [op |-> e.op, k |-> e.k, v |-> e.v, kc |-> e.kc, rep |-> e.rep, ak |-> e.ak, av |-> e.av]

\* the API call of the current line
CallAction(e) ==
  CASE e.ev = "open"  -> Open(e.nm = 1)
    [] e.ev = "put"   -> \/ WriteEntry(EntryOf(e), e.fl = 1, e.told = 1)
                         \/ PutDropped(EntryOf(e))
                         \/ PutWedged(EntryOf(e), e.fl = 1, e.told = 1, e.fk # "")
    [] e.ev = "flush" -> Flush \/ WedgedFail("flush", e.fk # "")
    [] e.ev = "sync"  -> Sync \/ WedgedFail("sync", e.fk # "")
    [] e.ev = "close" -> Close \/ WedgedFail("close", e.fk # "")
    [] OTHER -> FALSE

IsCall(e) == e.ev \in {"open", "put", "flush", "sync", "close"}

\* ---- main line and recovery lines
TrCall ==
  /\ HaveEv /\ IsCall(Ev) /\ ~inflight /\ Quiescent /\ run = -1
  /\ CallAction(Ev)
  /\ inflight' = TRUE
  /\ UNCHANGED <<l, hid, br, run>>

\* file operations of the call in flight; the logged fault hits the first operation of its kind
TrFile ==
  /\ inflight /\ run = -1 /\ pend # <<>>
  /\ IF Ev.fk # "" /\ ~call.faulted /\ Head(pend) = Ev.fk THEN Fault(Ev.fm) ELSE FileStep
  /\ UNCHANGED <<l, hid, br, run, inflight>>

TrReturn ==
  /\ inflight /\ run = -1 /\ Quiescent
  /\ ResMatches(Ev.res, call.res)
  /\ (Ev.fk # "") = call.faulted
  /\ inflight' = FALSE
  /\ Advance
  /\ AfterEvent(Ev)
  /\ UNCHANGED <<hid, run>>

TrLoad ==
  /\ HaveEv /\ Ev.ev = "load" /\ ~inflight /\ Quiescent /\ run = -1
  /\ LoadObserved(Ev.err, Ev.m, disk)
  /\ Advance
  /\ AfterEvent(Ev)
  /\ UNCHANGED <<hid, run, inflight>>

\* ---- crash branches
TrEnterCut ==
  /\ br = <<>> /\ ~MainEnd /\ IsCall(Trace[l]) /\ ~inflight /\ Quiescent
  /\ \E j \in DOMAIN Trace[l].cuts :
       /\ br' = <<j, 0>>
       /\ run' = Trace[l].cuts[j].idx
  /\ CallAction(Trace[l])
  /\ UNCHANGED <<l, hid, inflight>>

TrRunToCut ==
  /\ br # <<>> /\ br[2] = 0 /\ run > 0 /\ pend # <<>>
  /\ FileStep
  /\ run' = run - 1
  /\ UNCHANGED <<l, hid, br, inflight>>

TrCrash ==
  /\ br # <<>> /\ br[2] = 0 /\ run = 0
  \* op = "end": the cut lies behind the last file operation of the call (inside the compaction that the call
  \* runs on other files, which must not change the logical state)
  /\ IF Cut.op = "end" THEN pend = <<>> ELSE pend # <<>> /\ Head(pend) = Cut.op
  /\ Crash(Cut.tear)
  /\ LoadObserved(Cut.lerr, Cut.lm, disk')
  /\ br' = <<br[1], 1>> /\ run' = -1
  /\ UNCHANGED <<l, hid, inflight>>

\* ---- acceptance
TrHistDone ==
  /\ br = <<>> /\ MainEnd /\ ~inflight /\ l <= Len(Trace) + 1
  /\ PrintT(ToJson([acc |-> "hist", h |-> hid]))
  /\ l' = Len(Trace) + 2
  /\ UNCHANGED <<vars, hid, br, run, inflight>>

TrCutDone ==
  /\ RecEnd /\ ~inflight
  /\ PrintT(ToJson([acc |-> "cut", h |-> hid, l |-> l, j |-> br[1]]))
  /\ br' = <<br[1], -1>>
  /\ UNCHANGED <<vars, l, hid, run, inflight>>

TraceNext == TrCall \/ TrFile \/ TrReturn \/ TrLoad \/ TrEnterCut \/ TrRunToCut \/ TrCrash \/ TrHistDone \/ TrCutDone
TraceSpec == TraceInit /\ [][TraceNext]_tvars
=============================================================================
