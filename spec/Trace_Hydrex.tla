---------------------------- MODULE Trace_Hydrex ----------------------------
(***************************************************************************)
(* Trace validation for Hydrex (C27).  harness/cmd/hydrex runs sequences   *)
(* of Save / Destroy on the real hydrex package (real SDK, in-process gRPC *)
(* server) and after every call reads GetCoreData of every (index, domain) *)
(* and GetIndexData of every (index, key) of the sequence:                 *)
(*   {"ev":"reset"}                       a sequence on fresh index names  *)
(*   {"ev":"save","i","d","items":[[k,v],..],                              *)
(*        "core":[{"i","d","kv":[[k,v],..]},..],"rev":[{"i","k","doms"},..]}*)
(*   {"ev":"destroy","i","d","items":[],"core":..,"rev":..}                *)
(* Every line must be the spec action with the logged arguments, and the   *)
(* observed swamps must equal the spec state after it.                     *)
(***************************************************************************)
EXTENDS Hydrex, Json, IOUtils

Trace == ndJsonDeserialize(IOEnv.TRACE_FILE)
TraceDev == IF "TRACE_DEV" \in DOMAIN IOEnv /\ IOEnv.TRACE_DEV = "ValueNotUpdated" THEN {"ValueNotUpdated"} ELSE {}

VARIABLE l
tvars == <<vars, l>>

Range(s) == {s[i] : i \in DOMAIN s}

TraceInit == Init /\ l = 1
IsEvent(e) == l <= Len(Trace) /\ Trace[l].ev = e /\ l' = l + 1

Observed(e) ==
  /\ \A x \in Range(e.core) : core'[<<x.i, x.d>>] = Range(x.kv)
  /\ \A y \in Range(e.rev) : rev'[<<y.i, y.k>>] = Range(y.doms)

TrReset ==
  /\ IsEvent("reset")
  /\ core' = [c \in Indexes \X Domains |-> {}]
  /\ rev' = [r \in Indexes \X Keys |-> {}]
  /\ saved' = [c \in Indexes \X Domains |-> {}]
  /\ UNCHANGED <<ops, last>>

TrSave ==
  /\ IsEvent("save")
  /\ Save(Trace[l].i, Trace[l].d, Range(Trace[l].items))
  /\ Observed(Trace[l])

TrDestroy ==
  /\ IsEvent("destroy")
  /\ Destroy(Trace[l].i, Trace[l].d)
  /\ Observed(Trace[l])

TraceNext == TrReset \/ TrSave \/ TrDestroy
TraceSpec == TraceInit /\ [][TraceNext]_tvars

TraceAccepted ==
  LET d == TLCGet("stats").diameter IN
  IF d - 1 = Len(Trace) THEN TRUE
  ELSE /\ PrintT(<<"TRACE_REJECTED_AT_LINE", d>>)
       /\ FALSE
=============================================================================
