SPECIFICATION TraceSpec
CONSTANTS
  Indexes = {"i1", "i2"}
  Domains = {"d1", "d2"}
  Keys = {"k1", "k2", "k3"}
  Vals = {"v1", "v2", "v3"}
  MaxOps = 0
  Dev <- TraceDev
INVARIANTS TypeOK ReverseIsInverse DomainKeysAreLastSaved
POSTCONDITION TraceAccepted
CHECK_DEADLOCK FALSE
