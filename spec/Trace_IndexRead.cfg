SPECIFICATION TraceSpec
CONSTANTS
  Keys = {1, 2, 3, 4, 5, 6}
  Kinds = {"key", "created", "updated", "expire", "value"}
  Dev <- TraceDev
  CVals = {}
  UVals = {}
  EVals = {}
  VVals = {}
  VTs = {}
  MaxFrom = 0
  MaxLimit = 0
  MaxT = 0
POSTCONDITION TraceAccepted
CHECK_DEADLOCK FALSE
