-------------------------- MODULE Trace_IndexRead --------------------------
(***************************************************************************)
(* Trace validation for IndexRead (C07).  The driver harness/cmd/indexread *)
(* sends every request through the gateway in wire form and writes one     *)
(* ndjson line per request + response:                                     *)
(*   reset  h, vt                      a new swamp (history h) of value    *)
(*                                     type vt                             *)
(*   write  op, touched, store         any write request (Set, Delete,     *)
(*                                     ShiftByKeys, ShiftExpiredTreasures, *)
(*                                     PatchExpiredTreasures,              *)
(*                                     PatchTreasures, Increment<T>); the  *)
(*                                     keys it addressed and the content   *)
(*                                     of the swamp as GetAll returns it   *)
(*                                     afterwards                          *)
(*   read   via, q, err, r             GetByIndex ("unary") or             *)
(*                                     GetByIndexStream ("stream") with    *)
(*                                     request q; r = the returned records *)
(*                                     [k, c, u, e, v] in response order   *)
(* Timestamps and values are dense ranks, keys are ids in byte order.      *)
(*                                                                         *)
(* The trace is a single behaviour: every line is one step and every read  *)
(* line is judged, a failed line is printed (as JSON) and the run goes on, *)
(* so one TLC run judges every line of every history.                      *)
(*   TRACE_DEV = ""      strict: the response must satisfy Correct in the  *)
(*                       current store (IndexRead section 1) and return    *)
(*                       the stored records.                               *)
(*   TRACE_DEV = a deviation name (or "A+B"): as-built: the response must  *)
(*                       be exactly what the index machinery of IndexRead  *)
(*                       section 2 answers under that deviation.  The tie  *)
(*                       order inside a slice is not observable, so the    *)
(*                       state carries, per (kind, order), the SET of      *)
(*                       slices the machinery may hold (`poss`; slices of  *)
(*                       different indexes evolve independently); a read   *)
(*                       keeps the ones that explain                       *)
(*                       the response; when none does the history is       *)
(*                       reported and its later reads are not judged.      *)
(***************************************************************************)
EXTENDS IndexRead, Json, IOUtils

Trace == ndJsonDeserialize(IOEnv.TRACE_FILE)
DevName == IF "TRACE_DEV" \in DOMAIN IOEnv THEN IOEnv.TRACE_DEV ELSE ""
TraceDev ==
  CASE DevName = "StaleAfterUpdate" -> {"StaleAfterUpdate"}
    [] DevName = "ValueIndexInt64Resort" -> {"ValueIndexInt64Resort"}
    [] DevName = "StaleAfterUpdate+ValueIndexInt64Resort" -> {"StaleAfterUpdate", "ValueIndexInt64Resort"}
    [] OTHER -> {}

VARIABLES l,      \* next line
          poss,   \* as-built mode: the caches the machinery may hold
          dead,   \* as-built mode: this history has already failed
          hist    \* current history number

tvars == <<vars, l, poss, dead, hist>>
AsBuilt == Dev # {}

TraceInit ==
  /\ store = <<>> /\ vt = "" /\ cache = <<>>
  /\ l = 1 /\ poss = [ko \in KO |-> {}] /\ dead = FALSE /\ hist = 0

IsEvent(e) == l <= Len(Trace) /\ Trace[l].ev = e /\ l' = l + 1

Report(why) == PrintT(ToJson([fail |-> l, h |-> hist, why |-> why]))

TrReset ==
  /\ IsEvent("reset")
  /\ store' = <<>> /\ vt' = Trace[l].vt
  /\ poss' = [ko \in KO |-> IF AsBuilt THEN {Unbuilt} ELSE {}]
  /\ dead' = FALSE /\ hist' = Trace[l].h
  /\ UNCHANGED cache

\* a write line carries the keys the request addressed (`touched`) and the content of the swamp afterwards
\* (`store`, read back with GetAll).  Keys that vanished were deleted, new keys were inserted, touched keys that
\* are still there were saved again (an update for the index machinery even when nothing changed).
StoreOf(recs) ==
  LET ks == {recs[i].k : i \in DOMAIN recs}
      at(k) == CHOOSE i \in DOMAIN recs : recs[i].k = k
  IN [k \in ks |-> [c |-> recs[at(k)].c, u |-> recs[at(k)].u, e |-> recs[at(k)].e, v |-> recs[at(k)].v]]

\* fold the per-key maintenance over the keys of S (any order: slices of one index only depend on the final store)
EntryAfter(mode, ko, cv, st2, k) ==
  CASE mode = "delete" -> {EntryAfterDelete(cv, k)}
    [] mode = "insert" -> EntryAfterInsert(ko, cv, st2, k)
    [] mode = "update" -> EntryAfterUpdate(ko, cv, st2, k)
RECURSIVE ApplyKeys(_, _, _, _)
ApplyKeys(P, S, st2, mode) ==
  IF S = {} THEN P
  ELSE LET k == CHOOSE x \in S : TRUE
       IN ApplyKeys([ko \in KO |-> UNION {EntryAfter(mode, ko, cv, st2, k) : cv \in P[ko]}], S \ {k}, st2, mode)

TrWrite ==
  /\ IsEvent("write")
  /\ LET new == StoreOf(Trace[l].store)
         gone == DOMAIN store \ DOMAIN new
         fresh == DOMAIN new \ DOMAIN store
         again == ({Trace[l].touched[i] : i \in DOMAIN Trace[l].touched} \cap DOMAIN store) \cap DOMAIN new
         p1 == ApplyKeys(poss, gone, new, "delete")
         p2 == ApplyKeys(p1, fresh, new, "insert")
         p3 == ApplyKeys(p2, again, new, "update")
     IN /\ store' = new
        /\ poss' = IF AsBuilt THEN p3 ELSE poss
  /\ UNCHANGED <<vt, cache, dead, hist>>

RespKeys(r) == [i \in DOMAIN r |-> r[i].k]
\* the response carries the stored records
RecsMatch(r) ==
  \A i \in DOMAIN r :
    /\ r[i].k \in DOMAIN store
    /\ store[r[i].k] = [c |-> r[i].c, u |-> r[i].u, e |-> r[i].e, v |-> r[i].v]

TrRead ==
  /\ IsEvent("read")
  /\ LET q == Trace[l].q
         r == Trace[l].r
         built == [ko \in KO |-> UNION {EntryAfterBuild(ko, cv, store, q.kind) : cv \in poss[ko]}]
         me == <<q.kind, q.ord>>
         expl == {cv \in built[me] : Answer(store, q, cv.s) = RespKeys(r)}
     IN IF ~AsBuilt
          THEN /\ (IF Trace[l].err = "" /\ Correct(store, q, RespKeys(r)) /\ RecsMatch(r)
                     THEN TRUE ELSE Report("strict"))
               /\ UNCHANGED <<poss, dead>>
          ELSE IF dead THEN UNCHANGED <<poss, dead>>
          ELSE IF Trace[l].err = "" /\ expl # {} /\ RecsMatch(r)
                 THEN poss' = [built EXCEPT ![me] = expl] /\ UNCHANGED dead
                 ELSE Report("asbuilt") /\ dead' = TRUE /\ poss' = built
  /\ UNCHANGED <<store, vt, cache, hist>>

TraceNext == TrReset \/ TrWrite \/ TrRead
TraceSpec == TraceInit /\ [][TraceNext]_tvars

\* every line is a step of the single behaviour
TraceAccepted ==
  LET d == TLCGet("stats").diameter IN
  IF d - 1 = Len(Trace) THEN TRUE
  ELSE /\ PrintT(<<"TRACE_STUCK_AT_LINE", d, IF d <= Len(Trace) THEN Trace[d] ELSE "end">>)
       /\ FALSE
=============================================================================
