SPECIFICATION TraceSpec
CONSTANTS
  Procs = {"p0","p1","p2","p3","p4"}
  Keys = {"k1","k2"}
  Dev <- TraceDev
  Mode = "mm"
  MaxObj = 12
  TrackAbs = FALSE
POSTCONDITION Report
CHECK_DEADLOCK FALSE
