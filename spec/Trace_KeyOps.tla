---------------------------- MODULE Trace_KeyOps ----------------------------
(***************************************************************************)
(* C09 - explains a recorded client history by a behaviour of KeyOps (the  *)
(* step-level model of the code) with the deviations named in the          *)
(* environment (DEV_<name>=1) switched on.  Used for histories that the    *)
(* atomic reference model (Trace_Lin) rejects: a history is a KNOWN        *)
(* finding only if the as-built model reproduces that very history, and    *)
(* the set of deviations whose effect was exercised on the explaining      *)
(* path names the findings.                                                *)
(*   Call / Ret / Final bind trace lines; the steps of KeyOps are silent.  *)
(* Same batching and acceptance scheme as Trace_Lin; the postcondition     *)
(* prints <<history, deviations used>> pairs.                              *)
(***************************************************************************)
EXTENDS KeyOps, Json, IOUtils

Trace == ndJsonDeserialize(IOEnv.TRACE_FILE)
N == Len(Trace)
TraceDev == {d \in DevNames : ("DEV_" \o d) \in DOMAIN IOEnv /\ IOEnv["DEV_" \o d] = "1"}

VARIABLE l
tvars == <<l, sh, ps, abs, used>>

OpOf(e) == [op |-> e.op, k |-> e.k, a |-> e.a, c |-> e.c, cv |-> e.cv, cr |-> e.cr, ow |-> e.ow, ty |-> e.ty]
ValOf(t, v) == IF t = "none" THEN None ELSE [t |-> t, v |-> v]

TraceInit == l = 1 /\ KInit /\ TLCSet(2, {})

IsEvent(e) == l <= N /\ Trace[l].ev = e

Fresh(m) ==
  /\ sh' = InitShared(m)
  /\ ps' = [p \in Procs |-> IdleP]
  /\ abs' = [k \in Keys |-> None]
  /\ used' = {}

TrReset == IsEvent("reset") /\ l' = l + 1 /\ Fresh(Trace[l].mode)

Call == IsEvent("call") /\ Begin(Trace[l].p, OpOf(Trace[l])) /\ l' = l + 1

Internal == l <= N /\ (\E p \in Procs : Step(p)) /\ UNCHANGED l

Ret ==
  /\ IsEvent("ret")
  /\ LET e == Trace[l] IN
     /\ ps[e.p].pc = "done"
     /\ ps[e.p].res = Res(e.st, e.t, e.v)
     /\ End(e.p)
  /\ l' = l + 1

Final ==
  /\ IsEvent("final")
  /\ LET e == Trace[l] IN
     /\ Quiescent
     /\ e.st = "OK"
     /\ View(sh, "k1") = ValOf(e.t1, e.v1)
     /\ View(sh, "k2") = ValOf(e.t2, e.v2)
     /\ e.az = 1
     /\ e.n = 1 + Cardinality({k \in Keys : sh.beacon[k] # 0})
     /\ TLCSet(2, TLCGet(2) \cup {<<e.h, used>>})
  /\ l' = l + 1 /\ UNCHANGED <<sh, ps, abs, used>>

GiveUp ==
  /\ l <= N /\ Trace[l].ev # "reset"
  /\ l' = Trace[l].nx
  /\ Fresh("mm")

TraceNext == TrReset \/ Call \/ Ret \/ Final \/ GiveUp \/ Internal
TraceSpec == TraceInit /\ [][TraceNext]_tvars

Report == PrintT(ToJson([explained |-> TLCGet(2)])) /\ TRUE
=============================================================================
