SPECIFICATION TraceSpec
CONSTANTS
  Reqs = {"s1","s2","s3","r1","r2","r3","r4","r5","r6"}
  Keys = {"k1","k2","k3"}
  Dev = {}
  InitKeys = {}
  Menu = {}
  MaxInst = 1
  WithStop = FALSE
  WithTicks = FALSE
INVARIANTS TraceDurable
POSTCONDITION TraceAccepted
CHECK_DEADLOCK FALSE
