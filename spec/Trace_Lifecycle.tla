--------------------------- MODULE Trace_Lifecycle ---------------------------
(***************************************************************************)
(* Trace validation for Lifecycle (C16), history level: the log of client  *)
(* calls / replies recorded around the real Gateway (one line per call and *)
(* per reply, in real-time order) and the state read back after the swamp  *)
(* was re-opened.  The lines drive the specification's own history         *)
(* variables (op, before, cands, res: RSummon's call snapshot and the      *)
(* Effect of an acknowledged operation); AckDurable's body is evaluated by *)
(* TLC at every "reload" line.  Runs are separated by "reset" lines.       *)
(***************************************************************************)
EXTENDS Lifecycle, Json, IOUtils

Trace == ndJsonDeserialize(IOEnv.TRACE_FILE)

VARIABLES l,     \* next line
          val,   \* value written by a set request (ValueOf for recorded values)
          bad    \* reload lines at which AckDurable's body was false, with the history that condemns them
tvars == <<vars, l, val, bad>>

TraceInit == Init /\ l = 1 /\ val = [r \in Reqs |-> ""] /\ bad = <<>>

\* Lifecycle!ValueOf with the recorded value of a set
TrValueOf(c, k) == IF c = "init" THEN Absent ELSE IF op[c].op = "set" THEN val[c] ELSE Absent
TrAllowed(k) == {TrValueOf(c, k) : c \in cands[k]}

IsEvent(e) == l <= Len(Trace) /\ Trace[l].ev = e /\ l' = l + 1

Unch == UNCHANGED <<shut, map, ninst, I, fexists, ref, auto, cpc, clist, lidle, starget, used, last>>

\* RSummon's history part: the operation and the snapshot of what has been acknowledged so far
TrCall ==
  /\ IsEvent("call")
  /\ LET r == Trace[l].r IN
     /\ r \in Reqs /\ pc[r] = "idle"
     /\ op' = [op EXCEPT ![r] = [op |-> Trace[l].op, k |-> Trace[l].k]]
     /\ before' = [before EXCEPT ![r] = cands]
     /\ pc' = [pc EXCEPT ![r] = "op"]
     /\ val' = [val EXCEPT ![r] = Trace[l].v]
  /\ UNCHANGED <<cands, res, file, bad>> /\ Unch

\* the reply: an acknowledged operation takes Effect (as in ROpSave / RAdCheck / AfterDestroy)
TrRet ==
  /\ IsEvent("ret")
  /\ LET r == Trace[l].r IN
     /\ r \in Reqs /\ pc[r] = "op"
     /\ pc' = [pc EXCEPT ![r] = "done"]
     /\ res' = [res EXCEPT ![r] = Trace[l].res]
     /\ cands' = IF Trace[l].res = "ok" THEN Effect(r) ELSE cands
  /\ UNCHANGED <<op, before, file, val, bad>> /\ Unch

\* the swamp was closed and re-opened: what the keys read now
TrReload ==
  /\ IsEvent("reload")
  /\ \A r \in Reqs : pc[r] \in {"idle", "done"}
  /\ file' = [k \in Keys |-> Trace[l].file[k]]
  \* AckDurable at the re-open: every key must read a value the acknowledged history allows
  /\ LET rec == [bad |-> [line |-> l, file |-> file', allowed |-> [k \in Keys |-> TrAllowed(k)],
                          cands |-> cands, ops |-> op, res |-> res]]
     IN IF \A k \in Keys : Trace[l].file[k] \in TrAllowed(k) THEN bad' = bad
        ELSE bad' = Append(bad, l) /\ PrintT(ToJson(rec))        \* reported; the rest of the trace is still checked
  /\ UNCHANGED <<pc, op, before, cands, res, val>> /\ Unch

TrReset ==
  /\ IsEvent("reset")
  /\ pc' = [r \in Reqs |-> "idle"] /\ op' = [r \in Reqs |-> [op |-> "none", k |-> NoObj]]
  /\ cands' = [k \in Keys |-> {"init"}] /\ before' = [r \in Reqs |-> [k \in Keys |-> {}]]
  /\ res' = [r \in Reqs |-> "none"] /\ val' = [r \in Reqs |-> ""]
  /\ file' = [k \in Keys |-> Absent]
  /\ UNCHANGED bad /\ Unch

TraceNext == TrCall \/ TrRet \/ TrReload \/ TrReset
TraceSpec == TraceInit /\ [][TraceNext]_tvars

\* strict verdict as an invariant (single-run traces): no reload line may contradict the acknowledged history
TraceDurable == bad = <<>>

\* multi-run traces: the condemned reload lines are reported, the whole trace is still consumed
TraceAccepted ==
  LET d == TLCGet("stats").diameter IN
  IF d - 1 = Len(Trace) THEN TRUE
  ELSE /\ PrintT(<<"TRACE_REJECTED_AT_LINE", d, IF d <= Len(Trace) THEN Trace[d] ELSE "end">>)
       /\ FALSE
=============================================================================
