SPECIFICATION TraceSpec
CONSTANTS
  Procs = {"p0","p1","p2","p3","p4"}
  Keys = {"k1","k2"}
POSTCONDITION Report
CHECK_DEADLOCK FALSE
