------------------------------ MODULE Trace_Lin ------------------------------
(***************************************************************************)
(* C09 - linearizability of the per-key operations of a swamp.             *)
(*                                                                         *)
(* The sequential reference model (SeqKV) gives, for one request on one    *)
(* key and the key's current value, the response and the new value:        *)
(*   set    (typed value, CreateIfNotExist / Overwrite flags, statuses)    *)
(*   inc    (IncrementInt64 with optional relational condition)            *)
(*   patch  (PatchTreasures, one INC op on field "n", CreateIfNotExist)    *)
(*   del    (Delete)        shift (ShiftByKeys, one key)      get (Get)    *)
(* A value is [t, v]: t = "none" (key absent), "i64" (int64 content) or    *)
(* "map" (msgpack body {"n": v}).                                          *)
(*                                                                         *)
(* A recorded concurrent history (call / ret events in real-time order,    *)
(* established by a global atomic counter taken before the request is      *)
(* issued and after the response is received) is explained by the model    *)
(* iff every request can be given a linearization point between its call   *)
(* and its return:                                                         *)
(*   Call(p)       next line is p's call: the request becomes pending      *)
(*   Linearize(p)  internal: the pending request takes effect atomically,  *)
(*                 its model response is remembered                        *)
(*   Ret(p)        next line is p's return: the remembered response must   *)
(*                 equal the logged one                                    *)
(*   Final         next line is the GetAll taken after every client        *)
(*                 returned: it must equal the model state                 *)
(* Many histories are concatenated; "reset" starts a new one.  Because the *)
(* spec takes silent steps, acceptance is not by diameter: the set of      *)
(* histories whose "final" line was reached is accumulated with TLCSet     *)
(* (one worker) and printed by the postcondition.  GiveUp lets the search  *)
(* leave a history that cannot be explained, so that the following ones    *)
(* are still judged; every history is judged on its own.                   *)
(***************************************************************************)
EXTENDS Integers, Sequences, FiniteSets, TLC, Json, IOUtils

CONSTANTS Procs,   \* client names (literals)
          Keys     \* key names (literals)

Trace == ndJsonDeserialize(IOEnv.TRACE_FILE)
N == Len(Trace)

VARIABLES l,      \* index of the next trace line
          kv,     \* [Keys -> value]  the model's swamp content
          pend    \* [Procs -> pending request record]

vars == <<l, kv, pend>>

None == [t |-> "none", v |-> 0]
NoRes == [st |-> "", t |-> "", v |-> 0]
NoOp == [op |-> "", k |-> "", a |-> 0, c |-> "", cv |-> 0, cr |-> 0, ow |-> 0, ty |-> ""]
Idle == [s |-> "idle", o |-> NoOp, res |-> NoRes]

-----------------------------------------------------------------------------
(* The sequential model *)

Res(st, t, v) == [st |-> st, t |-> t, v |-> v]

CondHolds(c, x, cv) ==
  CASE c = ""   -> TRUE
    [] c = "eq" -> x = cv
    [] c = "ne" -> x # cv
    [] c = "gt" -> x > cv
    [] c = "ge" -> x >= cv
    [] c = "lt" -> x < cv
    [] c = "le" -> x <= cv

\* Apply(o, cur) = [nv |-> new value of key o.k, res |-> response]
Apply(o, cur) ==
  CASE o.op = "set" ->
         IF o.cr = 0 /\ cur.t = "none" THEN [nv |-> cur, res |-> Res("NOT_FOUND", "", 0)]
         ELSE IF o.ow = 0 /\ cur.t # "none" THEN [nv |-> cur, res |-> Res("NOTHING_CHANGED", "", 0)]
         ELSE LET nv == [t |-> o.ty, v |-> o.a] IN
              [nv |-> nv,
               res |-> Res(IF cur.t = "none" THEN "NEW" ELSE IF cur = nv THEN "NOTHING_CHANGED" ELSE "UPDATED", "", 0)]
    [] o.op = "inc" ->
         IF cur.t \notin {"none", "i64"} THEN [nv |-> cur, res |-> Res("ERR", "", 0)]
         ELSE LET x == IF cur.t = "none" THEN 0 ELSE cur.v IN
              IF CondHolds(o.c, x, o.cv)
                THEN [nv |-> [t |-> "i64", v |-> x + o.a], res |-> Res("INC", "", x + o.a)]
                ELSE [nv |-> cur, res |-> Res("NOINC", "", x)]
    [] o.op = "patch" ->
         CASE cur.t = "none" -> IF o.cr = 1 THEN [nv |-> [t |-> "map", v |-> o.a], res |-> Res("CREATED", "", 0)]
                                            ELSE [nv |-> cur, res |-> Res("KEY_NOT_FOUND", "", 0)]
           [] cur.t = "map"  -> [nv |-> [t |-> "map", v |-> cur.v + o.a], res |-> Res("PATCHED", "", 0)]
           [] OTHER          -> [nv |-> cur, res |-> Res("TYPE_MISMATCH", "", 0)]
    [] o.op = "del" ->
         IF cur.t = "none" THEN [nv |-> cur, res |-> Res("NOT_FOUND", "", 0)]
                           ELSE [nv |-> None, res |-> Res("DELETED", "", 0)]
    [] o.op = "shift" ->
         IF cur.t = "none" THEN [nv |-> cur, res |-> Res("MISS", "", 0)]
                           ELSE [nv |-> None, res |-> Res("HIT", cur.t, cur.v)]
    [] o.op = "get" ->
         IF cur.t = "none" THEN [nv |-> cur, res |-> Res("MISS", "", 0)]
                           ELSE [nv |-> cur, res |-> Res("HIT", cur.t, cur.v)]

-----------------------------------------------------------------------------
(* Trace actions *)

OpOf(e) == [op |-> e.op, k |-> e.k, a |-> e.a, c |-> e.c, cv |-> e.cv, cr |-> e.cr, ow |-> e.ow, ty |-> e.ty]

InitState ==
  /\ kv = [k \in Keys |-> None]
  /\ pend = [p \in Procs |-> Idle]

TraceInit == l = 1 /\ InitState /\ TLCSet(2, {})

IsEvent(e) == l <= N /\ Trace[l].ev = e

TrReset ==
  /\ IsEvent("reset")
  /\ l' = l + 1
  /\ kv' = [k \in Keys |-> None]
  /\ pend' = [p \in Procs |-> Idle]

Call ==
  /\ IsEvent("call")
  /\ LET e == Trace[l] IN
     /\ pend[e.p].s = "idle"
     /\ pend' = [pend EXCEPT ![e.p] = [s |-> "called", o |-> OpOf(e), res |-> NoRes]]
  /\ l' = l + 1 /\ UNCHANGED kv

Linearize(p) ==
  /\ l <= N
  /\ pend[p].s = "called"
  /\ LET o == pend[p].o
         r == Apply(o, kv[o.k]) IN
     /\ kv' = [kv EXCEPT ![o.k] = r.nv]
     /\ pend' = [pend EXCEPT ![p] = [s |-> "done", o |-> o, res |-> r.res]]
  /\ UNCHANGED l

Ret ==
  /\ IsEvent("ret")
  /\ LET e == Trace[l] IN
     /\ pend[e.p].s = "done"
     /\ pend[e.p].res = Res(e.st, e.t, e.v)
     /\ pend' = [pend EXCEPT ![e.p] = Idle]
  /\ l' = l + 1 /\ UNCHANGED kv

ValOf(t, v) == IF t = "none" THEN None ELSE [t |-> t, v |-> v]

\* the GetAll taken when every client has returned: exactly the model's keys plus the anchor key
Final ==
  /\ IsEvent("final")
  /\ LET e == Trace[l] IN
     /\ \A p \in Procs : pend[p].s = "idle"
     /\ e.st = "OK"
     /\ kv["k1"] = ValOf(e.t1, e.v1)
     /\ kv["k2"] = ValOf(e.t2, e.v2)
     /\ e.az = 1
     /\ e.n = 1 + Cardinality({k \in Keys : kv[k].t # "none"})
     /\ TLCSet(2, TLCGet(2) \cup {e.h})
  /\ l' = l + 1 /\ UNCHANGED <<kv, pend>>

\* abandon the current history (it stays unaccepted unless another path reaches its final line)
GiveUp ==
  /\ l <= N /\ Trace[l].ev # "reset"
  /\ l' = Trace[l].nx
  /\ kv' = [k \in Keys |-> None]
  /\ pend' = [p \in Procs |-> Idle]

TraceNext == TrReset \/ Call \/ Ret \/ Final \/ GiveUp \/ \E p \in Procs : Linearize(p)
TraceSpec == TraceInit /\ [][TraceNext]_vars

\* printed once at the end: the histories some linearization explains
Report == PrintT(ToJson([accepted |-> TLCGet(2)])) /\ TRUE
=============================================================================
