SPECIFICATION TraceSpec
CONSTANTS
  Procs = {"p1","p2","p3","p4","p5","p6"}
  Keys = {"k1","k2","k3"}
  Budget = 0
  Dev <- TraceDev
INVARIANT TraceInv
PROPERTY TraceProps
CHECK_DEADLOCK FALSE
