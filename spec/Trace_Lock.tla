---------------------------- MODULE Trace_Lock ----------------------------
(***************************************************************************)
(* Trace validation for Lock.  Lines are the events of the verif hooks in  *)
(* lock.go, in file order (enq / rem are emitted under q.mu, so for one    *)
(* key the file order is the lock order; grant is emitted by the caller    *)
(* right after <-c.ready, before its watchdog exists):                     *)
(*   {"ev":"enq","p":"p1","k":"k1","id":3,"found":1,"ids":[2,3]}           *)
(*   {"ev":"grant","p":"p1","k":"k1","id":3,"found":0,"ids":[]}            *)
(*   {"ev":"rem","cause":"unlock"|"ttl"|"cancel","p":..,"k":..,"id":..}    *)
(*      a queue.remove call has taken q.mu (logged BEFORE it wakes anybody,*)
(*      so the lines of the callers / watchdogs it wakes follow it)        *)
(*   {"ev":"remend","k":..,"id":..,"found":0|1,"ids":[queue after]}        *)
(*      the same call returns, still under q.mu: what it really did        *)
(*   {"ev":"rest","pcs":{"p1":"holding",..},"qmap":["k1"],..}  the driver  *)
(*      saw every caller idle / holding / "waiting" (parked in its select: *)
(*      it must not have been told to go) / "aborting" (held by the driver *)
(*      in the ctx.Done branch, before its remove)                         *)
(*   {"ev":"reset",..}  a new lock object                                  *)
(* ids are interned by the harness in the order of the enq lines (0 = an   *)
(* id that was never issued).  p = "" when the calling process is unknown  *)
(* (gateway handler goroutines for Unlock).                                *)
(*   {"ev":"wdexit","id":3}  the TTL watchdog goroutine of grant 3 ended   *)
(* IOEnv.CHECK_QMAP = "1": rest lines also compare the set of keys that    *)
(* have a queue object and the set of grants whose watchdog goroutine is   *)
(* alive (C28).                                                            *)
(***************************************************************************)
EXTENDS Lock, Json, IOUtils

Trace == ndJsonDeserialize(IOEnv.TRACE_FILE)
TraceDev == IF "TRACE_DEV" \in DOMAIN IOEnv /\ IOEnv.TRACE_DEV # "" THEN {IOEnv.TRACE_DEV} ELSE {}
CheckQmap == "CHECK_QMAP" \in DOMAIN IOEnv /\ IOEnv.CHECK_QMAP = "1"

VARIABLES l, run,
          pend     \* [Keys -> result (found) the spec gave to the remove call in progress on that key's queue, -1 none]
tvars == <<vars, l, run, pend>>

AsSeq(x) == [i \in 1..Len(x) |-> x[i]]
QIds(q) == [i \in DOMAIN q |-> q[i].id]
AsSet(x) == {x[i] : i \in 1..Len(x)}

TraceInit == Init /\ l = 1 /\ run = 0 /\ pend = [k \in Keys |-> -1]

Line == Trace[l]
Is(e) == l <= Len(Trace) /\ Line.ev = e
Step == l' = l + 1 /\ run' = run
Same == pend' = pend
Begun == pend' = [pend EXCEPT ![Line.k] = last'.res]
\* enqueue and remove run under q.mu: none can start on a queue while a remove call on it has not returned
Free == pend[Line.k] = -1
IdsLogged == QIds(queue'[Line.k]) = AsSeq(Line.ids)

TrEnq ==
  /\ Is("enq") /\ Step /\ Same /\ Free
  /\ Enq(Line.p, Line.k)
  /\ last'.id = Line.id /\ last'.res = Line.found
  /\ IdsLogged

TrGrant ==
  /\ Is("grant") /\ Step /\ Same
  /\ Acquire(Line.p)
  /\ cur[Line.p] = Line.id /\ key[Line.p] = Line.k

TrUnlock ==
  /\ Is("rem") /\ Line.cause = "unlock" /\ Step /\ Free
  /\ \E p \in (IF Line.p = "" THEN Procs ELSE {Line.p}) : Unlock(p, Line.k, Line.id)
  /\ Begun

\* the watchdog's remove: the TTL of a live grant fires, or the grant is gone already (nothing happens)
TrTtl ==
  /\ Is("rem") /\ Line.cause = "ttl" /\ Step /\ Free
  /\ IF \E i \in DOMAIN queue[Line.k] : queue[Line.k][i].id = Line.id
       THEN /\ \E p \in Procs : cur[p] = Line.id /\ key[p] = Line.k /\ Expire(p)
            /\ Begun
       ELSE /\ UNCHANGED vars
            /\ pend' = [pend EXCEPT ![Line.k] = 0]

\* the remove call returns: it found what the spec said it would find, and the queue is the spec's
TrRemEnd ==
  /\ Is("remend") /\ Step
  /\ pend[Line.k] = Line.found
  /\ QIds(queue[Line.k]) = AsSeq(Line.ids)
  /\ pend' = [pend EXCEPT ![Line.k] = -1]
  /\ UNCHANGED vars

\* the watchdog goroutine of a finished grant returns
TrWdExit ==
  /\ Is("wdexit") /\ Step /\ Same
  /\ WdExit(Line.id)

TrAbort ==
  /\ Is("rem") /\ Line.cause = "cancel" /\ Step /\ Free
  /\ cur[Line.p] = Line.id /\ key[Line.p] = Line.k
  /\ AbortBody(Line.p)
  /\ Begun

ObsPc(p) == IF p \in DOMAIN Line.pcs THEN Line.pcs[p] ELSE "idle"

\* a point of rest: nobody who has been told to go is still in its select
TrRest ==
  /\ Is("rest") /\ Step /\ Same
  /\ \A k \in Keys : pend[k] = -1
  /\ \A p \in Procs : pc[p] = (IF ObsPc(p) = "aborting" THEN "waiting" ELSE ObsPc(p))
  /\ \A p \in Procs : ObsPc(p) = "waiting" => ~ready[p]
  /\ (CheckQmap => (qmap = AsSet(Line.qmap) /\ wd = AsSet(Line.wd) /\ WdQuiescent))
  /\ UNCHANGED vars

TrReset ==
  /\ Is("reset") /\ l' = l + 1 /\ run' = run + 1 /\ pend' = [k \in Keys |-> -1]
  /\ (IF l = 1 THEN TRUE ELSE PrintT(ToJson([run |-> run, line |-> l])))
  /\ queue' = [k \in Keys |-> <<>>] /\ qmap' = {} /\ nextId' = 0
  /\ pc' = [p \in Procs |-> "idle"] /\ key' = [p \in Procs |-> ""] /\ cur' = [p \in Procs |-> 0]
  /\ ready' = [p \in Procs |-> FALSE] /\ cancelled' = [p \in Procs |-> FALSE]
  /\ stale' = {} /\ calls' = [p \in Procs |-> 0] /\ wd' = {}
  /\ last' = [a |-> "Init", p |-> "", k |-> "", id |-> 0, res |-> 0]

TrEnd ==
  /\ l = Len(Trace) + 1
  /\ PrintT(ToJson([run |-> run, line |-> l]))
  /\ PrintT(ToJson([accepted |-> TRUE, lines |-> Len(Trace)]))
  /\ l' = l + 1 /\ UNCHANGED <<vars, run, pend>>

TraceNext == TrEnq \/ TrGrant \/ TrUnlock \/ TrTtl \/ TrAbort \/ TrRemEnd \/ TrWdExit \/ TrRest \/ TrReset \/ TrEnd
TraceSpec == TraceInit /\ [][TraceNext]_tvars

\* the step properties of the design, on every step of the trace except the resets
TraceProps == [][(l <= Len(Trace) /\ Trace[l].ev = "reset") \/ (vars' = vars) \/ (GrantFifoStep /\ ForeignUnlockHarmlessStep /\ ReleasedStep)]_tvars

TraceInv == TypeOK /\ MutualExclusion /\ HolderIsHead /\ QueueConsistent /\ HeadToldToGo /\ QueuePresent
=============================================================================
