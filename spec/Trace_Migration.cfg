SPECIFICATION TraceSpec
CONSTANTS
  Keys = {1,2,3,4,5,6,7,8,9,10,11,12}
  Vals = {}
  ChunkCap = 0
  Dev <- TraceDev
  MaxOps = 0
  StaleTargets <- TraceStale
POSTCONDITION TraceComplete
CHECK_DEADLOCK FALSE
