-------------------------- MODULE Trace_Migration --------------------------
(***************************************************************************)
(* Trace validation for Migration (C23).  harness/cmd/migration lets the   *)
(* real legacy chronicler write a folder, optionally damages a chunk,      *)
(* runs the real migrator (phase hooks: loaded / empty / written /         *)
(* verified / deleted / failed; write faults injected through FileOp) and  *)
(* observes the result, the legacy folder (byte-identical? gone?) and what *)
(* the real V2 chronicler loads from the new file.  Records are            *)
(* <<k, v, d>> with interned keys and values.                              *)
(***************************************************************************)
EXTENDS Migration, Json, IOUtils

Trace == ndJsonDeserialize(IOEnv.TRACE_FILE)
TraceDev == IF "TRACE_DEV" \in DOMAIN IOEnv /\ IOEnv.TRACE_DEV # "" THEN {IOEnv.TRACE_DEV} ELSE {}

TraceStale == {NoV2}

VARIABLES l, mode
tvars == <<vars, l, mode>>
Line == Trace[l]
Is(e) == l <= Len(Trace) /\ Line.ev = e

Inv == Preserves /\ LegacyIntactOnFailure /\ NoEarlyDelete
Step(A) == mode = "run" /\ A /\ (Dev = {} => Inv') /\ l' = l + 1 /\ UNCHANGED mode

TraceInit == Init /\ l = 1 /\ mode = "run"

MapOfRecs(rs) == [k \in Keys |-> IF \E i \in DOMAIN rs : rs[i][1] = k
                                 THEN LET i == CHOOSE i \in DOMAIN rs : rs[i][1] = k IN <<rs[i][2], rs[i][3]>>
                                 ELSE Absent]

TrSetup ==
  /\ Is("setup")
  /\ v1' = [ex |-> TRUE, chunks |-> Line.chunks, name |-> Line.name, bad |-> {Line.bad[i] : i \in DOMAIN Line.bad}]
  /\ v2' = IF Line.stale = "" THEN NoV2
           ELSE [ex |-> TRUE, recs |-> MapOfRecs(Line.stale_recs), name |-> Line.name, bad |-> Line.stale = "torn"]
  /\ orig' = v1' /\ phase' = "legacy" /\ cfg' = [verify |-> FALSE, deleteOld |-> FALSE, rfault |-> {}]
  /\ loaded' = [k \in Keys |-> Absent] /\ result' = "none" /\ failedIn' = "" /\ ops' = 0 /\ last' = "Init"
  /\ l' = l + 1 /\ mode' = "run"

TrStart == Is("start") /\ Step(Start([verify |-> Line.verify, deleteOld |-> Line.delete_old,
                                          rfault |-> {Line.rfault[i] : i \in DOMAIN Line.rfault}]))
\* the migrator has read the folder: the number of records it found is bound to the spec's
\* (for a folder without records the migrator announces "loaded" with 0 entries and then "empty")
TrLoaded == Is("loaded") /\ Step(IF Line.n = 0 THEN phase = "loading" /\ IsEmpty(LoadV1(v1)) /\ UNCHANGED vars
                                  ELSE Load /\ phase' = "writing" /\ Line.n = Cardinality({k \in Keys : loaded'[k] # Absent}))
TrEmpty == Is("empty") /\ Step(Load /\ phase' = "done")
TrWritten == Is("written") /\ Step(Write)
TrVerified == Is("verified") /\ Step(Verify)
TrFailed ==
  /\ Is("failed")
  /\ Step(CASE Line.phase = "load" -> LoadFault
            [] Line.phase = "write" -> (\E b \in BOOLEAN : WriteFault(b)) \/ Refuse
            [] Line.phase = "verify" -> VerifyFault
            [] OTHER -> FALSE)
\* "deleted" is announced after the removal was attempted; how far it got is seen at the end
TrDeleted == Is("deleted") /\ Step(\E a \in BOOLEAN : Delete(a))

\* the end of the run: result and files as observed
TrEnd ==
  /\ Is("end")
  /\ Step(/\ IF phase = "deleting" THEN Delete(TRUE) ELSE (phase = "done" /\ UNCHANGED vars)   \* (delete-old off: no announcement)
          /\ Line.res = result'
          /\ CASE Line.v1 = "intact" -> v1' = orig'
               [] Line.v1 = "gone" -> ~v1'.ex
               [] OTHER -> v1'.ex /\ v1' # orig'
          /\ Line.v2_ex = v2'.ex
          /\ v2'.ex => (Line.v2_err = v2'.bad)
          /\ (v2'.ex /\ ~v2'.bad) => (MapOfRecs(Line.v2) = v2'.recs /\ Line.name = v2'.name))

TrDone == Is("done") /\ mode = "run" /\ PrintT(ToJson([ok |-> Line.id])) /\ l' = l + 1 /\ UNCHANGED <<vars, mode>>

NoGiveUp == "TRACE_NOGIVEUP" \in DOMAIN IOEnv /\ IOEnv.TRACE_NOGIVEUP = "1"
GiveUp == ~NoGiveUp /\ mode = "run" /\ l <= Len(Trace) /\ Line.ev # "setup" /\ mode' = "skip" /\ l' = l
          /\ v1' = [ex |-> TRUE, chunks |-> <<>>, name |-> 1, bad |-> {}] /\ v2' = NoV2 /\ orig' = v1' /\ phase' = "legacy"
          /\ cfg' = [verify |-> FALSE, deleteOld |-> FALSE, rfault |-> {}] /\ loaded' = [k \in Keys |-> Absent]
          /\ result' = "none" /\ failedIn' = "" /\ ops' = 0 /\ last' = "Init"
SkipLine == mode = "skip" /\ l <= Len(Trace) /\ Line.ev # "setup" /\ l' = l + 1 /\ UNCHANGED <<vars, mode>>

TraceNext == TrSetup \/ TrStart \/ TrLoaded \/ TrEmpty \/ TrWritten \/ TrVerified \/ TrFailed \/ TrDeleted \/ TrEnd \/ TrDone
             \/ GiveUp \/ SkipLine
TraceSpec == TraceInit /\ [][TraceNext]_tvars

TraceComplete ==
  LET d == TLCGet("stats").diameter IN
  IF d >= Len(Trace) THEN TRUE
  ELSE PrintT(<<"TRACE_INCOMPLETE", d, Len(Trace), IF d <= Len(Trace) THEN Trace[d] ELSE "end">>) /\ FALSE
=============================================================================
