---------------------------- MODULE Trace_Naming ----------------------------
(***************************************************************************)
(* Trace validation for Naming (C20).  One line per (name, configuration)   *)
(* evaluated by harness/cmd/naming on the real server and SDK packages:    *)
(*   {"ev":"addr","id":..,"valid":0/1,"hc":[16 digits],"hp":[16 digits],   *)
(*    "N":..,"ranges":[[from,to],..],"depth":..,"fpl":..,                   *)
(*    "srv":[..],"sdk":[..],"route":[..],"loc":[{panic,island,levels,leaf}]}*)
(* srv / sdk / route / loc hold the DISTINCT results over all construction *)
(* routes of the name ("routes" lists them; Naming!Routes is demanded):    *)
(* each must be the answer of the spec, so two different results for one   *)
(* query - from two routes or two calls - are rejected.                    *)
(***************************************************************************)
EXTENDS Naming, Json, IOUtils

Trace == ndJsonDeserialize(IOEnv.TRACE_FILE)
TraceDev == IF "TRACE_DEV" \in DOMAIN IOEnv /\ IOEnv.TRACE_DEV = "SliceBeyondHash" THEN {"SliceBeyondHash"} ELSE {}

VARIABLE l
tvars == <<vars, l>>

Range(s) == {s[i] : i \in DOMAIN s}

TraceInit == Init /\ l = 1

QueryOf(e) == [canon |-> e.id, valid |-> e.valid, hc |-> e.hc, hp |-> e.hp,
               N |-> e.N, ranges |-> e.ranges, depth |-> e.depth, fpl |-> e.fpl]

TrAddr ==
  /\ l <= Len(Trace) /\ Trace[l].ev = "addr" /\ l' = l + 1
  /\ LET e == Trace[l] IN
     /\ Range(e.routes) = Routes(e.valid)          \* the line was taken through every construction route
     /\ Address(QueryOf(e))
     /\ Range(e.srv) = {out'.srv}
     /\ Range(e.sdk) = {out'.sdk}
     /\ Range(e.route) = {out'.route}
     /\ Range(e.loc) = {out'.loc}

TraceNext == TrAddr
TraceSpec == TraceInit /\ [][TraceNext]_tvars

TraceAccepted ==
  LET d == TLCGet("stats").diameter IN
  IF d - 1 = Len(Trace) THEN TRUE
  ELSE /\ PrintT(<<"TRACE_REJECTED_AT_LINE", d>>)
       /\ FALSE
=============================================================================
