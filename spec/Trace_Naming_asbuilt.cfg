SPECIFICATION TraceSpec
CONSTANTS
  Queries = {}
  MaxOps = 0
  Dev <- TraceDev
INVARIANTS InRange Consistent Injective RouteOwns LevelsFromHash
POSTCONDITION TraceAccepted
CHECK_DEADLOCK FALSE
