SPECIFICATION TraceSpec
CONSTANTS
  Sancts = {}
  Parts = {}
  SetIds = {}
  MaxOps = 0
  Dev <- TraceDev
INVARIANTS Persisted
POSTCONDITION TraceAccepted
CHECK_DEADLOCK FALSE
