--------------------------- MODULE Trace_Settings ---------------------------
(***************************************************************************)
(* Trace validation for Settings (C21).  The driver (harness/cmd/settings) *)
(* runs cases on the real settings package, one fresh root directory per   *)
(* case, and logs one line per call:                                       *)
(*   {"ev":"reset","forget":0/1}         a fresh root (new server, no file)*)
(*   {"ev":"reg","p":[s,r,w],"set":[m,idle,wi,mfs]}     RegisterPattern   *)
(*   {"ev":"dereg","p":[s,r,w]}                          DeregisterPattern *)
(*   {"ev":"restart"}                    settings.New on the same root     *)
(*   {"ev":"look","res":[{"n":[s,r,w],"obs":[{"pat":[..],"set":[..]},..]}]}*)
(*        the distinct results of repeated GetBySwampName(n) calls         *)
(* memo is NOT reset by "reset": the same set of patterns registered on    *)
(* another fresh server (in another order) must resolve the same way.      *)
(***************************************************************************)
EXTENDS Settings, Json, IOUtils

Trace == ndJsonDeserialize(IOEnv.TRACE_FILE)
TraceDev == IF "TRACE_DEV" \in DOMAIN IOEnv /\ IOEnv.TRACE_DEV = "MapOrderLookup" THEN {"MapOrderLookup"} ELSE {}

VARIABLE l
tvars == <<vars, l>>

Range(s) == {s[i] : i \in DOMAIN s}

TraceInit == Init /\ l = 1

IsEvent(e) == l <= Len(Trace) /\ Trace[l].ev = e /\ l' = l + 1

\* "forget":1 marks the first case of a group of cases (all orders of one pattern set): the memo of the
\* previous groups is dropped, which only bounds the size of the state (it can only accept more)
TrReset ==
  /\ IsEvent("reset")
  /\ mem' = NoPatterns /\ disk' = NoPatterns
  /\ memo' = IF "forget" \in DOMAIN Trace[l] /\ Trace[l].forget = 1 THEN NoMemo ELSE memo
  /\ UNCHANGED ops

TrReg     == IsEvent("reg") /\ Register(Trace[l].p, Trace[l].set)
TrDereg   == IsEvent("dereg") /\ Deregister(Trace[l].p)
TrRestart == IsEvent("restart") /\ Restart
TrLook ==
  /\ IsEvent("look")
  /\ LookupBatch({<<e.n, {[pat |-> o.pat, set |-> o.set] : o \in Range(e.obs)}>> : e \in Range(Trace[l].res)})

TraceNext == TrReset \/ TrReg \/ TrDereg \/ TrRestart \/ TrLook
TraceSpec == TraceInit /\ [][TraceNext]_tvars

TraceAccepted ==
  LET d == TLCGet("stats").diameter IN
  IF d - 1 = Len(Trace) THEN TRUE
  ELSE /\ PrintT(<<"TRACE_REJECTED_AT_LINE", d>>)
       /\ FALSE
=============================================================================
