---------------------------- MODULE Trace_Summon ----------------------------
(***************************************************************************)
(* Trace validation for Summon.  The driver (harness/cmd/summon) runs      *)
(* every SummonSwamp call and every swamp.Close() of the real Hydra in its *)
(* own goroutine and lets exactly one move at a time (verifhook gates      *)
(* hydra.summon.* and swamp.close.flagged); after each command it waits    *)
(* for a point of rest (everybody at a gate, parked in sync.Cond.Wait,     *)
(* blocked in sync.Mutex.Lock, waiting in WaitForGracefulClose, or         *)
(* returned) and logs what it sees.  One line = one Command step plus the  *)
(* observation at the following point of rest; Internal steps are searched.*)
(*                                                                         *)
(*  {"ev":"cmd","a":"GoGot","p":"s1","x":0,"obs":{"s1":"create",..},       *)
(*   "rets":{"s1":0,..},"smap":1,"live":[1]}                               *)
(*  {"ev":"reset",..}   a fresh swamp name                                 *)
(***************************************************************************)
EXTENDS Summon, Json, IOUtils, Sequences

Trace == ndJsonDeserialize(IOEnv.TRACE_FILE)
TraceDev == IF "TRACE_DEV" \in DOMAIN IOEnv /\ IOEnv.TRACE_DEV # "" THEN {IOEnv.TRACE_DEV} ELSE {}

VARIABLES l, run
tvars == <<vars, l, run>>

ObsOf(p) ==
  CASE pc[p] \in {"wantlock", "wantrel"} -> "mutexwait"
    [] pc[p] \in {"locked", "rellocked", "released", "counted"} -> "running"
    [] OTHER -> pc[p]

AsSet(x) == {x[i] : i \in 1..Len(x)}

ObsOK(i) ==
  IF i = 0 \/ Trace[i].ev = "reset" THEN TRUE
  ELSE /\ Quiescent
       /\ \A p \in Procs : ObsOf(p) = Trace[i].obs[p]
       /\ \A p \in Procs : pc[p] = "done" => ret[p] = Trace[i].rets[p]
       /\ smap = Trace[i].smap
       /\ Live = AsSet(Trace[i].live)

TraceInit == Init /\ l = 1 /\ run = 0

Cmd(a, p, x) ==
  \/ a = "Start" /\ Start(p)
  \/ a = "Cancel" /\ Cancel(p)
  \/ a = "GoLoaded" /\ GoLoaded(p)
  \/ a = "GoSlot" /\ GoSlot(p)
  \/ a = "GoGot" /\ GoGot(p)
  \/ a = "GoCreate" /\ GoCreate(p)
  \/ a = "CloseBegin" /\ x \in Insts /\ CloseBegin(x)
  \/ a = "CloseDone" /\ x \in Insts /\ CloseDone(x)

TrCmd ==
  /\ l <= Len(Trace) /\ Trace[l].ev = "cmd"
  /\ ObsOK(l - 1)
  /\ Cmd(Trace[l].a, Trace[l].p, Trace[l].x)
  /\ l' = l + 1 /\ run' = run

TrInternal == Internal /\ UNCHANGED <<l, run>>

RunDone == PrintT(ToJson([run |-> run, line |-> l]))

TrReset ==
  /\ l <= Len(Trace) /\ Trace[l].ev = "reset"
  /\ ObsOK(l - 1)
  /\ (IF l = 1 THEN TRUE ELSE RunDone)
  /\ pc' = [p \in Procs |-> "idle"] /\ w' = [p \in Procs |-> 0] /\ seen' = [p \in Procs |-> 0]
  /\ ret' = [p \in Procs |-> 0] /\ ctxc' = [p \in Procs |-> FALSE] /\ calls' = [p \in Procs |-> 0]
  /\ slotmap' = 0 /\ nobj' = 0
  /\ ready' = [o \in Objs |-> FALSE] /\ count' = [o \in Objs |-> 0] /\ mu' = [o \in Objs |-> ""] /\ parked' = [o \in Objs |-> {}]
  /\ smap' = 0 /\ ninst' = 0 /\ ist' = [i \in Insts |-> "none"]
  /\ last' = [a |-> "Init", p |-> "", x |-> 0]
  /\ l' = l + 1 /\ run' = run + 1

TrEnd ==
  /\ l = Len(Trace) + 1
  /\ ObsOK(l - 1)
  /\ RunDone
  /\ PrintT(ToJson([accepted |-> TRUE, lines |-> Len(Trace)]))
  /\ l' = l + 1
  /\ UNCHANGED <<vars, run>>

TraceNext == TrCmd \/ TrInternal \/ TrReset \/ TrEnd
TraceSpec == TraceInit /\ [][TraceNext]_tvars

\* evaluated on every state of every candidate explanation under the strict design
TraceInv == TypeOK /\ OneLive /\ MapIsLive /\ OneInBody /\ SlotNotDropped /\ ParkedHasOwner /\ ParkedConsistent /\ NoStuck
=============================================================================
