---------------------------- MODULE Trace_SwampKV ----------------------------
(***************************************************************************)
(* Trace validation for SwampKV (binding A).  The ndjson file recorded by  *)
(* harness/cmd/swampkv holds many histories:                               *)
(*    {"ev":"reset","h":id,"mode":m}   a fresh swamp                       *)
(*    {"ev":"call", ...request..., "ret":b, "err":code, ...response...}    *)
(*    {"ev":"end"}                                                         *)
(* Every call line must be an outcome of SwampKV!Outs for the logged       *)
(* request in the current state: same "returned", same full response.      *)
(* Dev (from the cfg) is the set of OPEN known deviations; for every       *)
(* history TLC prints which of them the history needed ("used": an outcome *)
(* that the strict specification, evaluated from the same state, does not  *)
(* allow) or the first line no outcome explains ("bad").  The state        *)
(* invariants are evaluated after every line.                              *)
(***************************************************************************)
EXTENDS SwampKV, Json, IOUtils

Strict == INSTANCE SwampKV WITH Dev <- {}
Keys4 == <<"k1", "k2", "k3", "k4">>

Trace == ndJsonDeserialize(IOEnv.TRACE_FILE)

VARIABLES l,      \* next line
          hid,    \* id of the current history
          used,   \* deviations the current history needed so far
          bad,    \* the current history has a line that no outcome explains (rest of it is skipped)
          evict   \* the swamp of this history has a 1 s idle timeout: it may be evicted between any two calls

tvars == <<vars, l, hid, used, bad, evict>>

ModeOf(m) == IF m \in {"p0", "pi"} THEN "p0" ELSE IF m \in {"pw", "pj"} THEN "pw" ELSE "mem"

Blank(m) ==
  /\ store' = NoMap /\ pend' = NoMap /\ open' = FALSE /\ disk' = NoMap /\ wq' = {} /\ dq' = {} /\ filed' = {} /\ xb' = FALSE /\ xk' = NoMap
  /\ mode' = m
  /\ last' = [q |-> [op |-> "Init"], r |-> [err |-> ""], ret |-> TRUE, dv |-> {}, before |-> NoMap]
  /\ ops' = 0

TraceInit ==
  /\ store = NoMap /\ pend = NoMap /\ open = FALSE /\ disk = NoMap /\ wq = {} /\ dq = {} /\ filed = {} /\ xb = FALSE /\ xk = NoMap /\ mode = "mem"
  /\ last = [q |-> [op |-> "Init"], r |-> [err |-> ""], ret |-> TRUE, dv |-> {}, before |-> NoMap]
  /\ ops = 0
  /\ l = 1 /\ hid = 0 /\ used = {} /\ bad = FALSE /\ evict = FALSE

Line == Trace[l]
IsEvent(e) == l <= Len(Trace) /\ Line.ev = e /\ l' = l + 1

Report == IF hid = 0 THEN TRUE ELSE PrintT(ToJson([h |-> hid, used |-> used, bad |-> bad]))

TrReset ==
  /\ IsEvent("reset")
  /\ Report
  /\ Blank(ModeOf(Line.mode))
  /\ hid' = Line.h /\ used' = {} /\ bad' = FALSE /\ evict' = (Line.mode \in {"pi", "pj"})

TrEnd ==
  /\ IsEvent("end")
  /\ Report
  /\ hid' = 0
  /\ UNCHANGED <<vars, used, bad, evict>>

Matches(o, ln) ==
  /\ ln.ret = o.ret
  /\ o.ret => \A f \in DOMAIN o.r : f \in DOMAIN ln /\ ln[f] = o.r[f]

\* deviations an outcome needed, judged against the strict specification evaluated from the same state
Needed(o, q, S) == IF Proj(o) \in {Strict!Proj(x) : x \in Strict!Outs(q, S)} THEN {}
                   ELSE IF o.dv = {} THEN {"?"} ELSE o.dv

\* candidates [o, u]: the outcomes that match the line, from the current state or - for a swamp with an idle
\* timeout, which may be evicted between any two calls - from the state after a silent eviction + reload
ReloadQ == [op |-> "CloseReload", how |-> "idle"]
Direct == {[o |-> o, u |-> Needed(o, Line, State)] : o \in {x \in Outs(Line, State) : Matches(x, Line)}}
AfterEviction ==
  UNION {{[o |-> o, u |-> Needed(p, ReloadQ, State) \cup Needed(o, Line, p.S)] : o \in {x \in Outs(Line, p.S) : Matches(x, Line)}}
         : p \in Outs(ReloadQ, State)}

TrCall ==
  /\ IsEvent("call")
  /\ UNCHANGED <<hid, mode, evict>>
  /\ IF bad \/ ~last.ret
       THEN UNCHANGED <<store, pend, open, disk, wq, dq, filed, xb, xk, last, ops, used, bad>>
       ELSE LET cands == IF evict THEN Direct \cup AfterEviction ELSE Direct
            IN IF cands = {}
                 THEN /\ PrintT(ToJson([h |-> hid, line |-> l, i |-> Line.i, op |-> Line.op,
                                        expected |-> {[r |-> o.r, ret |-> o.ret] : o \in Outs(Line, State)}]))
                      /\ bad' = TRUE
                      /\ UNCHANGED <<store, pend, open, disk, wq, dq, filed, xb, xk, last, ops, used>>
                 ELSE \E c \in cands :
                      /\ store' = c.o.S.store /\ pend' = c.o.S.pend /\ open' = c.o.S.open /\ disk' = c.o.S.disk /\ wq' = c.o.S.wq /\ dq' = c.o.S.dq /\ filed' = c.o.S.filed /\ xb' = c.o.S.xb /\ xk' = c.o.S.xk
                      /\ last' = [q |-> Line, r |-> c.o.r, ret |-> c.o.ret, dv |-> c.o.dv, before |-> store]
                      /\ ops' = ops + 1
                      /\ used' = used \cup c.u
                      /\ ("?" \in c.u) => PrintT(ToJson([h |-> hid, line |-> l, i |-> Line.i, op |-> Line.op, unattributed |-> TRUE]))
                      /\ bad' = FALSE

TraceNext == TrReset \/ TrCall \/ TrEnd
TraceSpec == TraceInit /\ [][TraceNext]_tvars

TraceAccepted ==
  LET d == TLCGet("stats").diameter IN
  IF d - 1 = Len(Trace) THEN TRUE
  ELSE /\ PrintT(<<"TRACE_REJECTED_AT_LINE", d, IF d <= Len(Trace) THEN Trace[d] ELSE "end">>)
       /\ FALSE

-----------------------------------------------------------------------------
(* the state invariants of the design, evaluated after every line; a       *)
(* deviation that the history has used excuses the invariant it breaks     *)

U(n) == n \in used
TNormalized == U("U32PushWrongType") \/ U("SetSliceMerges") \/ U("GobZero") \/ U("IncVoidSideEffect") \/ U("?")
               \/ \A k \in DOMAIN store : Normal(store[k].c)
TExistsIffNonEmpty == U("EmptySwampExists") \/ ~last.ret \/ open = ~IsEmpty(store)
TNoStaleFlags == D("StickyDirty") \/ \A k \in DOMAIN store : ~store[k].dirty
TCountable == Cardinality(DOMAIN store) <= Len(KeyOrder)
=============================================================================
