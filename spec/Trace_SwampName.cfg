SPECIFICATION TraceSpec
CONSTANTS
  Names = {1,2,3,4,5,6,7,8,9,10,11,12,13,14,15,16,17,18,19,20,90,91,92}
  Long <- TraceLong
  Dev <- TraceDev
  MaxSteps = 0
POSTCONDITION TraceComplete
CHECK_DEADLOCK FALSE
