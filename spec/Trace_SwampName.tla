-------------------------- MODULE Trace_SwampName --------------------------
(***************************************************************************)
(* Trace validation for SwampName (C29).  harness/cmd/swampname performs   *)
(* histories on real storage files (fresh, legacy, appended, compacted by  *)
(* every path, format-migrated, destroyed) and after every step records    *)
(* what v2.ReadSwampName returns for every file and what an explorer Scan  *)
(* lists.  Names are interned to integers (0 = empty, -1 = error).         *)
(* Scenarios are separated by `reset` ... `done`; a scenario no behaviour  *)
(* explains is abandoned (GiveUp), accepted ones print {"ok": id}.         *)
(***************************************************************************)
EXTENDS SwampName, Json, IOUtils

Trace == ndJsonDeserialize(IOEnv.TRACE_FILE)
TraceDev == IF "TRACE_DEV" \in DOMAIN IOEnv /\ IOEnv.TRACE_DEV = "NameLen16" THEN {"NameLen16"} ELSE {}
TraceLong == {n \in Names : n >= 90}      \* the driver gives names of >= 65536 bytes the ids 90..99

VARIABLES l, mode
tvars == <<vars, l, mode>>

TraceInit == Init /\ l = 1 /\ mode = "run"
Line == Trace[l]
Is(e) == l <= Len(Trace) /\ Line.ev = e
Step(A) == mode = "run" /\ A /\ l' = l + 1 /\ UNCHANGED mode

TrReset == Is("reset") /\ files' = [n \in Names |-> NoFile] /\ steps' = 0 /\ last' = [a |-> "Init", n |-> None]
                       /\ l' = l + 1 /\ mode' = "run"
TrCreate == Is("create") /\ Step(IF Line.legacy THEN CreateLegacy(Line.n) ELSE CreateFresh(Line.n))
TrAppend == Is("append") /\ Step(AppendTo(Line.n))
TrCompact == Is("compact") /\ Step(Compact(Line.n))
TrMigrate == Is("migrate") /\ Step(MigrateFormat(Line.n))
TrDestroy == Is("destroy") /\ Step(Destroy(Line.n))

\* a step the engine failed to perform: only explained by a file whose stored name length is wrong
TrFailed == Is("failed") /\ Step(files[Line.n].ex /\ files[Line.n].bad /\ UNCHANGED vars)

Good == {n \in Present : ~files[n].bad}
ListingOK(lst, total, hydfiles) ==
  LET L == {lst[i] : i \in DOMAIN lst} IN
  /\ {ScanName(files[n]) : n \in Good} \ {None} \subseteq L
  /\ Cardinality(L \ Good) <= Cardinality(Present \ Good)
  /\ Len(lst) = Cardinality(L)
  /\ total = Len(lst)
  /\ hydfiles = Cardinality(Present)

\* reads = <<name written, what ReadSwampName returned>> for every file on disk; listing = the explorer's list
TrObserve ==
  /\ Is("observe")
  /\ Step(/\ {Line.reads[i][1] : i \in DOMAIN Line.reads} = Present
          /\ \A i \in DOMAIN Line.reads :
               LET n == Line.reads[i][1] IN ~files[n].bad => Line.reads[i][2] = ReadName(files[n])
          /\ ListingOK(Line.listing, Line.total, Line.hydfiles)      \* a fresh explorer's first scan
          /\ ListingOK(Line.listing2, Line.total2, Line.hydfiles2)   \* the long-lived explorer's rescan
          /\ Dev = {} => NameAgrees /\ ListingExact
          /\ UNCHANGED vars)

TrDone == Is("done") /\ mode = "run" /\ PrintT(ToJson([ok |-> Line.id])) /\ l' = l + 1 /\ UNCHANGED <<vars, mode>>

NoGiveUp == "TRACE_NOGIVEUP" \in DOMAIN IOEnv /\ IOEnv.TRACE_NOGIVEUP = "1"
GiveUp == ~NoGiveUp /\ mode = "run" /\ l <= Len(Trace) /\ Line.ev # "reset" /\ mode' = "skip" /\ l' = l
          /\ files' = [n \in Names |-> NoFile] /\ steps' = 0 /\ last' = [a |-> "Init", n |-> None]
SkipLine == mode = "skip" /\ l <= Len(Trace) /\ Line.ev # "reset" /\ l' = l + 1 /\ UNCHANGED <<vars, mode>>

TraceNext == TrReset \/ TrCreate \/ TrAppend \/ TrCompact \/ TrMigrate \/ TrDestroy \/ TrFailed \/ TrObserve \/ TrDone \/ GiveUp \/ SkipLine
TraceSpec == TraceInit /\ [][TraceNext]_tvars

TraceComplete ==
  LET d == TLCGet("stats").diameter IN
  IF d >= Len(Trace) THEN TRUE
  ELSE PrintT(<<"TRACE_INCOMPLETE", d, Len(Trace), IF d <= Len(Trace) THEN Trace[d] ELSE "end">>) /\ FALSE
=============================================================================
