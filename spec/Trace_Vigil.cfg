SPECIFICATION TraceSpec
CONSTANTS
  Ops = {"o1","o2","o3"}
  Waiters = {"w1","w2","w3"}
  MaxRounds = 0
  Dev <- TraceDev
CHECK_DEADLOCK FALSE
