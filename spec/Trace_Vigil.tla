---------------------------- MODULE Trace_Vigil ----------------------------
(***************************************************************************)
(* Trace validation for Vigil.  The driver (harness/cmd/vigil) runs every  *)
(* operation / waiter of the real vigil in its own goroutine and lets      *)
(* exactly one of them move at a time (verifhook.Yield gates); after each  *)
(* command it waits until every goroutine is at a gate, parked in          *)
(* sync.Cond.Wait, blocked on the mutex, or has returned, and logs what it *)
(* sees.  One trace line = one Command step of the spec plus the observed  *)
(* state at the following point of rest; the Internal steps in between are *)
(* not logged and are left to the spec (TLC searches the interleavings).   *)
(*                                                                         *)
(*   {"ev":"cmd","a":"CStart","p":"o1","obs":{"o1":"gate",...},"has":1}    *)
(*   {"ev":"reset",...}   a new vigil (all processes idle)                 *)
(*                                                                         *)
(* `used` collects the deviations taken since the last reset; at the end   *)
(* of each run the pair (run, used) is printed.  A run is explained by the *)
(* strict design iff some path prints it with used = {}.                   *)
(***************************************************************************)
EXTENDS Vigil, Json, IOUtils, Sequences

Trace == ndJsonDeserialize(IOEnv.TRACE_FILE)
TraceDev == IF "TRACE_DEV" \in DOMAIN IOEnv /\ IOEnv.TRACE_DEV = "LostWakeup" THEN {"LostWakeup"} ELSE {}

VARIABLES l, used, run
tvars == <<vars, l, used, run>>

ObsOf(p) ==
  CASE pc[p] = "idle" -> "idle"
    [] pc[p] = "active" -> "active"
    [] pc[p] \in {"cwant", "wwant"} -> "mutexwait"
    [] pc[p] \in {"cgate", "wgate"} -> "gate"
    [] pc[p] = "parked" -> "parked"
    [] pc[p] = "done" -> "done"
    [] OTHER -> "running"

\* the state is at rest and looks like what the driver saw after line i
ObsOK(i) ==
  IF i = 0 THEN TRUE
  ELSE /\ Quiescent
       /\ \A p \in Procs : ObsOf(p) = Trace[i].obs[p]
       /\ Trace[i].has = (IF vigils > 0 THEN 1 ELSE 0)

TraceInit == Init /\ l = 1 /\ used = {} /\ run = 0

Cmd(a, p) ==
  \/ a = "Begin" /\ p \in Ops /\ Begin(p)
  \/ a = "CStart" /\ p \in Ops /\ CStart(p)
  \/ a = "CFinish" /\ p \in Ops /\ CFinish(p)
  \/ a = "WStart" /\ p \in Waiters /\ WStart(p)
  \/ a = "WRelease" /\ p \in Waiters /\ WRelease(p)

TrCmd ==
  /\ l <= Len(Trace) /\ Trace[l].ev = "cmd"
  /\ ObsOK(l - 1)
  /\ Cmd(Trace[l].a, Trace[l].p)
  /\ l' = l + 1 /\ run' = run
  /\ used' = IF last'.dev = "" THEN used ELSE used \cup {last'.dev}

TrInternal == Internal /\ UNCHANGED <<l, used, run>>

RunDone == PrintT(ToJson([run |-> run, used |-> used, line |-> l]))

TrReset ==
  /\ l <= Len(Trace) /\ Trace[l].ev = "reset"
  /\ ObsOK(l - 1)
  /\ (IF l = 1 THEN TRUE ELSE RunDone)
  /\ vigils' = 0 /\ mu' = "" /\ wait' = 0 /\ notify' = 0
  /\ ticket' = [w \in Waiters |-> 0] /\ parked' = {}
  /\ pc' = [p \in Procs |-> "idle"]
  /\ rounds' = [o \in Ops |-> 0]
  /\ last' = [a |-> "Init", p |-> "", dev |-> ""]
  /\ l' = l + 1 /\ used' = {} /\ run' = IF l = 1 THEN run ELSE run + 1

TrEnd ==
  /\ l = Len(Trace) + 1
  /\ ObsOK(l - 1)
  /\ RunDone
  /\ PrintT(ToJson([accepted |-> TRUE, lines |-> Len(Trace)]))
  /\ l' = l + 1
  /\ UNCHANGED <<vars, used, run>>

TraceNext == TrCmd \/ TrInternal \/ TrReset \/ TrEnd
TraceSpec == TraceInit /\ [][TraceNext]_tvars

\* evaluated on every state of every candidate explanation under the strict design
TraceInv == TypeOK /\ CounterExact /\ MutexOK /\ NoStuck /\ ParkedOnList /\ ParkedNotNotified
=============================================================================
