------------------------------- MODULE Vigil -------------------------------
(***************************************************************************)
(* The operation counter ("vigil") of a swamp and the condition-variable   *)
(* wait on it (app/core/hydra/swamp/vigil/vigil.go).  swamp.Destroy waits  *)
(* in WaitForActiveVigilsClosed; summoners that meet a closing swamp wait  *)
(* for Destroy, so a wait that never returns blocks them all (C17).        *)
(*                                                                         *)
(* sync.Cond is modelled explicitly, the way the Go runtime implements it: *)
(* a notify list with two ticket counters.  cond.Wait is                   *)
(*     t := notifyListAdd   (wait++)            -- still under the mutex   *)
(*     L.Unlock                                                            *)
(*     notifyListWait(t)    (return at once if t < notify, else park)      *)
(*     L.Lock                                                              *)
(* and cond.Broadcast is  "notify := wait; wake everybody parked".         *)
(*                                                                         *)
(* One action = the code a goroutine runs between two scheduling points    *)
(* that the harness can control or observe (verifhook.Yield gates, mutex   *)
(* acquisition, parking):                                                  *)
(*   Begin(o)      BeginVigil                                              *)
(*   CStart(o)     CeaseVigil is called                                    *)
(*   CAcquire(o)   ... it obtains the waiters' mutex and decrements        *)
(*   CFinish(o)    Broadcast (and unlock), CeaseVigil returns              *)
(*   WStart(w)     WaitForActiveVigilsClosed is called                     *)
(*   WAcquire(w)   ... it obtains the mutex (first time or after a wake-   *)
(*                 up) and checks the counter: returns, or reaches the     *)
(*                 gate between the check and cond.Wait                    *)
(*   WRelease(w)   leaves the gate: notifyListAdd                          *)
(*   WUnlock(w)    L.Unlock inside cond.Wait                               *)
(*   WListWait(w)  notifyListWait: parks, or sees that it was notified     *)
(*                                                                         *)
(* Strict design (Dev = {}): the decrement and the broadcast happen under  *)
(* the mutex the waiter holds from its check until it is on the notify     *)
(* list, so a wake-up cannot fall into that window.                        *)
(* Deviation "LostWakeup": CeaseVigil decrements and broadcasts without    *)
(* the mutex (an extra way to take CStart; steps that use it are labelled  *)
(* in `last.dev`).                                                         *)
(***************************************************************************)
EXTENDS Integers, FiniteSets, TLC

CONSTANTS Ops,        \* operations (strings)
          Waiters,    \* goroutines calling WaitForActiveVigilsClosed (strings)
          MaxRounds,  \* Begin/Cease rounds per operation (model checking bound; 0 = unbounded)
          Dev         \* subset of {"LostWakeup"}

VARIABLES vigils,   \* the atomic counter
          mu,       \* holder of cond.L ("" = free)
          wait,     \* notifyList.wait   (next ticket)
          notify,   \* notifyList.notify (tickets below this are notified)
          ticket,   \* [Waiters -> ticket taken by the current cond.Wait]
          parked,   \* waiters on the notify list
          pc,       \* [Ops \cup Waiters -> control state]
          rounds,   \* [Ops -> number of BeginVigil calls so far]
          last      \* last action [a, p, dev]  (observation only)

vars == <<vigils, mu, wait, notify, ticket, parked, pc, rounds, last>>

Procs == Ops \cup Waiters

Init ==
  /\ vigils = 0 /\ mu = "" /\ wait = 0 /\ notify = 0
  /\ ticket = [w \in Waiters |-> 0] /\ parked = {}
  /\ pc = [p \in Procs |-> "idle"]
  /\ rounds = [o \in Ops |-> 0]
  /\ last = [a |-> "Init", p |-> "", dev |-> ""]

Lbl(a, p, d) == last' = [a |-> a, p |-> p, dev |-> d]

-----------------------------------------------------------------------------
(* operations *)

Begin(o) ==
  /\ pc[o] = "idle" /\ (MaxRounds = 0 \/ rounds[o] < MaxRounds)
  /\ vigils' = vigils + 1
  /\ pc' = [pc EXCEPT ![o] = "active"]
  /\ rounds' = [rounds EXCEPT ![o] = @ + 1]
  /\ Lbl("Begin", o, "")
  /\ UNCHANGED <<mu, wait, notify, ticket, parked>>

CStart(o) ==
  /\ pc[o] = "active"
  /\ \/ /\ pc' = [pc EXCEPT ![o] = "cwant"]           \* goes for the mutex first
        /\ Lbl("CStart", o, "")
        /\ UNCHANGED vigils
     \/ /\ "LostWakeup" \in Dev                         \* decrements without the mutex
        /\ vigils' = vigils - 1
        /\ pc' = [pc EXCEPT ![o] = "cgate"]
        /\ Lbl("CStart", o, "LostWakeup")
  /\ UNCHANGED <<mu, wait, notify, ticket, parked, rounds>>

CAcquire(o) ==
  /\ pc[o] = "cwant" /\ mu = ""
  /\ mu' = o
  /\ vigils' = vigils - 1
  /\ pc' = [pc EXCEPT ![o] = "cgate"]
  /\ Lbl("CAcquire", o, "")
  /\ UNCHANGED <<wait, notify, ticket, parked, rounds>>

\* Broadcast; everybody on the list is made runnable and will go for the mutex again
CFinish(o) ==
  /\ pc[o] = "cgate"
  /\ notify' = wait
  /\ parked' = {}
  /\ pc' = [p \in Procs |-> IF p = o THEN "idle" ELSE IF p \in parked THEN "wwant" ELSE pc[p]]
  /\ mu' = IF mu = o THEN "" ELSE mu
  /\ Lbl("CFinish", o, "")
  /\ UNCHANGED <<vigils, wait, ticket, rounds>>

-----------------------------------------------------------------------------
(* waiters *)

WStart(w) ==
  /\ pc[w] = "idle"
  /\ pc' = [pc EXCEPT ![w] = "wwant"]
  /\ Lbl("WStart", w, "")
  /\ UNCHANGED <<vigils, mu, wait, notify, ticket, parked, rounds>>

\* Lock (or re-lock after a wake-up), then `for v.HasActiveVigils()`
WAcquire(w) ==
  /\ pc[w] = "wwant" /\ mu = ""
  /\ IF vigils > 0
       THEN mu' = w /\ pc' = [pc EXCEPT ![w] = "wgate"]
       ELSE mu' = "" /\ pc' = [pc EXCEPT ![w] = "done"]      \* deferred Unlock, return
  /\ Lbl("WAcquire", w, "")
  /\ UNCHANGED <<vigils, wait, notify, ticket, parked, rounds>>

WRelease(w) ==
  /\ pc[w] = "wgate"
  /\ ticket' = [ticket EXCEPT ![w] = wait]
  /\ wait' = wait + 1
  /\ pc' = [pc EXCEPT ![w] = "wadded"]
  /\ Lbl("WRelease", w, "")
  /\ UNCHANGED <<vigils, mu, notify, parked, rounds>>

WUnlock(w) ==
  /\ pc[w] = "wadded"
  /\ mu' = ""
  /\ pc' = [pc EXCEPT ![w] = "wunlocked"]
  /\ Lbl("WUnlock", w, "")
  /\ UNCHANGED <<vigils, wait, notify, ticket, parked, rounds>>

WListWait(w) ==
  /\ pc[w] = "wunlocked"
  /\ IF ticket[w] < notify
       THEN pc' = [pc EXCEPT ![w] = "wwant"] /\ UNCHANGED parked     \* already notified
       ELSE pc' = [pc EXCEPT ![w] = "parked"] /\ parked' = parked \cup {w}
  /\ Lbl("WListWait", w, "")
  /\ UNCHANGED <<vigils, mu, wait, notify, ticket, rounds>>

-----------------------------------------------------------------------------

\* steps the environment (callers of the API / the harness scheduler) decides
Command == \E o \in Ops : Begin(o) \/ CStart(o) \/ CFinish(o)
Command2 == \E w \in Waiters : WStart(w) \/ WRelease(w)
\* steps the goroutines take on their own once they are allowed to run
Internal ==
  \/ \E o \in Ops : CAcquire(o)
  \/ \E w \in Waiters : WAcquire(w) \/ WUnlock(w) \/ WListWait(w)

\* nothing is in the middle of anything: allowed to stutter (so that TLC's deadlock check means "stuck")
AtRest ==
  /\ \A o \in Ops : pc[o] = "idle"
  /\ \A w \in Waiters : pc[w] \in {"idle", "done"}
  /\ UNCHANGED vars

Next == Command \/ Command2 \/ Internal \/ AtRest

\* operations in flight finish; goroutines that can run do run.  Begin and WStart are not fair
\* (nobody has to start anything).
Fairness ==
  /\ \A o \in Ops : WF_vars(CStart(o)) /\ WF_vars(CAcquire(o)) /\ WF_vars(CFinish(o))
  /\ \A w \in Waiters : WF_vars(WAcquire(w)) /\ WF_vars(WRelease(w)) /\ WF_vars(WUnlock(w)) /\ WF_vars(WListWait(w))

Spec == Init /\ [][Next]_vars /\ Fairness

-----------------------------------------------------------------------------
(* Properties (C17) *)

TypeOK ==
  /\ vigils \in Int /\ wait \in Nat /\ notify \in Nat /\ notify <= wait
  /\ mu \in Procs \cup {""}
  /\ parked \subseteq Waiters
  /\ pc \in [Procs -> {"idle", "active", "cwant", "cgate", "wwant", "wgate", "wadded", "wunlocked", "parked", "done"}]

\* the counter is the number of operations between BeginVigil and the decrement
CounterExact == vigils = Cardinality({o \in Ops : pc[o] \in {"active", "cwant"}})

\* the mutex is held exactly by the processes that are inside a critical section
MutexOK == \A p \in Procs : (mu = p) => pc[p] \in {"cgate", "wgate", "wadded"}

\* no goroutine can take a step on its own (what the harness observes as "everything parked or at a gate")
Quiescent ==
  /\ \A o \in Ops : ~(pc[o] = "cwant" /\ mu = "")
  /\ \A w \in Waiters : pc[w] \notin {"wadded", "wunlocked"} /\ ~(pc[w] = "wwant" /\ mu = "")

\* A wait is stuck: every operation has finished, nobody can move, and a waiter is still parked.
\* (With all operations idle nothing but Begin/WStart is enabled, so nobody will ever wake it.)
Stuck ==
  /\ \A o \in Ops : pc[o] = "idle"
  /\ \A w \in Waiters : pc[w] \in {"idle", "done", "parked"}
  /\ \E w \in Waiters : pc[w] = "parked"
NoStuck == ~Stuck

\* a waiter returns only when it saw the counter at zero; nobody parked is forgotten on the list
ReturnedOnZero == [][\A w \in Waiters : (pc[w] # "done" /\ pc'[w] = "done") => vigils = 0]_vars
ParkedOnList == \A w \in Waiters : (pc[w] = "parked") <=> (w \in parked)
\* a parked waiter has not been notified: its ticket is not below notify
ParkedNotNotified == \A w \in parked : ticket[w] >= notify

\* every wait that was started returns (operations in flight finish by fairness of CStart..CFinish)
WaitTerminates == \A w \in Waiters : (pc[w] # "idle") ~> (pc[w] = "done")

=============================================================================
